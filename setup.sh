#!/bin/sh
# Build the harness flavours that the quick tier needs, offline, from files on disk only.
set -e
cd "$(dirname "$0")/harness"
[ -f Cargo.lock ] || cp /repo/Cargo.lock Cargo.lock
export CARGO_NET_OFFLINE=true RUSTC_WRAPPER= RUSTFLAGS="--cfg redis_rust_verif"
cargo build --offline 2>&1 | tail -2
cargo build --offline --release 2>&1 | tail -2
# opt-all flavour: the feature set of the shipped benchmark image (legs *-opt of C01-C04, C15); a failure only drops those legs
CARGO_TARGET_DIR=../target/opt cargo build --offline --release --features opt 2>&1 | tail -1 || true
# ThreadSanitizer flavour (C02 quick leg); a failure here only drops that leg
RUSTFLAGS="--cfg redis_rust_verif -Zsanitizer=thread" CARGO_TARGET_DIR=../target/tsan cargo +nightly build --release --no-default-features -Zbuild-std --target x86_64-unknown-linux-gnu 2>&1 | tail -1 || true
# the repository's real server binaries for the end-to-end legs (also rebuilt by ./check on every run)
cd "$(dirname "$0")/.." 2>/dev/null || true
python3 -c "import sys; sys.path.insert(0, '/verif/e2e'); import lib; lib.build_bins()" 2>&1 | tail -2 || true  # repobin
