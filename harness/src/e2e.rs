//! Helpers for the end-to-end legs (/verif/e2e/*.py drive the real server binaries; these sub-commands read what
//! those processes left on disk with the repository's own readers).
use crate::common::Args;
use redis_sim::replication::state::CrdtValue;
use redis_sim::streaming::wal::WalReader;
use redis_sim::streaming::wal_store::{LocalWalStore, WalStore};
use serde_json::{json, Value};

/// `vh wal-dump --dir D`: every entry of every WAL file of a directory, in file-name order and append order:
/// {file, idx, ts, crc_ok, key, time, replica, kind, tomb}
pub fn wal_dump(args: &Args) {
    let dir = args.get_str("dir").expect("--dir").to_string();
    let store = LocalWalStore::new(dir.into()).expect("store");
    let mut names = store.list().expect("list");
    names.sort();
    let mut out: Vec<Value> = vec![];
    for n in names {
        let rd = match store.open_read(&n) {
            Ok(r) => r,
            Err(e) => {
                out.push(json!({"file": n, "error": e.to_string()}));
                continue;
            }
        };
        let reader = match std::panic::catch_unwind(std::panic::AssertUnwindSafe(|| WalReader::open(rd))) {
            Ok(Ok(r)) => r,
            Ok(Err(e)) => {
                out.push(json!({"file": n, "error": e.to_string()}));
                continue;
            }
            Err(_) => {
                out.push(json!({"file": n, "error": "panic"}));
                continue;
            }
        };
        for (i, e) in reader.entries().iter().enumerate() {
            let mut v = json!({"file": n, "idx": i, "ts": e.timestamp, "crc_ok": e.validate(), "content": crate::common::h64(&e.data)});
            if let Ok(d) = e.to_delta() {
                let (kind, tomb) = match &d.value.crdt {
                    CrdtValue::Lww(r) => ("lww", r.tombstone),
                    CrdtValue::Hash(h) => {
                        let mut fs: Vec<Value> = h.iter().map(|(f, r)| json!([f, r.timestamp.time, r.timestamp.replica_id.0, r.tombstone])).collect();
                        fs.sort_by_key(|x| x.to_string());
                        v["fields"] = json!(fs);
                        ("hash", false)
                    }
                    _ => ("other", false),
                };
                v["key"] = json!(d.key);
                v["time"] = json!(d.value.timestamp.time);
                v["replica"] = json!(d.value.timestamp.replica_id.0);
                v["kind"] = json!(kind);
                v["tomb"] = json!(tomb);
            } else {
                v["error"] = json!("undecodable delta");
            }
            out.push(v);
        }
    }
    println!("{}", serde_json::to_string(&out).expect("json"));
}

/// `vh gossip-frames --n N`: N length-prefixed gossip frames exactly as the production gossip loop puts them on the wire
/// (GossipMessage::serialize + 4-byte big-endian length), each a DeltaBatch with one string update; for the end-to-end leg that
/// plays a gossip peer against the real server binary. Output: JSON [{key, value, hex}].
pub fn gossip_frames(args: &Args) {
    use redis_sim::redis::SDS;
    use redis_sim::replication::gossip::GossipMessage;
    use redis_sim::replication::lattice::{LamportClock, ReplicaId};
    use redis_sim::replication::state::{ReplicatedValue, ReplicationDelta};
    let n = args.get_u64("n", 20);
    let src = ReplicaId::new(args.get_u64("replica", 9));
    let mut out: Vec<Value> = vec![];
    for i in 0..n {
        // two frames well above a megabyte (JSON renders a byte as three or four characters): a frame is as large as the
        // update it carries, the listener has to take it like any other
        let pad = match i {
            5 => 400_000,
            12 => 1_300_000,
            _ => [0usize, 1, 7, 100, 1400, 3000, 70_000][(i % 7) as usize],
        };
        let key = format!("gk{}", i);
        let value = format!("gv{}{}", i, "x".repeat(pad));
        let d = ReplicationDelta::new(key.clone(), ReplicatedValue::with_value(SDS::from_str(&value), LamportClock { time: 1000 + i, replica_id: src }), src);
        let msg = GossipMessage::new_delta_batch(src, vec![d], 5000 + i);
        let data = msg.serialize().expect("serialize");
        let mut framed = (data.len() as u32).to_be_bytes().to_vec();
        framed.extend_from_slice(&data);
        out.push(json!({"key": key, "value": value, "hex": framed.iter().map(|b| format!("{:02x}", b)).collect::<String>()}));
    }
    println!("{}", serde_json::to_string(&out).expect("json"));
}
