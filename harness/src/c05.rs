//! C05 — MULTI/EXEC all-or-nothing = sequential run; WATCH aborts on change (value based).
use crate::common::*;
use crate::conn::{self, Controller};
use crate::myresp::{self, Tree};
use rand::Rng as _;
use redis_sim::production::{ConnectionConfig, ShardedActorState};
use serde_json::{json, Value};

type Argv = Vec<Vec<u8>>;

fn b(s: &str) -> Vec<u8> {
    s.as_bytes().to_vec()
}
fn av(parts: &[&str]) -> Argv {
    parts.iter().map(|p| b(p)).collect()
}
fn show(a: &Argv) -> Vec<String> {
    a.iter().map(|x| lossy(x)).collect()
}

const KEYS: [&str; 6] = ["s", "l", "h", "z", "t", "n"]; // t = set, n = normally absent

struct Client {
    ctl: Controller,
    h: tokio::task::JoinHandle<()>,
}

#[derive(Debug)]
enum SendErr {
    Hang,
    Died,
    Replies(usize),
}

impl Client {
    fn new(state: &ShardedActorState) -> Client {
        let (ctl, h) = conn::spawn_conn(state.clone(), ConnectionConfig::default());
        Client { ctl, h }
    }
    async fn cmd(&self, a: &Argv) -> Result<Tree, SendErr> {
        self.ctl.send(&myresp::frame_v(a));
        if self.ctl.wait_idle(conn::STEP_BUDGET).await.is_err() {
            return Err(SendErr::Hang);
        }
        if self.ctl.server_closed() {
            return Err(SendErr::Died);
        }
        let out = self.ctl.take_output();
        match myresp::decode_all(&out) {
            Ok(t) if t.len() == 1 => Ok(t[0].clone()),
            Ok(t) => Err(SendErr::Replies(t.len())),
            Err((t, _)) => Err(SendErr::Replies(t.len())),
        }
    }
    async fn done(self) {
        self.ctl.close();
        let _ = self.ctl.wait_idle(conn::STEP_BUDGET).await;
        let _ = self.h.await;
    }
}

fn sorted(t: Tree) -> Tree {
    match t {
        Tree::Arr(Some(mut v)) => {
            v.sort_by(|a, b| format!("{:?}", a).cmp(&format!("{:?}", b)));
            Tree::Arr(Some(v))
        }
        o => o,
    }
}

fn pairs_sorted(t: Tree) -> Tree {
    match t {
        Tree::Arr(Some(v)) => {
            let mut p: Vec<Tree> = v.chunks(2).map(|c| Tree::Arr(Some(c.to_vec()))).collect();
            p.sort_by(|a, b| format!("{:?}", a).cmp(&format!("{:?}", b)));
            Tree::Arr(Some(p))
        }
        o => o,
    }
}

/// Visible value of one key through the public protocol (type + full read).
async fn snap_key(c: &Client, k: &str) -> Vec<Tree> {
    let mut out = vec![];
    let ty = c.cmd(&av(&["TYPE", k])).await.unwrap_or(Tree::Error(b("snapshot failed")));
    let read: Option<Argv> = match &ty {
        Tree::Simple(s) if s == b"string" => Some(av(&["GET", k])),
        Tree::Simple(s) if s == b"list" => Some(av(&["LRANGE", k, "0", "-1"])),
        Tree::Simple(s) if s == b"set" => Some(av(&["SMEMBERS", k])),
        Tree::Simple(s) if s == b"hash" => Some(av(&["HGETALL", k])),
        Tree::Simple(s) if s == b"zset" => Some(av(&["ZRANGE", k, "0", "-1", "WITHSCORES"])),
        _ => None,
    };
    let is_set = matches!(&ty, Tree::Simple(s) if s == b"set");
    let is_hash = matches!(&ty, Tree::Simple(s) if s == b"hash");
    out.push(ty);
    if let Some(r) = read {
        let v = c.cmd(&r).await.unwrap_or(Tree::Error(b("snapshot failed")));
        out.push(if is_set {
            sorted(v)
        } else if is_hash {
            pairs_sorted(v)
        } else {
            v
        });
    }
    out
}

async fn snapshot(c: &Client) -> Vec<Vec<Tree>> {
    let mut out = vec![];
    for k in KEYS {
        out.push(snap_key(c, k).await);
    }
    out.push(vec![c.cmd(&av(&["DBSIZE"])).await.unwrap_or(Tree::Int(-1))]);
    out
}

fn preload() -> Vec<Argv> {
    vec![
        av(&["SET", "s", "10"]),
        av(&["RPUSH", "l", "a", "b"]),
        av(&["HSET", "h", "f", "1"]),
        av(&["ZADD", "z", "1", "m"]),
        av(&["SADD", "t", "m"]),
    ]
}

#[derive(Clone, Debug)]
enum BodyItem {
    Cmd(&'static str, Argv),
}

fn body_pool() -> Vec<(&'static str, Argv)> {
    vec![
        ("SET", av(&["SET", "s", "20"])),
        ("SET-n", av(&["SET", "n", "new"])),
        ("INCR", av(&["INCR", "s"])),
        ("INCR-fail", av(&["INCR", "l"])),
        ("APPEND", av(&["APPEND", "s", "x"])),
        ("GET", av(&["GET", "s"])),
        ("LPUSH", av(&["LPUSH", "l", "c"])),
        ("LPUSH-wrongtype", av(&["LPUSH", "s", "c"])),
        ("LPOP", av(&["LPOP", "l"])),
        ("HSET", av(&["HSET", "h", "g", "2"])),
        ("HINCRBY-fail", av(&["HINCRBY", "h", "f", "notanumber"])),
        ("ZADD", av(&["ZADD", "z", "2", "m2"])),
        ("DEL", av(&["DEL", "s", "l"])),
        ("RENAME-missing", av(&["RENAME", "n", "q"])),
        ("MSET", av(&["MSET", "s", "1", "n", "2"])),
        ("EXPIRE", av(&["EXPIRE", "s", "100000"])),
        ("UNKNOWN", av(&["NOSUCHCOMMAND", "s"])),
        ("ARITY", av(&["GET"])),
        ("NESTED-MULTI", av(&["MULTI"])),
        ("WATCH-INSIDE", av(&["WATCH", "s"])),
        ("GET-lower", av(&["get", "s"])),
        ("SET-plain-fastpath-shape", av(&["SET", "s", "fast"])),
        ("UNWATCH-inside", av(&["UNWATCH"])),
        // scripts as queued commands: their redis.call runs when EXEC runs them, with effect and result
        ("EVAL-set-get", av(&["EVAL", "redis.call('SET', KEYS[1], ARGV[1]); return redis.call('GET', KEYS[1])", "1", "s", "from-script"])),
        ("EVAL-incr", av(&["EVAL", "return redis.call('INCR', KEYS[1])", "1", "n"])),
        ("PING-inside", av(&["PING"])),
        ("STUB-unknown-sub", av(&["CLIENT", "NOSUCHSUB"])),
        ("STUB-client-list", av(&["CLIENT", "LIST"])),
        ("STUB-config-set", av(&["CONFIG", "SET", "maxmemory", "0"])),
        // SET with every option family: a body made of SETs only is the shape a batching EXEC would look for
        ("SET-get", av(&["SET", "s", "with-get", "GET"])),
        ("SET-ex", av(&["SET", "s", "with-ex", "EX", "100000"])),
        ("SET-px-n", av(&["SET", "n", "with-px", "PX", "100000000"])),
        ("SET-keepttl", av(&["SET", "s", "kept", "KEEPTTL"])),
        ("SET-n-get", av(&["SET", "n", "n2", "GET"])),
        ("SET-nx-n", av(&["SET", "n", "only-if-absent", "NX"])),
        ("SET-xx-n", av(&["SET", "n", "only-if-present", "XX"])),
        ("SET-get-wrongtype", av(&["SET", "l", "v", "GET"])),
        // commands without a routing key: inside EXEC they still concern every shard
        ("DBSIZE", av(&["DBSIZE"])),
        ("KEYS-exact", av(&["KEYS", "h"])),
        ("FLUSHDB", av(&["FLUSHDB"])),
        ("EXISTS-many", av(&["EXISTS", "s", "l", "h", "z", "t", "n"])),
    ]
}

#[derive(Clone, Debug)]
struct Case {
    shards: usize,
    watch: Vec<&'static str>,
    body: Vec<usize>,
    discard: bool,
    bop: &'static str,
    bkey: &'static str,
    gap: usize,
    /// what the same connection did before this transaction: 0 nothing, 1 MULTI + rejected command + DISCARD,
    /// 2 MULTI + rejected command + EXEC (EXECABORT), 3 WATCH + UNWATCH, 4 MULTI + SET + DISCARD, 5 WATCH + MULTI + EXEC (empty body)
    prelude: u8,
    /// after the gap that follows WATCH, WATCH is sent again naming the watched keys (and one more): Redis keeps the first watch
    rewatch: bool,
    /// a terminator without a transaction between WATCH and MULTI (1 = EXEC, 2 = DISCARD): an error reply, and the watch stays
    stray: u8,
}

fn bop_cmds(kind: &str, key: &str) -> Vec<Argv> {
    // commands client B runs (to completion) in the chosen gap
    let same: Argv = match key {
        "s" => av(&["SET", "s", "10"]),
        "l" => av(&["LSET", "l", "0", "a"]),
        "h" => av(&["HSET", "h", "f", "1"]),
        "z" => av(&["ZADD", "z", "1", "m"]),
        "t" => av(&["SADD", "t", "m"]),
        _ => av(&["DEL", "n"]),
    };
    let change: Argv = match key {
        "s" => av(&["SET", "s", "11"]),
        "l" => av(&["RPUSH", "l", "zz"]),
        "h" => av(&["HSET", "h", "f", "changed"]),
        "z" => av(&["ZADD", "z", "5", "m"]),
        "t" => av(&["SADD", "t", "m2"]),
        _ => av(&["SET", "n", "appeared"]),
    };
    // changes that touch only one end of the value (a snapshot comparison that stops early, compares a
    // prefix or looks at the length only must still notice them)
    let grow_tail: Argv = match key {
        "s" => av(&["APPEND", "s", "x"]),
        "l" => av(&["RPUSH", "l", "zz"]),
        "h" => av(&["HSET", "h", "zzz", "9"]),
        "z" => av(&["ZADD", "z", "9", "zzz"]),
        "t" => av(&["SADD", "t", "zzz"]),
        _ => av(&["SET", "n", "appeared"]),
    };
    let grow_head: Argv = match key {
        "s" => av(&["SETRANGE", "s", "0", "9"]),
        "l" => av(&["LPUSH", "l", "0"]),
        "h" => av(&["HSET", "h", "a0", "9"]),
        "z" => av(&["ZADD", "z", "0", "a0"]),
        "t" => av(&["SADD", "t", "a0"]),
        _ => av(&["RPUSH", "n", "appeared"]),
    };
    let shrink: Vec<Argv> = match key {
        "l" => vec![av(&["RPOP", "l"])],
        "s" => vec![av(&["SET", "s", "1"])],
        "h" => vec![av(&["HSET", "h", "g", "2"]), av(&["HDEL", "h", "f"])],
        "z" => vec![av(&["ZADD", "z", "1", "m0"]), av(&["ZREM", "z", "m"])],
        "t" => vec![av(&["SADD", "t", "m0"]), av(&["SREM", "t", "m"])],
        _ => vec![],
    };
    match kind {
        "none" => vec![],
        "grow-tail" => vec![grow_tail],
        "grow-head" => vec![grow_head],
        "shrink-or-swap" => shrink,
        "same-length-swap" => match key {
            "l" => vec![av(&["LSET", "l", "1", "B"])],
            "h" => vec![av(&["HDEL", "h", "f"]), av(&["HSET", "h", "f2", "1"])],
            "z" => vec![av(&["ZREM", "z", "m"]), av(&["ZADD", "z", "1", "m9"])],
            "t" => vec![av(&["SREM", "t", "m"]), av(&["SADD", "t", "m9"])],
            "s" => vec![av(&["SET", "s", "01"])],
            _ => vec![],
        },
        "same-value" => vec![same],
        "change" => vec![change],
        "delete" => vec![av(&["DEL", key])],
        "type-change" => vec![av(&["DEL", key]), if key == "s" { av(&["RPUSH", key, "10"]) } else { av(&["SET", key, "10"]) }],
        "other-key" => vec![av(&["SET", "unrelated", "1"])],
        "change-and-revert" => vec![change, av(&["DEL", key])]
            .into_iter()
            .chain(match key {
                "s" => vec![av(&["SET", "s", "10"])],
                "l" => vec![av(&["RPUSH", "l", "a", "b"])],
                "h" => vec![av(&["HSET", "h", "f", "1"])],
                "z" => vec![av(&["ZADD", "z", "1", "m"])],
                "t" => vec![av(&["SADD", "t", "m"])],
                _ => vec![],
            })
            .collect(),
        _ => vec![],
    }
}

fn key_type(k: &str) -> &'static str {
    match k {
        "s" => "string",
        "l" => "list",
        "h" => "hash",
        "z" => "zset",
        "t" => "set",
        _ => "absent",
    }
}

fn case_json(c: &Case) -> Value {
    json!({"shards": c.shards, "watch": c.watch, "body": c.body, "discard": c.discard, "bop": c.bop, "bkey": c.bkey, "gap": c.gap, "prelude": c.prelude, "rewatch": c.rewatch, "stray": c.stray})
}

fn case_from(v: &Value) -> Case {
    let st = |s: &str| -> &'static str { Box::leak(s.to_string().into_boxed_str()) };
    Case {
        shards: v["shards"].as_u64().unwrap_or(1) as usize,
        watch: v["watch"].as_array().map(|a| a.iter().map(|x| st(x.as_str().unwrap())).collect()).unwrap_or_default(),
        body: v["body"].as_array().map(|a| a.iter().map(|x| x.as_u64().unwrap() as usize).collect()).unwrap_or_default(),
        discard: v["discard"].as_bool().unwrap_or(false),
        bop: st(v["bop"].as_str().unwrap_or("none")),
        bkey: st(v["bkey"].as_str().unwrap_or("s")),
        gap: v["gap"].as_u64().unwrap_or(0) as usize,
        prelude: v["prelude"].as_u64().unwrap_or(0) as u8,
        rewatch: v["rewatch"].as_bool().unwrap_or(false),
        stray: v["stray"].as_u64().unwrap_or(0) as u8,
    }
}

fn is_queued(t: &Tree) -> bool {
    matches!(t, Tree::Simple(s) if s == b"QUEUED")
}

async fn run_case(rep: &mut Report, c: &Case) {
    let pool = body_pool();
    let state = ShardedActorState::with_shards(c.shards);
    let twin = ShardedActorState::with_shards(c.shards);
    let a = Client::new(&state);
    let bcl = Client::new(&state);
    let t = Client::new(&twin);
    rep.evaluations += 1;
    let body_names: Vec<&str> = c.body.iter().map(|&i| pool[i].0).collect();
    let wtype: Vec<&str> = c.watch.iter().map(|k| key_type(k)).collect();
    let sig_tail = format!("watch={}|bop={}:{}|gap={}", if wtype.is_empty() { "-".to_string() } else { wtype.join("+") }, c.bop, key_type(c.bkey),
        if c.gap == 0 { "before-watch" } else if c.gap == 1 { "after-watch" } else if c.gap == 2 { "after-multi" } else { "in-body" });
    let wit = case_json(c);
    macro_rules! viol {
        ($kind:expr, $detail:expr) => {{
            rep.violation(format!("C05|{}|{}", $kind, sig_tail), $detail, wit.clone());
            a.done().await;
            bcl.done().await;
            t.done().await;
            return;
        }};
    }
    macro_rules! must {
        ($e:expr, $what:expr) => {
            match $e {
                Ok(v) => v,
                Err(e) => viol!(format!("no-single-reply:{}", $what), format!("{:?}", e)),
            }
        };
    }
    for p in preload() {
        let _ = must!(a.cmd(&p).await, "preload");
        let _ = t.cmd(&p).await;
    }
    // earlier activity of the same connection must leave no trace in the next transaction
    let prelude: Vec<Argv> = match c.prelude {
        1 => vec![av(&["MULTI"]), av(&["NOSUCHCOMMAND", "x"]), av(&["DISCARD"])],
        2 => vec![av(&["MULTI"]), av(&["GET"]), av(&["EXEC"])],
        3 => vec![av(&["WATCH", "s", "l"]), av(&["UNWATCH"])],
        4 => vec![av(&["MULTI"]), av(&["SET", "prelude-key", "never"]), av(&["DISCARD"])],
        5 => vec![av(&["WATCH", "h"]), av(&["MULTI"]), av(&["EXEC"])],
        _ => vec![],
    };
    for p in &prelude {
        let _ = must!(a.cmd(p).await, "prelude");
    }
    rep.count(&format!("prelude:{}", c.prelude));
    let bops = bop_cmds(c.bop, c.bkey);
    let mut step = 0usize;
    let mut b_done = false;
    // gap 0: before WATCH
    macro_rules! maybe_b {
        () => {
            if step == c.gap && !b_done {
                for op in &bops {
                    let _ = bcl.cmd(op).await;
                    let _ = t.cmd(op).await;
                }
                b_done = true;
            }
            step += 1;
        };
    }
    maybe_b!();
    let mut watch_snap: Vec<Vec<Tree>> = vec![];
    if !c.watch.is_empty() {
        let mut w = vec![b("WATCH")];
        w.extend(c.watch.iter().map(|k| b(k)));
        let r = must!(a.cmd(&w).await, "WATCH");
        if r != Tree::Simple(b("OK")) {
            viol!("watch-reply", format!("WATCH replied {:?}", r));
        }
        for k in &c.watch {
            watch_snap.push(snap_key(&bcl, k).await);
        }
    }
    if c.stray > 0 && !c.watch.is_empty() {
        let r = must!(a.cmd(&av(&[if c.stray == 1 { "EXEC" } else { "DISCARD" }])).await, "stray-terminator");
        if !matches!(r, Tree::Error(_)) {
            viol!("stray-terminator-not-an-error", format!("{} without MULTI replied {:?}", if c.stray == 1 { "EXEC" } else { "DISCARD" }, r));
        }
        rep.count("stray_terminator_cases");
    }
    maybe_b!(); // gap 1: after WATCH
    if c.rewatch && !c.watch.is_empty() {
        // watching a key again does not re-baseline it: the first WATCH still decides
        let mut w = vec![b("WATCH"), b("unrelated-watch")];
        w.extend(c.watch.iter().map(|k| b(k)));
        let r = must!(a.cmd(&w).await, "WATCH-again");
        if r != Tree::Simple(b("OK")) {
            viol!("watch-reply", format!("second WATCH replied {:?}", r));
        }
        rep.count("rewatch_cases");
    }
    let r = must!(a.cmd(&av(&["MULTI"])).await, "MULTI");
    if r != Tree::Simple(b("OK")) {
        viol!("multi-reply", format!("MULTI replied {:?}", r));
    }
    maybe_b!(); // gap 2: after MULTI
    let mut queued: Vec<Argv> = vec![];
    let mut abort_expected = false;
    for &bi in &c.body {
        let (name, cmd) = &pool[bi];
        let before = snapshot(&bcl).await;
        let r = must!(a.cmd(cmd).await, format!("queue:{}", name));
        let after = snapshot(&bcl).await;
        if before != after {
            viol!(format!("effect-before-exec|body={}", name), format!("keyspace changed when {} was queued: {:?} -> {:?}", name, before, after));
        }
        if is_queued(&r) {
            queued.push(cmd.clone());
        } else if myresp::is_error(&r) {
            // any command rejected while queueing (unknown, arity, unparsable argument) is a
            // queue-time error; nested MULTI / WATCH inside MULTI may or may not abort
            if !matches!(*name, "NESTED-MULTI" | "WATCH-INSIDE") {
                abort_expected = true;
            }
        } else {
            viol!(format!("result-before-exec|body={}", name), format!("{} inside MULTI replied {:?}", name, r));
        }
        rep.count(&format!("queued:{}", name));
        maybe_b!(); // gaps 3.. : after each body command
    }
    if !b_done {
        // gap beyond the body: run B right before EXEC
        for op in &bops {
            let _ = bcl.cmd(op).await;
            let _ = t.cmd(op).await;
        }
    }
    let mut changed = false;
    let mut changed_types: Vec<&str> = vec![];
    for (i, k) in c.watch.iter().enumerate() {
        if snap_key(&bcl, k).await != watch_snap[i] {
            changed = true;
            if !changed_types.contains(&key_type(k)) {
                changed_types.push(key_type(k));
            }
        }
    }
    changed_types.sort();
    let pre_exec = snapshot(&bcl).await;
    if c.discard {
        let r = must!(a.cmd(&av(&["DISCARD"])).await, "DISCARD");
        if r != Tree::Simple(b("OK")) {
            viol!("discard-reply", format!("DISCARD replied {:?}", r));
        }
        if snapshot(&bcl).await != pre_exec {
            viol!("discard-changed-keyspace", "keyspace differs after DISCARD".to_string());
        }
        rep.count("outcome:discard");
    } else {
        let r = must!(a.cmd(&av(&["EXEC"])).await, "EXEC");
        let post = snapshot(&bcl).await;
        match &r {
            Tree::Error(e) if e.starts_with(b"EXECABORT") => {
                rep.count("outcome:execabort");
                if !abort_expected && !body_names.iter().any(|n| matches!(*n, "NESTED-MULTI" | "WATCH-INSIDE")) {
                    viol!("spurious-execabort", format!("EXECABORT without a queue-time error; body {:?}", body_names));
                }
                if post != pre_exec {
                    viol!("execabort-changed-keyspace", "keyspace differs after EXECABORT".to_string());
                }
            }
            Tree::Arr(None) => {
                rep.count("outcome:nil");
                if abort_expected {
                    viol!("queue-error-not-execabort", format!("EXEC replied nil although a queue-time error occurred; body {:?}", body_names));
                }
                if !changed {
                    viol!("spurious-watch-abort", "EXEC = nil although no watched key's value differs from WATCH time".to_string());
                }
                if post != pre_exec {
                    viol!("failed-watch-changed-keyspace", "keyspace differs after EXEC returned nil".to_string());
                }
            }
            Tree::Arr(Some(results)) => {
                rep.count("outcome:applied");
                if abort_expected {
                    viol!("queue-error-not-execabort", format!("EXEC applied although a queue-time error occurred; body {:?}", body_names));
                }
                if changed {
                    rep.violation(
                        format!("C05|watch-missed-change|changed-key-type={}|bop={}", changed_types.join("+"), c.bop),
                        format!("EXEC applied although a watched key's value differs from WATCH time (watch {:?}, B ran {:?})", c.watch, bops.iter().map(show).collect::<Vec<_>>()),
                        wit.clone(),
                    );
                    a.done().await;
                    bcl.done().await;
                    t.done().await;
                    return;
                }
                // twin: the same queued commands, consecutively, outside a transaction
                let mut expect = vec![];
                for q in &queued {
                    expect.push(t.cmd(q).await.unwrap_or(Tree::Error(b("twin failed"))));
                }
                if results.len() != queued.len() {
                    viol!("exec-length", format!("{} queued, EXEC returned {} results", queued.len(), results.len()));
                }
                for (i, (g, e)) in results.iter().zip(expect.iter()).enumerate() {
                    if g != e {
                        let nm = String::from_utf8_lossy(&queued[i][0]).to_uppercase();
                        viol!(format!("exec-result-differs|cmd={}", nm), format!("queued #{} {:?}: EXEC gave {:?}, sequential run gives {:?}", i, show(&queued[i]), g, e));
                    }
                }
                let tpost = snapshot(&t).await;
                if post != tpost {
                    viol!("exec-keyspace-differs", format!("after EXEC {:?}; after sequential run {:?}", post, tpost));
                }
            }
            other => viol!("exec-reply-shape", format!("EXEC replied {:?}", other)),
        }
    }
    // the connection must be out of the transaction, watches cleared
    let r = must!(a.cmd(&av(&["EXEC"])).await, "EXEC-after");
    if !myresp::is_error(&r) {
        viol!("still-in-transaction", format!("EXEC after the transaction ended replied {:?}", r));
    }
    let _ = bcl.cmd(&av(&["SET", "s", "other-client-write"])).await;
    let _ = must!(a.cmd(&av(&["MULTI"])).await, "MULTI-2");
    let _ = must!(a.cmd(&av(&["PING"])).await, "PING-2");
    let r = must!(a.cmd(&av(&["EXEC"])).await, "EXEC-2");
    if !matches!(&r, Tree::Arr(Some(v)) if v.len() == 1) {
        viol!("watch-not-cleared", format!("second transaction without WATCH replied {:?}", r));
    }
    rep.distinct(&(c.watch.len(), wtype.join("+"), c.bop, key_type(c.bkey), c.gap.min(4), c.discard, body_names.len().min(4)));
    rep.distinct(&("body", body_names.join(",")));
    a.done().await;
    bcl.done().await;
    t.done().await;
}

pub fn txn_leg(args: &Args) {
    let mut rep = Report::new("C05", "txn");
    let rt = tokio::runtime::Builder::new_current_thread().enable_all().build().unwrap();
    if let Some(p) = &args.replay {
        let w: Value = serde_json::from_str(&std::fs::read_to_string(p).expect("replay")).expect("json");
        if w["witness"].get("pair").is_some() {
            rt.block_on(run_pair(&mut rep, &pair_from(&w["witness"])));
        } else {
            rt.block_on(run_case(&mut rep, &case_from(&w["witness"])));
        }
        rep.finish(args);
        return;
    }
    let mut rng = args.rng(50);
    let pool_len = body_pool().len();
    rt.block_on(async {
        // (1) the systematic matrix: watched key type x B-op kind x every gap, fixed small body
        let bops = ["none", "same-value", "change", "delete", "type-change", "other-key", "change-and-revert", "grow-tail", "grow-head", "shrink-or-swap", "same-length-swap"];
        let mut idx = 0usize;
        for wk in ["s", "l", "h", "z", "t", "n"] {
            for bop in bops {
                for gap in 0..=5 {
                    for discard in [false, true] {
                        idx += 1;
                        if idx % args.shards != args.shard {
                            continue;
                        }
                        let c = Case { shards: if idx % 2 == 0 { 1 } else { 4 }, watch: vec![wk], body: vec![1, 8], discard, bop, bkey: wk, gap, prelude: (idx % 12).saturating_sub(6) as u8, rewatch: idx % 5 == 0, stray: if idx % 7 == 3 { 1 + (idx % 2) as u8 } else { 0 } };
                        run_case(&mut rep, &c).await;
                        rep.count("matrix_cases");
                    }
                }
            }
        }
        // (2) random bodies / watch sets / B targets
        let n = args.get_u64("cases", if args.thorough() { 12000 } else { 1500 });
        for i in 0..n {
            let nb = rng.gen_range(0..7);
            let mut body: Vec<usize> = (0..nb).map(|_| rng.gen_range(0..pool_len)).collect();
            // every sixth body is homogeneous: 2-9 commands of one kind (all SETs with their options, all GETs, all INCRs ..)
            if i % 6 == 5 {
                let pool = body_pool();
                let head = pool[rng.gen_range(0..pool_len)].1[0].to_ascii_uppercase();
                let same: Vec<usize> = (0..pool_len).filter(|&j| pool[j].1[0].to_ascii_uppercase() == head && pool[j].1.len() > 1).collect();
                if !same.is_empty() {
                    body = (0..rng.gen_range(2..10)).map(|_| same[rng.gen_range(0..same.len())]).collect();
                    rep.count("homogeneous_bodies");
                }
            }
            let nb = body.len();
            let nw = rng.gen_range(0..3);
            let watch: Vec<&'static str> = (0..nw).map(|_| KEYS[rng.gen_range(0..KEYS.len())]).collect();
            let c = Case {
                shards: [1, 4][rng.gen_range(0..2)],
                watch,
                body,
                discard: rng.gen_bool(0.15),
                bop: bops[rng.gen_range(0..bops.len())],
                bkey: KEYS[rng.gen_range(0..KEYS.len())],
                gap: rng.gen_range(0..nb + 4),
                prelude: if rng.gen_bool(0.5) { 0 } else { rng.gen_range(1..6) },
                rewatch: rng.gen_bool(0.25),
                stray: if rng.gen_bool(0.15) { rng.gen_range(1..3) } else { 0 },
            };
            run_case(&mut rep, &c).await;
            if i < 3 {
                rep.sample(json!({"case": case_json(&c), "body": c.body.iter().map(|&i| show(&body_pool()[i].1)).collect::<Vec<_>>(), "b_ops": bop_cmds(c.bop, c.bkey).iter().map(show).collect::<Vec<_>>()}));
            }
        }
    });
    rep.finish(args);
}

// ---------------------------------------------------------------------------------------------
// Atomicity: A's EXEC and B's unit are delivered at the same instant; the observed results
// must equal one of the two serial orders (A;B) or (B;A), computed on twins.

#[derive(Clone, Debug)]
struct Pair {
    shards: usize,
    a_body: Vec<usize>,
    b_unit: Vec<usize>, // B runs these as its own MULTI/EXEC when len>1, else as a plain command
}

fn pair_pool() -> Vec<(&'static str, Argv)> {
    vec![
        ("INCR-s", av(&["INCR", "s"])),
        ("INCR-c", av(&["INCR", "c"])),
        ("APPEND-t", av(&["APPEND", "t", "x"])),
        ("GET-s", av(&["GET", "s"])),
        ("GET-c", av(&["GET", "c"])),
        ("RPUSH-l", av(&["RPUSH", "l", "x"])),
        ("LLEN-l", av(&["LLEN", "l"])),
        ("SET-s-0", av(&["SET", "s", "0"])),
        ("INCRBY-s-10", av(&["INCRBY", "s", "10"])),
        ("STRLEN-t", av(&["STRLEN", "t"])),
    ]
}

fn pair_json(p: &Pair) -> Value {
    json!({"pair": true, "shards": p.shards, "a_body": p.a_body, "b_unit": p.b_unit})
}
fn pair_from(v: &Value) -> Pair {
    let l = |k: &str| v[k].as_array().map(|a| a.iter().map(|x| x.as_u64().unwrap() as usize).collect()).unwrap_or_default();
    Pair { shards: v["shards"].as_u64().unwrap_or(1) as usize, a_body: l("a_body"), b_unit: l("b_unit") }
}

async fn serial(shards: usize, first: &[Argv], second: &[Argv]) -> (Vec<Tree>, Vec<Tree>) {
    let st = ShardedActorState::with_shards(shards);
    let c = Client::new(&st);
    for p in preload() {
        let _ = c.cmd(&p).await;
    }
    let mut r1 = vec![];
    for q in first {
        r1.push(c.cmd(q).await.unwrap_or(Tree::Error(b("twin failed"))));
    }
    let mut r2 = vec![];
    for q in second {
        r2.push(c.cmd(q).await.unwrap_or(Tree::Error(b("twin failed"))));
    }
    c.done().await;
    (r1, r2)
}

async fn run_pair(rep: &mut Report, p: &Pair) {
    let pool = pair_pool();
    let a_cmds: Vec<Argv> = p.a_body.iter().map(|&i| pool[i].1.clone()).collect();
    let b_cmds: Vec<Argv> = p.b_unit.iter().map(|&i| pool[i].1.clone()).collect();
    rep.evaluations += 1;
    let state = ShardedActorState::with_shards(p.shards);
    let a = Client::new(&state);
    let bc = Client::new(&state);
    for q in preload() {
        let _ = a.cmd(&q).await;
    }
    let _ = a.cmd(&av(&["MULTI"])).await;
    for q in &a_cmds {
        let _ = a.cmd(q).await;
    }
    let b_txn = b_cmds.len() > 1;
    if b_txn {
        let _ = bc.cmd(&av(&["MULTI"])).await;
        for q in &b_cmds {
            let _ = bc.cmd(q).await;
        }
    }
    // deliver both at the same instant, then let the runtime interleave the two handlers
    a.ctl.send(&myresp::frame(&[b"EXEC"]));
    if b_txn {
        bc.ctl.send(&myresp::frame(&[b"EXEC"]));
    } else {
        bc.ctl.send(&myresp::frame_v(&b_cmds[0]));
    }
    let _ = a.ctl.wait_idle(conn::STEP_BUDGET).await;
    let _ = bc.ctl.wait_idle(conn::STEP_BUDGET).await;
    let ra = myresp::decode_all(&a.ctl.take_output()).unwrap_or_default();
    let rb = myresp::decode_all(&bc.ctl.take_output()).unwrap_or_default();
    let got_a: Vec<Tree> = match ra.first() {
        Some(Tree::Arr(Some(v))) => v.clone(),
        _ => vec![],
    };
    let got_b: Vec<Tree> = if b_txn {
        match rb.first() {
            Some(Tree::Arr(Some(v))) => v.clone(),
            _ => vec![],
        }
    } else {
        rb.clone()
    };
    let (ab_a, ab_b) = serial(p.shards, &a_cmds, &b_cmds).await;
    let (ba_b, ba_a) = serial(p.shards, &b_cmds, &a_cmds).await;
    let ok = (got_a == ab_a && got_b == ab_b) || (got_a == ba_a && got_b == ba_b);
    let names_a: Vec<&str> = p.a_body.iter().map(|&i| pool[i].0).collect();
    let names_b: Vec<&str> = p.b_unit.iter().map(|&i| pool[i].0).collect();
    rep.distinct(&(names_a.clone(), names_b.clone(), p.shards));
    if got_a != ab_a || got_b != ab_b {
        rep.count("pairs_where_order_B_first_or_interleaved");
    }
    if !ok {
        // class: do the two units touch a common key?  is B a transaction?
        let keys = |cmds: &[Argv]| cmds.iter().map(|c| c[1].clone()).collect::<std::collections::BTreeSet<_>>();
        let common = keys(&a_cmds).intersection(&keys(&b_cmds)).count() > 0;
        rep.violation(
            format!("C05|exec-not-atomic|other-client={}|common-key={}|shards={}", if b_txn { "transaction" } else { "single-command" }, common, if p.shards == 1 { "1" } else { "N" }),
            format!("A EXEC {:?} -> {:?}; B {:?} -> {:?}; serial A;B = {:?}/{:?}; serial B;A = {:?}/{:?}", names_a, got_a, names_b, got_b, ab_a, ab_b, ba_a, ba_b),
            pair_json(p),
        );
    }
    a.done().await;
    bc.done().await;
}

pub fn atomic_leg(args: &Args) {
    let mut rep = Report::new("C05", "atomic");
    let rt = tokio::runtime::Builder::new_current_thread().enable_all().build().unwrap();
    if let Some(p) = &args.replay {
        let w: Value = serde_json::from_str(&std::fs::read_to_string(p).expect("replay")).expect("json");
        rt.block_on(run_pair(&mut rep, &pair_from(&w["witness"])));
        rep.finish(args);
        return;
    }
    let mut rng = args.rng(51);
    let n = args.get_u64("pairs", if args.thorough() { 30000 } else { 3000 });
    let pl = pair_pool().len();
    rt.block_on(async {
        for i in 0..n {
            let p = Pair {
                shards: [1, 4][rng.gen_range(0..2)],
                a_body: (0..rng.gen_range(1..5)).map(|_| rng.gen_range(0..pl)).collect(),
                b_unit: (0..rng.gen_range(1..4)).map(|_| rng.gen_range(0..pl)).collect(),
            };
            run_pair(&mut rep, &p).await;
            if i < 3 {
                rep.sample(pair_json(&p));
            }
        }
    });
    rep.note("both units are delivered at the same instant on a current-thread runtime; the interleaving is whatever the production handlers and shard actors produce");
    rep.finish(args);
}

// ---------------------------------------------------------------------------------------------
// Executor-level transactions (the simulation path: CommandExecutor::execute with MULTI/EXEC).

fn ex_dump(ex: &redis_sim::redis::CommandExecutor) -> Vec<(String, String)> {
    let mut v: Vec<(String, String)> = ex.get_data().iter().map(|(k, val)| (k.clone(), format!("{:?}", val))).collect();
    v.sort();
    v
}

fn ex_run(ex: &mut redis_sim::redis::CommandExecutor, a: &Argv) -> Result<Tree, String> {
    let cmd = crate::c01::parse_argv(a)?;
    guard(|| myresp::from_resp(&ex.execute(&cmd)))
}

pub fn exec_leg(args: &Args) {
    use redis_sim::redis::CommandExecutor;
    let mut rep = Report::new("C05", "executor");
    let mut rng = args.rng(52);
    let mut pool = body_pool();
    pool.push(("UNWATCH", av(&["UNWATCH"])));
    pool.push(("PING", av(&["PING"])));
    pool.push(("DBSIZE", av(&["DBSIZE"])));
    pool.push(("TYPE", av(&["TYPE", "l"])));
    let n = args.get_u64("cases", if args.thorough() { 40_000 } else { 4_000 });
    let replay: Option<Value> = args.replay.as_ref().map(|p| serde_json::from_str(&std::fs::read_to_string(p).expect("replay")).expect("json"));
    for case in 0..(if replay.is_some() { 1 } else { n }) {
        let (watch, bkind, bkey, body, discard): (Vec<&'static str>, &'static str, &'static str, Vec<usize>, bool) = if let Some(w) = &replay {
            let c = case_from(&w["witness"]);
            (c.watch, c.bop, c.bkey, c.body, c.discard)
        } else {
            let bops = ["none", "same-value", "change", "delete", "type-change", "other-key", "change-and-revert", "grow-tail", "grow-head", "shrink-or-swap", "same-length-swap"];
            (
                (0..rng.gen_range(0..3)).map(|_| KEYS[rng.gen_range(0..KEYS.len())]).collect(),
                bops[rng.gen_range(0..bops.len())],
                KEYS[rng.gen_range(0..KEYS.len())],
                (0..rng.gen_range(0..7)).map(|_| rng.gen_range(0..pool.len())).collect(),
                rng.gen_bool(0.15),
            )
        };
        rep.evaluations += 1;
        let mut ex = CommandExecutor::new();
        let mut twin = CommandExecutor::new();
        for p in preload() {
            let _ = ex_run(&mut ex, &p);
            let _ = ex_run(&mut twin, &p);
        }
        let names: Vec<&str> = body.iter().map(|&i| pool[i].0).collect();
        let wit = json!({"shards": 1, "watch": watch, "body": body, "discard": discard, "bop": bkind, "bkey": bkey, "gap": 1, "executor": true});
        let tail = format!("watch={}|bop={}:{}", if watch.is_empty() { "-".to_string() } else { watch.iter().map(|k| key_type(k)).collect::<Vec<_>>().join("+") }, bkind, key_type(bkey));
        macro_rules! viol {
            ($k:expr, $d:expr) => {{
                rep.violation(format!("C05|executor|{}|{}", $k, tail), $d, wit.clone());
                continue;
            }};
        }
        let mut watched_before = vec![];
        if !watch.is_empty() {
            let mut w = vec![b("WATCH")];
            w.extend(watch.iter().map(|k| b(k)));
            let _ = ex_run(&mut ex, &w);
            watched_before = watch.iter().map(|k| ex.get_data().get(*k).map(|v| format!("{:?}", v))).collect();
        }
        // the other client writes between WATCH and MULTI
        for op in bop_cmds(bkind, bkey) {
            let _ = ex_run(&mut ex, &op);
            let _ = ex_run(&mut twin, &op);
        }
        let changed = watch.iter().zip(watched_before.iter()).any(|(k, before)| &ex.get_data().get(*k).map(|v| format!("{:?}", v)) != before);
        match ex_run(&mut ex, &av(&["MULTI"])) {
            Ok(Tree::Simple(s)) if s == b"OK" => {}
            other => viol!("multi-reply", format!("{:?}", other)),
        }
        let mut queued: Vec<Argv> = vec![];
        let mut bad = None;
        let mut unwatch_queued = false;
        for &bi in &body {
            let (name, cmd) = &pool[bi];
            let before = ex_dump(&ex);
            let r = match ex_run(&mut ex, cmd) {
                Ok(r) => r,
                Err(_) => continue, // the frame does not parse: nothing reached the executor
            };
            if ex_dump(&ex) != before {
                bad = Some((format!("effect-before-exec|body={}", name), format!("{} changed the keyspace when queued", name)));
                break;
            }
            if is_queued(&r) {
                queued.push(cmd.clone());
                if *name == "UNWATCH" {
                    unwatch_queued = true;
                }
            } else if !myresp::is_error(&r) {
                bad = Some((format!("result-before-exec|body={}", name), format!("{} inside MULTI replied {:?} instead of QUEUED", name, r)));
                break;
            }
            rep.count(&format!("queued:{}", name));
        }
        if let Some((k, d)) = bad {
            viol!(k, d);
        }
        let pre = ex_dump(&ex);
        if discard {
            let r = ex_run(&mut ex, &av(&["DISCARD"]));
            if !matches!(&r, Ok(Tree::Simple(s)) if s == b"OK") || ex_dump(&ex) != pre {
                viol!("discard", format!("DISCARD replied {:?}; keyspace changed: {}", r, ex_dump(&ex) != pre));
            }
        } else {
            let r = match ex_run(&mut ex, &av(&["EXEC"])) {
                Ok(r) => r,
                Err(p) => viol!("exec-panic", p),
            };
            match &r {
                Tree::Bulk(None) | Tree::Arr(None) => {
                    rep.count("outcome:nil");
                    if !changed {
                        viol!("spurious-watch-abort", "EXEC = nil although no watched key changed".to_string());
                    }
                    if ex_dump(&ex) != pre {
                        viol!("failed-watch-changed-keyspace", "keyspace differs after nil EXEC".to_string());
                    }
                }
                Tree::Arr(Some(results)) => {
                    rep.count("outcome:applied");
                    if changed {
                        viol!("watch-missed-change", format!("EXEC applied although a watched key changed (body {:?})", names));
                    }
                    if results.len() != queued.len() {
                        viol!("exec-length", format!("{} queued, {} results", queued.len(), results.len()));
                    }
                    let expect: Vec<Tree> = queued.iter().map(|q| ex_run(&mut twin, q).unwrap_or(Tree::Error(b("twin")))).collect();
                    if let Some(i) = (0..expect.len()).find(|&i| expect[i] != results[i]) {
                        viol!(format!("exec-result-differs|cmd={}", String::from_utf8_lossy(&queued[i][0]).to_uppercase()), format!("queued #{}: EXEC {:?}, sequential {:?}", i, results[i], expect[i]));
                    }
                    // two executors iterate their hash maps differently: compare through the protocol
                    let sa = crate::c01::snapshot_with(|q| ex_run(&mut ex, q));
                    let sb = crate::c01::snapshot_with(|q| ex_run(&mut twin, q));
                    if sa != sb {
                        viol!("exec-keyspace-differs", format!("keyspace after EXEC {:?} differs from the sequential run {:?}", sa, sb));
                    }
                }
                other => viol!("exec-reply-shape", format!("{:?}", other)),
            }
        }
        let _ = unwatch_queued;
        match ex_run(&mut ex, &av(&["EXEC"])) {
            Ok(t) if myresp::is_error(&t) => {}
            other => viol!("still-in-transaction", format!("EXEC after the end replied {:?}", other)),
        }
        rep.distinct(&(names.join(","), watch.len(), bkind, discard));
        if case < 3 {
            rep.sample(wit);
        }
    }
    rep.finish(args);
}
