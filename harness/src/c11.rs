//! C11 — recovery returns exactly the merge of everything persisted, idempotently (`c11-recover`)
//! C08 — a node's stamps only grow, also across restart (`c08-stamps`)
//!
//! Both legs drive the real persistence / recovery code (`RecoveryManager`, `StreamingIntegration::recover`,
//! `WalRotator`, `ReplicatedShardedState::{execute, apply_remote_deltas, apply_recovered_state, snapshot_state}`)
//! over instrumented stores implemented here on the repo's public `ObjectStore` / `WalStore` traits:
//! every I/O call goes into one append-only event log with a global call index, a fault plan can fail or tear
//! any call, and the crash image after any number of calls can be rebuilt from the log (WAL files cut at their
//! last successful sync). Recovery always reads from the crash image of what the harness wrote.
//!
//! Additional dimensions (each with its own counters and `inconclusive` guards):
//! * C11 read faults: the k-th object `get` of a recovery (every k of the fault-free run, in turn) fails once with
//!   an I/O error, or returns the object truncated / with one bit flipped once. Oracle: `Err`, or `Ok` with exactly
//!   the merge of everything persisted.
//! * C11 large WAL entries: one WAL-only update whose serialized delta is larger than 1 MiB, followed by more
//!   entries in the same WAL file.
//! * C08 FLUSHALL / FLUSHDB between writes of one key (the per-key and per-shard maxima survive the flush), keys that
//!   change type (string <-> hash, HINCRBY), a per-shard "stamps never repeat" monitor, and restarts from a
//!   checkpoint in which a hash holds the highest stamp of its shard.
use crate::common::*;
use rand::seq::SliceRandom;
use rand::Rng as _;
use redis_sim::production::ReplicatedShardedState;
use redis_sim::redis::{Command, RespValue, SDS};
use redis_sim::replication::{ConsistencyLevel, CrdtValue, LwwRegister, ReplicaId, ReplicatedValue, ReplicationConfig, ReplicationDelta, ShardReplicaState};
use redis_sim::streaming::{
    delta_sink_channel, CheckpointInfo, CheckpointWriter, Compression, InMemoryObjectStore, InMemoryWalStore, ListResult, Manifest, ManifestManager,
    ObjectMeta, ObjectStore, RecoveredState, RecoveryManager, SegmentInfo, SegmentWriter, StreamingConfig, StreamingIntegration, WalEntry, WalError,
    WalFileReader, WalFileWriter, WalRotator, WalStore,
};
use serde::{Deserialize, Serialize};
use serde_json::{json, Value};
use std::collections::{BTreeMap, BTreeSet, HashMap};
use std::future::Future;
use std::hash::{Hash, Hasher};
use std::io::{Error as IoError, ErrorKind, Result as IoResult};
use std::pin::Pin;
use std::sync::{Arc, Mutex};

const PREFIX: &str = "p";
const NODE: u64 = 1;

// ---------------------------------------------------------------- instrumented stores

#[derive(Clone, Debug, PartialEq)]
enum Fault {
    Fail,        // the call returns an error and has no effect
    Torn(usize), // a put / append takes effect for the first n bytes only, then returns an error
    Short(usize), // a get returns only the first n bytes of the object (once; the object itself is intact)
    Flip(usize),  // a get returns the object with bit n (mod its length) flipped (once; the object itself is intact)
}

#[derive(Clone, Debug)]
struct Ev {
    store: &'static str,
    op: &'static str,
    key: String,
    to: String,
    data: Vec<u8>,
    fault: Option<Fault>,
}

/// Contents of both stores: objects, and WAL files as (bytes, length covered by the last successful sync).
#[derive(Clone, Default, Debug, PartialEq)]
struct St {
    objects: BTreeMap<String, Vec<u8>>,
    files: BTreeMap<String, (Vec<u8>, usize)>,
}

impl St {
    fn apply(&mut self, e: &Ev) {
        let data = match (&e.fault, e.op) {
            (None, _) => &e.data[..],
            (Some(Fault::Torn(n)), "put" | "append") => &e.data[..(*n).min(e.data.len())],
            _ => return,
        };
        match (e.store, e.op) {
            ("obj", "put") => drop(self.objects.insert(e.key.clone(), data.to_vec())),
            ("obj", "delete") => drop(self.objects.remove(&e.key)),
            ("obj", "rename") => {
                if let Some(o) = self.objects.remove(&e.key) {
                    self.objects.insert(e.to.clone(), o);
                }
            }
            ("wal", "create") => drop(self.files.insert(e.key.clone(), (vec![], 0))),
            ("wal", "append") => {
                if let Some(f) = self.files.get_mut(&e.key) {
                    f.0.extend_from_slice(data);
                }
            }
            ("wal", "sync") => {
                if let Some(f) = self.files.get_mut(&e.key) {
                    f.1 = f.0.len();
                }
            }
            ("wal", "delete") => drop(self.files.remove(&e.key)),
            _ => {}
        }
    }
    /// What a crash leaves: un-synced WAL tails are gone, objects stay as they are.
    fn crashed(mut self) -> St {
        for f in self.files.values_mut() {
            f.0.truncate(f.1);
        }
        self
    }
}

#[derive(Default)]
struct IoInner {
    log: Vec<Ev>,
    plan: BTreeMap<usize, Fault>,
    get_plan: BTreeMap<usize, Fault>, // keyed by the ordinal of the object `get` (0 = first get of this Io)
    gets: usize,
    st: St,
}

/// Shared by the object store and the WAL store: one global call counter, one event log, one fault plan.
#[derive(Clone, Default)]
struct Io(Arc<Mutex<IoInner>>);

impl Io {
    fn from_image(st: St) -> Io {
        Io(Arc::new(Mutex::new(IoInner { st, ..IoInner::default() })))
    }
    fn plan(&self, at: usize, f: Fault) {
        self.0.lock().unwrap().plan.insert(at, f);
    }
    /// Fault for the k-th object `get` issued through this Io (counted from 0).
    fn plan_get(&self, k: usize, f: Fault) {
        self.0.lock().unwrap().get_plan.insert(k, f);
    }
    fn calls(&self) -> usize {
        self.0.lock().unwrap().log.len()
    }
    /// (key, fault) of every object `get` so far, in call order.
    fn gets(&self) -> Vec<(String, Option<Fault>)> {
        self.0.lock().unwrap().log.iter().filter(|e| e.store == "obj" && e.op == "get").map(|e| (e.key.clone(), e.fault.clone())).collect()
    }
    /// One I/O call: logged under the next call index, applied (whole, torn or not at all), fault returned.
    fn call(&self, store: &'static str, op: &'static str, key: &str, to: &str, data: &[u8]) -> Result<(), Fault> {
        let mut g = self.0.lock().unwrap();
        let mut fault = g.plan.get(&g.log.len()).cloned();
        if store == "obj" && op == "get" {
            let k = g.gets;
            g.gets += 1;
            fault = fault.or_else(|| g.get_plan.get(&k).cloned());
        }
        let ev = Ev { store, op, key: key.into(), to: to.into(), data: data.to_vec(), fault: fault.clone() };
        g.st.apply(&ev);
        g.log.push(ev);
        fault.map_or(Ok(()), Err)
    }
    fn read<T>(&self, f: impl FnOnce(&St) -> T) -> T {
        f(&self.0.lock().unwrap().st)
    }
    /// Crash image after the first `j` calls.
    fn image(&self, j: usize) -> St {
        let g = self.0.lock().unwrap();
        let mut st = St::default();
        g.log.iter().take(j).for_each(|e| st.apply(e));
        st.crashed()
    }
    /// Crash images with call `j` (an object `put`) in flight: the object holds a strict prefix of the data.
    fn torn_variants(&self, j: usize) -> Vec<St> {
        let ev = self.0.lock().unwrap().log.get(j).cloned();
        match ev {
            Some(e) if e.store == "obj" && e.op == "put" && e.fault.is_none() => [0, 1, e.data.len() / 2, e.data.len().saturating_sub(1)]
                .iter()
                .filter(|&&n| n < e.data.len())
                .map(|&n| {
                    let mut st = self.image(j);
                    st.apply(&Ev { fault: Some(Fault::Torn(n)), ..e.clone() });
                    st
                })
                .collect(),
            _ => vec![],
        }
    }
}

fn io_err(call: Result<(), Fault>) -> IoResult<()> {
    call.map_err(|f| IoError::new(ErrorKind::Other, format!("injected fault {:?}", f)))
}

type Fut<'a, T> = Pin<Box<dyn Future<Output = IoResult<T>> + Send + 'a>>;

fn ready<'a, T: Send + 'a>(v: IoResult<T>) -> Fut<'a, T> {
    Box::pin(std::future::ready(v))
}

fn not_found(key: &str) -> IoError {
    IoError::new(ErrorKind::NotFound, format!("Key not found: {}", key))
}

#[derive(Clone)]
struct PlanObjectStore(Io);

impl ObjectStore for PlanObjectStore {
    fn put<'a>(&'a self, key: &'a str, data: &'a [u8]) -> Fut<'a, ()> {
        ready(io_err(self.0.call("obj", "put", key, "", data)))
    }
    fn get<'a>(&'a self, key: &'a str) -> Fut<'a, Vec<u8>> {
        let called = self.0.call("obj", "get", key, "", &[]);
        let data = || self.0.read(|s| s.objects.get(key).cloned()).ok_or_else(|| not_found(key));
        ready(match called {
            Err(Fault::Short(n)) => data().map(|d| d[..n.min(d.len())].to_vec()),
            Err(Fault::Flip(bit)) => data().map(|mut d| {
                if !d.is_empty() {
                    let b = bit % (d.len() * 8);
                    d[b / 8] ^= 1 << (b % 8);
                }
                d
            }),
            other => io_err(other).and_then(|_| data()),
        })
    }
    fn exists<'a>(&'a self, key: &'a str) -> Fut<'a, bool> {
        ready(io_err(self.0.call("obj", "exists", key, "", &[])).map(|_| self.0.read(|s| s.objects.contains_key(key))))
    }
    fn delete<'a>(&'a self, key: &'a str) -> Fut<'a, ()> {
        ready(io_err(self.0.call("obj", "delete", key, "", &[])))
    }
    fn list<'a>(&'a self, prefix: &'a str, _token: Option<&'a str>) -> Fut<'a, ListResult> {
        ready(io_err(self.0.call("obj", "list", prefix, "", &[])).map(|_| {
            let objects = self.0.read(|s| {
                s.objects.iter().filter(|(k, _)| k.starts_with(prefix)).map(|(k, v)| ObjectMeta { key: k.clone(), size_bytes: v.len() as u64, created_at_ms: 0, etag: None }).collect()
            });
            ListResult { objects, continuation_token: None }
        }))
    }
    fn rename<'a>(&'a self, from: &'a str, to: &'a str) -> Fut<'a, ()> {
        let had = self.0.read(|s| s.objects.contains_key(from));
        ready(io_err(self.0.call("obj", "rename", from, to, &[])).and_then(|_| if had { Ok(()) } else { Err(not_found(from)) }))
    }
    fn head<'a>(&'a self, key: &'a str) -> Fut<'a, ObjectMeta> {
        ready(io_err(self.0.call("obj", "head", key, "", &[])).and_then(|_| {
            self.0.read(|s| s.objects.get(key).map(|v| ObjectMeta { key: key.into(), size_bytes: v.len() as u64, created_at_ms: 0, etag: None })).ok_or_else(|| not_found(key))
        }))
    }
}

#[derive(Clone)]
struct PlanWalStore(Io);
struct PlanWalWriter {
    io: Io,
    name: String,
    size: u64,
}
struct PlanWalReader(Vec<u8>);

fn wal_err(call: Result<(), Fault>, len: usize) -> Result<(), WalError> {
    call.map_err(|f| match f {
        Fault::Torn(n) => WalError::PartialWrite { expected: len, actual: n.min(len) },
        _ => WalError::Io(IoError::new(ErrorKind::Other, "injected fault")),
    })
}

impl WalFileWriter for PlanWalWriter {
    fn append(&mut self, data: &[u8]) -> Result<u64, WalError> {
        let r = wal_err(self.io.call("wal", "append", &self.name, "", data), data.len());
        self.size = self.io.read(|s| s.files.get(&self.name).map_or(0, |f| f.0.len() as u64));
        r.map(|_| self.size)
    }
    fn sync(&mut self) -> Result<(), WalError> {
        self.io.call("wal", "sync", &self.name, "", &[]).map_err(|_| WalError::FsyncFailed("injected fault".into()))
    }
    fn size(&self) -> u64 {
        self.size
    }
}

impl WalFileReader for PlanWalReader {
    fn read_all(&mut self) -> Result<Vec<u8>, WalError> {
        Ok(self.0.clone())
    }
}

impl WalStore for PlanWalStore {
    type Writer = PlanWalWriter;
    type Reader = PlanWalReader;
    fn create(&self, name: &str) -> Result<PlanWalWriter, WalError> {
        wal_err(self.0.call("wal", "create", name, "", &[]), 0)?;
        Ok(PlanWalWriter { io: self.0.clone(), name: name.into(), size: 0 })
    }
    fn open_read(&self, name: &str) -> Result<PlanWalReader, WalError> {
        wal_err(self.0.call("wal", "open_read", name, "", &[]), 0)?;
        self.0.read(|s| s.files.get(name).map(|f| PlanWalReader(f.0.clone()))).ok_or_else(|| WalError::NotFound(name.into()))
    }
    fn list(&self) -> Result<Vec<String>, WalError> {
        wal_err(self.0.call("wal", "list", "", "", &[]), 0)?;
        Ok(self.0.read(|s| s.files.keys().cloned().collect()))
    }
    fn delete(&self, name: &str) -> Result<(), WalError> {
        wal_err(self.0.call("wal", "delete", name, "", &[]), 0)
    }
    fn exists(&self, name: &str) -> Result<bool, WalError> {
        wal_err(self.0.call("wal", "exists", name, "", &[]), 0)?;
        Ok(self.0.read(|s| s.files.contains_key(name)))
    }
}

// ---------------------------------------------------------------- validation of the stores against the repo's in-memory ones

fn blob(rng: &mut Rng) -> Vec<u8> {
    let n = rng.gen_range(1..24);
    (0..n).map(|_| rng.gen()).collect()
}

/// One random fault-free op sequence on both object stores; every result must agree.
async fn validate_obj(rng: &mut Rng) -> Result<u64, String> {
    let (io, theirs) = (Io::default(), InMemoryObjectStore::new());
    let mine = PlanObjectStore(io.clone());
    let keys = ["p/a", "p/b", "q/c", "q/d"];
    let kind = |r: &IoResult<Vec<u8>>| r.as_ref().map(|v| v.clone()).map_err(|e| e.kind());
    let n = rng.gen_range(5..40);
    for step in 0..n {
        let (k, k2) = (keys[rng.gen_range(0..4)], keys[rng.gen_range(0..4)]);
        let same = match rng.gen_range(0..7) {
            0 | 1 => {
                let d = blob(rng);
                mine.put(k, &d).await.is_ok() == theirs.put(k, &d).await.is_ok()
            }
            2 => kind(&mine.get(k).await) == kind(&theirs.get(k).await),
            3 => mine.exists(k).await.ok() == theirs.exists(k).await.ok() && mine.head(k).await.ok().map(|m| m.size_bytes) == theirs.head(k).await.ok().map(|m| m.size_bytes),
            4 => mine.delete(k).await.is_ok() == theirs.delete(k).await.is_ok(),
            5 => {
                let l = |r: ListResult| r.objects.into_iter().map(|m| (m.key, m.size_bytes)).collect::<Vec<_>>();
                let p = ["p/", "q", ""][rng.gen_range(0..3)];
                mine.list(p, None).await.ok().map(l) == theirs.list(p, None).await.ok().map(l)
            }
            _ => mine.rename(k, k2).await.map_err(|e| e.kind()) == theirs.rename(k, k2).await.map_err(|e| e.kind()),
        };
        if !same {
            return Err(format!("object store op {} of {} differs from InMemoryObjectStore", step, n));
        }
    }
    for k in keys {
        if kind(&mine.get(k).await) != kind(&theirs.get(k).await) {
            return Err(format!("final content of {} differs", k));
        }
    }
    // images: the image after all calls is the live state; torn variants hold strict prefixes
    if io.image(io.calls()).objects != io.read(|s| s.objects.clone()) {
        return Err("image(all calls) differs from the live objects".into());
    }
    Ok(n)
}

/// One random fault-free WAL op sequence on both stores ending in a crash: results, then crash images must agree.
fn validate_wal(rng: &mut Rng) -> Result<u64, String> {
    let (io, theirs) = (Io::default(), InMemoryWalStore::new());
    let mine = PlanWalStore(io.clone());
    let names = ["wal-00000001.wal", "wal-00000002.wal", "x.tmp"];
    let mut writers: BTreeMap<&str, (PlanWalWriter, <InMemoryWalStore as WalStore>::Writer)> = BTreeMap::new();
    let n = rng.gen_range(3..40);
    for step in 0..n {
        let name = names[rng.gen_range(0..3)];
        let same = match rng.gen_range(0..9) {
            0 => {
                writers.remove(name);
                match (mine.create(name), theirs.create(name)) {
                    (Ok(a), Ok(b)) => writers.insert(name, (a, b)).is_none(),
                    _ => false,
                }
            }
            1..=3 => writers.get_mut(name).map_or(true, |(a, b)| {
                let d = blob(rng);
                a.append(&d).ok() == b.append(&d).ok() && a.size() == b.size()
            }),
            4 => writers.get_mut(name).map_or(true, |(a, b)| a.sync().is_ok() == b.sync().is_ok()),
            5 => mine.open_read(name).and_then(|mut r| r.read_all()).ok() == theirs.open_read(name).and_then(|mut r| r.read_all()).ok(),
            6 => mine.list().ok() == theirs.list().ok(),
            7 => mine.exists(name).ok() == theirs.exists(name).ok(),
            _ => {
                writers.remove(name); // the repo's writer panics when appending to a deleted file
                mine.delete(name).is_ok() == theirs.delete(name).is_ok()
            }
        };
        if !same {
            return Err(format!("WAL store op {} of {} differs from InMemoryWalStore", step, n));
        }
    }
    theirs.simulate_crash();
    let img = io.image(io.calls());
    let their_names = theirs.list().map_err(|e| e.to_string())?;
    if their_names != img.files.keys().cloned().collect::<Vec<_>>() || their_names.iter().any(|f| theirs.get_file_data(f).as_ref() != img.files.get(f).map(|x| &x.0)) {
        return Err("crash image differs from InMemoryWalStore::simulate_crash".into());
    }
    Ok(n)
}

/// Fault plan semantics: a failed call changes nothing, a torn put / append leaves exactly the prefix.
async fn validate_faults(rng: &mut Rng) -> Result<u64, String> {
    let io = Io::default();
    let (obj, wal) = (PlanObjectStore(io.clone()), PlanWalStore(io.clone()));
    let d = blob(rng);
    obj.put("k", &d).await.map_err(|e| e.to_string())?;
    let mut w = wal.create("f").map_err(|e| e.to_string())?;
    w.append(&d).map_err(|e| e.to_string())?;
    w.sync().map_err(|e| e.to_string())?;
    let at = io.calls();
    let synced = io.read(|s| s.clone());
    let cut = rng.gen_range(0..d.len());
    let mut checks = 0;
    for f in [Fault::Fail, Fault::Torn(cut)] {
        for op in ["put", "append", "sync", "get"] {
            let prev = io.read(|s| s.clone());
            io.plan(io.calls(), f.clone());
            let failed = match op {
                "put" => obj.put("k2", &d).await.is_err(),
                "append" => w.append(&d).is_err(),
                "sync" => w.sync().is_err(),
                _ => obj.get("k").await.is_err(),
            };
            let mut want = prev.clone();
            if f != Fault::Fail && op == "put" {
                want.objects.insert("k2".into(), d[..cut].to_vec());
            }
            if f != Fault::Fail && op == "append" {
                want.files.get_mut("f").unwrap().0.extend_from_slice(&d[..cut]);
            }
            if !failed || io.read(|s| s.clone()) != want {
                return Err(format!("fault {:?} on {} misbehaves", f, op));
            }
            checks += 1;
        }
    }
    let tv = io.torn_variants(0);
    if io.image(at) != synced || io.image(io.calls()).files["f"].0 != d || tv.is_empty() || tv.iter().any(|v| v.objects["k"].len() >= d.len()) {
        return Err("crash images / torn variants are wrong".into());
    }
    // read faults: a short / flipped get hands out damaged bytes exactly once and leaves the object alone
    // (no draw from `rng` here: the case streams of both legs must not move)
    let k = io.gets().len();
    io.plan_get(k, Fault::Short(cut));
    io.plan_get(k + 2, Fault::Flip((cut * 7 + 3) % (d.len() * 8)));
    let before = io.read(|s| s.clone());
    let (short, clean, flipped, clean2) = (obj.get("k").await.ok(), obj.get("k").await.ok(), obj.get("k").await.ok(), obj.get("k").await.ok());
    let one_bit = |a: &[u8]| a.len() == d.len() && a.iter().zip(&d).map(|(x, y)| (x ^ y).count_ones()).sum::<u32>() == 1;
    if short != Some(d[..cut].to_vec()) || clean.as_ref() != Some(&d) || !flipped.map_or(false, |f| one_bit(&f)) || clean2.as_ref() != Some(&d) || io.read(|s| s.clone()) != before {
        return Err("short / flipped reads misbehave".into());
    }
    let marks: Vec<bool> = io.gets()[k..].iter().map(|g| g.1.is_some()).collect();
    if marks != [true, false, true, false] {
        return Err("the get plan does not hit exactly the planned gets".into());
    }
    checks += 4;
    Ok(checks)
}

// ---------------------------------------------------------------- observable projection π and small helpers

type Stamp = (u64, u64);
/// (name, numbers, bytes): one observable fact about the content
type Atom = (String, [u64; 3], Option<Vec<u8>>);

#[derive(Clone, Debug, PartialEq, Eq, Hash, Default, Serialize)]
struct Pi {
    kind: String,
    value: Vec<Atom>,
    expiry: Option<u64>,
    vc: Option<Vec<(u64, u64)>>,
    rf: Option<u8>,
    stamp: Stamp,
}

const RIDS: [u64; 4] = [1, 2, 3, 9];

fn pi(v: &ReplicatedValue) -> Pi {
    let reg = |name: &str, l: &LwwRegister<SDS>| -> Atom { (name.to_string(), [l.timestamp.time, l.timestamp.replica_id.0, l.tombstone as u64], l.get().map(|s| s.as_bytes().to_vec())) };
    let mut a: Vec<Atom> = vec![];
    match &v.crdt {
        CrdtValue::Lww(l) => a.push(reg("", l)),
        CrdtValue::Hash(h) => a.extend(h.iter().map(|(f, l)| reg(f, l))),
        CrdtValue::GCounter(g) => {
            a.push(("\0total".into(), [g.value(), 0, 0], None));
            a.extend(RIDS.iter().map(|&r| ("entry".to_string(), [r, g.get_replica_count(&ReplicaId(r)), 0], None)).filter(|x| x.1[1] > 0));
        }
        CrdtValue::PNCounter(p) => {
            a.push(("\0total".into(), [p.value() as u64, 0, 0], None));
            let j = serde_json::to_value(p).expect("PNCounter serialises");
            for (tag, side) in [("p", &j["positive"]["counts"]), ("n", &j["negative"]["counts"])] {
                for (k, c) in side.as_object().into_iter().flatten() {
                    if c.as_u64().unwrap_or(0) > 0 {
                        a.push((tag.to_string(), [k.parse().unwrap_or(u64::MAX), c.as_u64().unwrap_or(0), 0], None));
                    }
                }
            }
        }
        CrdtValue::GSet(s) => a.extend(s.elements().map(|e| (e.clone(), [1, 0, 0], None))),
        CrdtValue::ORSet(s) => {
            for e in s.elements() {
                for t in s.get_tags(e).into_iter().flatten() {
                    a.push((e.clone(), [t.replica_id.0, t.sequence, s.contains(e) as u64], None));
                }
            }
        }
    }
    a.push(("\0client".into(), [v.is_tombstone() as u64, v.is_hash() as u64, 0], v.get().map(|s| s.as_bytes().to_vec())));
    a.sort();
    Pi {
        kind: v.crdt_type().to_string(),
        value: a,
        expiry: v.expiry_ms,
        vc: v.vector_clock.as_ref().map(|vc| RIDS.iter().map(|&r| (r, vc.get(&ReplicaId(r)))).filter(|e| e.1 > 0).collect()),
        rf: v.replication_factor,
        stamp: (v.timestamp.time, v.timestamp.replica_id.0),
    }
}

fn diff_component(l: Option<&Pi>, r: Option<&Pi>) -> Option<&'static str> {
    let (l, r) = match (l, r) {
        (None, None) => return None,
        (Some(_), None) => return Some("missing-key"),
        (None, Some(_)) => return Some("unexpected-key"),
        (Some(l), Some(r)) => (l, r),
    };
    Some(if l.kind != r.kind || l.value != r.value {
        "value"
    } else if l.expiry != r.expiry {
        "expiry"
    } else if l.vc != r.vc {
        "vector-clock"
    } else if l.rf != r.rf {
        "replication-factor"
    } else if l.stamp != r.stamp {
        "outer-stamp"
    } else {
        return None;
    })
}

fn show(p: Option<&Pi>) -> Value {
    p.map_or(Value::Null, |p| {
        // large values (the >1 MiB WAL cases) are abbreviated: 48 bytes of a long string, 24 atoms of a big hash
        let cap = |b: &[u8]| if b.len() > 256 { format!("{}...({} bytes)", lossy(&b[..48]), b.len()) } else { lossy(b) };
        let mut atoms: Vec<Value> = p.value.iter().take(24).map(|(n, x, b)| json!({"name": lossy(n.as_bytes()), "nums": x, "bytes": b.as_ref().map(|b| cap(b))})).collect();
        if p.value.len() > 24 {
            atoms.push(json!({"more_atoms": p.value.len() - 24}));
        }
        json!({"kind": p.kind, "content": atoms, "expiry": p.expiry, "vector_clock": p.vc, "rf": p.rf, "outer_stamp": p.stamp})
    })
}

/// The shard a key lives on: same function as the private `hash_key` of production/replicated_state.rs
/// (checked against the real node by `check_shard_map`).
fn shard_of(key: &str) -> usize {
    let mut h = std::collections::hash_map::DefaultHasher::new();
    key.hash(&mut h);
    (h.finish() as usize) % 16
}

fn rt() -> tokio::runtime::Runtime {
    tokio::runtime::Builder::new_current_thread().enable_all().start_paused(true).build().expect("runtime")
}

/// A node as the server builds it (16 shard actors). Must be called inside the runtime. The replication configuration rotates
/// over what a deployment can be: replication off, a full-replication cluster member, a member of a partitioned cluster
/// (selective gossip, RF 1 or 2 of 4 nodes - it is "responsible" for a part of the keys only). No network is ever started here;
/// what a node accepts, persists, recovers and serves must not depend on which of these it is.
fn node(rid: u64, causal: bool) -> ReplicatedShardedState {
    static KIND: std::sync::atomic::AtomicU64 = std::sync::atomic::AtomicU64::new(0);
    let consistency_level = if causal { ConsistencyLevel::Causal } else { ConsistencyLevel::Eventual };
    let peers = |n: usize| (0..n).map(|i| format!("10.255.0.{}:7{:03}", i + 2, i)).collect::<Vec<_>>();
    let k = KIND.fetch_add(1, std::sync::atomic::Ordering::Relaxed);
    let mut cfg = match k % 4 {
        0 | 1 => ReplicationConfig { enabled: false, replica_id: rid, ..ReplicationConfig::default() },
        2 => ReplicationConfig::new_cluster(rid, peers(2)),
        _ => ReplicationConfig::new_partitioned_cluster(rid, peers(3), 1 + (k / 4 % 2) as usize),
    };
    cfg.consistency_level = consistency_level;
    ReplicatedShardedState::new(cfg)
}

fn sds(s: &str) -> SDS {
    SDS::from_str(s)
}

fn enc(d: &ReplicationDelta) -> String {
    bincode::serialize(d).expect("delta serialises").iter().map(|b| format!("{:02x}", b)).collect()
}

fn dec(s: &str) -> ReplicationDelta {
    let b: Vec<u8> = (0..s.len() / 2).map(|i| u8::from_str_radix(&s[2 * i..2 * i + 2], 16).unwrap_or(0)).collect();
    bincode::deserialize(&b).expect("witness delta decodes")
}

fn brief(d: &ReplicationDelta) -> Value {
    json!({"key": d.key, "source": d.source_replica.0, "shard": shard_of(&d.key), "value": show(Some(&pi(&d.value)))})
}

/// Every key written once on a fresh node gets time = 1 + number of earlier keys of the same predicted shard.
async fn check_shard_map(keys: &[String]) -> bool {
    let mut st = node(NODE, false);
    let (tx, rx) = delta_sink_channel();
    st.set_delta_sink(tx);
    let mut per_shard = [0u64; 16];
    for k in keys {
        st.execute(Command::set(k.clone(), sds("v"))).await;
        per_shard[shard_of(k)] += 1;
        if rx.drain().first().map(|d| d.value.timestamp.time) != Some(per_shard[shard_of(k)]) {
            return false;
        }
    }
    true
}

async fn put_manifest(obj: &PlanObjectStore, segments: Vec<SegmentInfo>, checkpoint: Option<CheckpointInfo>) -> Result<(), String> {
    let next_segment_id = segments.iter().map(|s| s.id + 1).max().unwrap_or(0).max(checkpoint.as_ref().map_or(0, |c| c.last_segment_id + 1));
    // field assignment instead of a struct literal: compiles whatever further public fields `Manifest` has
    let mut m = Manifest::new(NODE);
    m.version = 1 + segments.len() as u64;
    m.segments = segments;
    m.checkpoint = checkpoint;
    m.next_segment_id = next_segment_id;
    ManifestManager::new(obj.clone(), PREFIX).save(&m).await.map_err(|e| e.to_string())
}

async fn put_segment(obj: &PlanObjectStore, id: u64, deltas: &[&ReplicationDelta]) -> Result<SegmentInfo, String> {
    let mut w = SegmentWriter::new(Compression::None);
    for d in deltas {
        w.write_delta(d).map_err(|e| e.to_string())?;
    }
    let data = w.finish().map_err(|e| e.to_string())?;
    let key = format!("{}/segments/segment-{:08}.seg", PREFIX, id);
    obj.put(&key, &data).await.map_err(|e| e.to_string())?;
    let times = || deltas.iter().map(|d| d.value.timestamp.time);
    Ok(SegmentInfo { id, key, record_count: deltas.len() as u32, size_bytes: data.len() as u64, min_timestamp: times().min().unwrap_or(0), max_timestamp: times().max().unwrap_or(0) })
}

async fn put_checkpoint(obj: &PlanObjectStore, state: HashMap<String, ReplicatedValue>, last: u64) -> Result<CheckpointInfo, String> {
    let key_count = state.len() as u64;
    let data = CheckpointWriter::new(Compression::None).write(state, 1000, last).map_err(|e| e.to_string())?;
    let key = format!("{}/checkpoints/chk-{:016}.chk", PREFIX, 1000);
    obj.put(&key, &data).await.map_err(|e| e.to_string())?;
    Ok(CheckpointInfo { key, timestamp_ms: 1000, key_count, last_segment_id: last })
}

/// One WAL file written the way the node does (entry stamp = the delta's Lamport time); the first `synced` entries are fsynced.
fn put_wal_file(wal: &PlanWalStore, deltas: &[&ReplicationDelta], synced: usize) -> Result<(), String> {
    // one call = one file: the rotation bound lies above everything written here (16 MiB unless an entry is larger)
    let total: u64 = deltas.iter().map(|d| bincode::serialized_size(*d).unwrap_or(0) + 16).sum();
    let mut rot = WalRotator::new(wal.clone(), (1usize << 24).max(total as usize + 64)).map_err(|e| e.to_string())?;
    for (i, d) in deltas.iter().enumerate() {
        if i == synced && i > 0 {
            rot.sync().map_err(|e| e.to_string())?;
        }
        rot.append(&WalEntry::from_delta(d, d.value.timestamp.time).map_err(|e| e.to_string())?).map_err(|e| e.to_string())?;
    }
    if synced >= deltas.len() {
        rot.sync().map_err(|e| e.to_string())?;
    }
    Ok(())
}

fn fold_into(m: &mut BTreeMap<String, ReplicatedValue>, key: &str, v: &ReplicatedValue) {
    let merged = match m.get(key) {
        Some(old) => old.merge(v),
        None => v.clone(),
    };
    m.insert(key.to_string(), merged);
}

fn fold_recovered(rs: RecoveredState) -> BTreeMap<String, ReplicatedValue> {
    let mut m: BTreeMap<String, ReplicatedValue> = rs.checkpoint_state.unwrap_or_default().into_iter().collect();
    rs.deltas.iter().for_each(|d| fold_into(&mut m, &d.key, &d.value));
    m
}

fn pis(m: &BTreeMap<String, ReplicatedValue>) -> BTreeMap<String, Pi> {
    m.iter().map(|(k, v)| (k.clone(), pi(v))).collect()
}

/// What a client reads: GET for string keys, HGETALL for hash keys, as sorted (field, value) pairs.
type ClientView = Vec<(Vec<u8>, Vec<u8>)>;

async fn client_read(st: &ReplicatedShardedState, key: &str, hash: bool) -> ClientView {
    let bulk = |r: &RespValue| match r {
        RespValue::BulkString(Some(b)) => b.clone(),
        other => format!("!{:?}", other).into_bytes(),
    };
    if hash {
        match st.execute(Command::HGetAll(key.to_string())).await {
            RespValue::Array(Some(items)) => {
                let mut v: ClientView = items.chunks(2).map(|c| (bulk(&c[0]), c.get(1).map(bulk).unwrap_or_default())).collect();
                v.sort();
                v
            }
            other => vec![(b"!".to_vec(), format!("{:?}", other).into_bytes())],
        }
    } else {
        match st.execute(Command::Get(key.to_string())).await {
            RespValue::BulkString(None) => vec![],
            r => vec![(vec![], bulk(&r))],
        }
    }
}

fn expected_read(v: Option<&ReplicatedValue>) -> ClientView {
    let mut out: ClientView = match v {
        Some(v) if v.is_hash() => v.get_hash().into_iter().flatten().filter_map(|(f, l)| l.get().map(|x| (f.as_bytes().to_vec(), x.as_bytes().to_vec()))).collect(),
        Some(v) => v.get().map(|x| (vec![], x.as_bytes().to_vec())).into_iter().collect(),
        None => vec![],
    };
    out.sort();
    out
}

// ---------------------------------------------------------------- C11: cases

const ENTRIES: [&str; 4] = ["recover", "recover_with_progress", "recover_with_wal", "server-replay"];
const KINDS: [&str; 6] = ["lww", "hash", "gcounter", "pncounter", "gset", "orset"];
const KEYS: [&str; 12] = ["a", "b", "c", "d", "e", "f", "g", "h", "i", "j", "k", "l"];

#[derive(Clone, Debug, Serialize, Deserialize, PartialEq)]
struct Chk {
    own: Vec<usize>, // updates folded into the checkpoint besides those of the segments it covers
    last: u64,       // last_segment_id
}
#[derive(Clone, Debug, Serialize, Deserialize, PartialEq)]
struct Seg {
    id: u64,
    upd: Vec<usize>,
}
#[derive(Clone, Debug, Serialize, Deserialize, PartialEq)]
struct Wal {
    upd: Vec<usize>,
    synced: usize, // entries [..synced] were fsynced before the crash, the rest only appended
}
/// How an update set is spread over the persistent image. A checkpoint covers (contains the updates of) every
/// segment with id <= last; covered segments stay listed in the manifest unless `unlist_covered`.
#[derive(Clone, Debug, Serialize, Deserialize, PartialEq)]
struct Layout {
    chk: Option<Chk>,
    segs: Vec<Seg>, // in manifest listing order
    wals: Vec<Wal>,
    unlist_covered: bool,
    no_manifest: bool, // nothing in the object store at all (only possible without checkpoint and segments)
}

impl Layout {
    fn covered(&self, s: &Seg) -> bool {
        self.chk.as_ref().map_or(false, |c| s.id <= c.last)
    }
    fn chk_content(&self) -> BTreeSet<usize> {
        let mut set: BTreeSet<usize> = self.chk.iter().flat_map(|c| c.own.iter().copied()).collect();
        set.extend(self.segs.iter().filter(|s| self.covered(s)).flat_map(|s| s.upd.iter().copied()));
        set
    }
    fn listed(&self) -> Vec<&Seg> {
        self.segs.iter().filter(|s| !(self.unlist_covered && self.covered(s))).collect()
    }
    fn in_wal(&self) -> BTreeSet<usize> {
        self.wals.iter().flat_map(|w| w.upd[..w.synced.min(w.upd.len())].iter().copied()).collect()
    }
    /// the updates an entry point must return: object store parts, plus the durable WAL entries for the two WAL-reading ones
    fn expected(&self, entry: &str) -> BTreeSet<usize> {
        let mut set = self.chk_content();
        set.extend(self.segs.iter().flat_map(|s| s.upd.iter().copied()));
        if entry == "recover_with_wal" || entry == "server-replay" {
            set.extend(self.in_wal());
        }
        set
    }
}

#[derive(Clone)]
struct Case {
    ups: Vec<ReplicationDelta>,
    lay: Layout,
    reps: usize,
}

fn fold_set(ups: &[ReplicationDelta], idx: impl IntoIterator<Item = usize>) -> BTreeMap<String, ReplicatedValue> {
    let mut m = BTreeMap::new();
    idx.into_iter().for_each(|i| fold_into(&mut m, &ups[i].key, &ups[i].value));
    m
}

/// "The merge of all" must not depend on order or grouping for the oracle to be meaningful (merge laws are C07's business).
fn order_independent(ups: &[ReplicationDelta], set: &BTreeSet<usize>) -> bool {
    let idx: Vec<usize> = set.iter().copied().collect();
    let base = pis(&fold_set(ups, idx.iter().copied()));
    let mut rot = idx.clone();
    rot.rotate_left(idx.len() / 2);
    let (lo, hi) = idx.split_at(idx.len() / 2);
    let mut grouped = fold_set(ups, hi.iter().copied());
    for (k, v) in fold_set(ups, lo.iter().copied()) {
        fold_into(&mut grouped, &k, &v);
    }
    base == pis(&fold_set(ups, idx.iter().rev().copied())) && base == pis(&fold_set(ups, rot)) && base == pis(&grouped)
}

/// Write the image through the instrumented stores and return the crash image after the last call.
async fn build_image(c: &Case) -> Result<St, String> {
    let io = Io::default();
    let (obj, wal) = (PlanObjectStore(io.clone()), PlanWalStore(io.clone()));
    let pick = |idx: &[usize]| -> Vec<&ReplicationDelta> { idx.iter().map(|&i| &c.ups[i]).collect() };
    let mut infos = BTreeMap::new();
    for s in &c.lay.segs {
        infos.insert(s.id, put_segment(&obj, s.id, &pick(&s.upd)).await?);
    }
    let chk = match &c.lay.chk {
        Some(k) => Some(put_checkpoint(&obj, fold_set(&c.ups, c.lay.chk_content()).into_iter().collect(), k.last).await?),
        None => None,
    };
    if !c.lay.no_manifest {
        put_manifest(&obj, c.lay.listed().iter().map(|s| infos[&s.id].clone()).collect(), chk).await?;
    }
    for w in &c.lay.wals {
        put_wal_file(&wal, &pick(&w.upd), w.synced)?;
    }
    Ok(io.image(io.calls()))
}

/// One recovery through `entry` into `st`; returns the folded `RecoveredState` where the entry point hands one out.
async fn recover_once(entry: &str, img: &St, st: &ReplicatedShardedState) -> Result<Option<BTreeMap<String, ReplicatedValue>>, String> {
    let io = Io::from_image(img.clone());
    let (obj, wal) = (PlanObjectStore(io.clone()), PlanWalStore(io));
    let rm = RecoveryManager::new(obj.clone(), PREFIX, NODE);
    let rot = WalRotator::new(wal, 1 << 24).map_err(|e| e.to_string())?;
    let rs = match entry {
        "recover" => rm.recover().await,
        "recover_with_progress" => rm.recover_with_progress(|_| {}).await,
        "recover_with_wal" => rm.recover_with_wal(&rot).await,
        _ => {
            // src/bin/server_persistent.rs: StreamingIntegration::recover, then every WAL entry through apply_recovered_state(None, ..)
            let cfg = StreamingConfig { prefix: PREFIX.to_string(), ..StreamingConfig::test() };
            StreamingIntegration::with_store(Arc::new(obj), cfg, NODE).recover(st).await.map_err(|e| e.to_string())?;
            let entries = rot.recover_all_entries().map_err(|e| e.to_string())?;
            let deltas: Vec<ReplicationDelta> = entries.iter().filter_map(|e| e.to_delta().ok()).collect();
            if !deltas.is_empty() {
                st.apply_recovered_state(None, deltas);
            }
            return Ok(None);
        }
    }
    .map_err(|e| e.to_string())?;
    let (chk, deltas) = (rs.checkpoint_state.clone(), rs.deltas.clone());
    st.apply_recovered_state(chk, deltas);
    Ok(Some(fold_recovered(rs)))
}

struct Finding {
    sig: String,
    detail: String,
    extra: Value,
}

/// Where the update lives in the durable image and how that relates to the filters of the recovery code.
fn describe(c: &Case, u: usize) -> String {
    let lay = &c.lay;
    let ts = c.ups[u].value.timestamp.time;
    let in_chk = lay.chk_content().contains(&u);
    let segs: Vec<&Seg> = lay.segs.iter().filter(|s| !lay.covered(s) && s.upd.contains(&u)).collect();
    let in_wal = lay.in_wal().contains(&u);
    let times = |s: &Seg| s.upd.iter().map(|&i| c.ups[i].value.timestamp.time).collect::<Vec<_>>();
    match (in_chk, !segs.is_empty(), in_wal) {
        (false, false, true) => {
            let hw = lay.listed().iter().flat_map(|s| times(s)).max();
            format!("wal-only:{}", match hw { None => "no-listed-segment", Some(h) if ts < h => "stamp-below-segment-high-water", Some(h) if ts == h => "stamp-equals-segment-high-water", _ => "stamp-above-segment-high-water" })
        }
        (false, true, false) => {
            let mut load: Vec<&Seg> = lay.segs.iter().filter(|s| !lay.covered(s)).collect();
            load.sort_by_key(|s| times(s).into_iter().min());
            let pos = load.iter().position(|s| s.id == segs[0].id).unwrap_or(0);
            let place = if load.len() == 1 { "only" } else if pos == 0 { "first" } else if pos + 1 == load.len() { "last" } else { "middle" };
            let rel = match &lay.chk { None => "no-checkpoint", Some(k) if segs[0].id == k.last + 1 => "id=last+1", _ => "id>last+1" };
            format!("segment-only:{}-by-min-stamp:{}", place, rel)
        }
        (true, false, false) => "checkpoint-only".into(),
        (a, b, w) => [(a, "checkpoint"), (b, "segment"), (w, "wal")].iter().filter(|x| x.0).map(|x| x.1).collect::<Vec<_>>().join("+"),
    }
}

/// Explain `got` for one key as the merge of a largest subset of the updates that had to be there.
fn classify(c: &Case, want: &BTreeSet<usize>, key: &str, got: Option<&Pi>) -> String {
    let idx: Vec<usize> = want.iter().copied().filter(|&i| c.ups[i].key == key).collect();
    let mut best: Option<Vec<usize>> = None;
    for mask in 0..(1u32 << idx.len().min(12)) {
        let sub: Vec<usize> = idx.iter().enumerate().filter(|(b, _)| mask >> b & 1 == 1).map(|(_, &i)| i).collect();
        if pis(&fold_set(&c.ups, sub.iter().copied())).get(key) == got && best.as_ref().map_or(true, |b| sub.len() > b.len()) {
            best = Some(sub);
        }
    }
    match best {
        None => "not-the-merge-of-any-subset-of-the-persisted-updates".into(),
        Some(sub) => {
            let mut d: Vec<String> = idx.iter().filter(|i| !sub.contains(i)).map(|&i| describe(c, i)).collect();
            d.sort();
            format!("dropped:{}", d.first().cloned().unwrap_or_else(|| "nothing".into()))
        }
    }
}

/// Run one entry point `reps` times on one node and compare fold, node snapshot and client reads with the ground truth.
async fn run_entry(c: &Case, img: &St, entry: &str) -> Option<Finding> {
    let want = c.lay.expected(entry);
    let truth = fold_set(&c.ups, want.iter().copied());
    let truth_pi = pis(&truth);
    let keys: BTreeSet<String> = c.ups.iter().map(|u| u.key.clone()).collect();
    let st = node(NODE, false);
    for r in 0..c.reps {
        let when = if r == 0 { "first-recovery" } else { "repeated-recovery" };
        let fold = match recover_once(entry, img, &st).await {
            Ok(f) => f,
            Err(e) => return Some(Finding { sig: format!("C11|{}|error|{}", entry, panic_class(&e)), detail: e, extra: json!({}) }),
        };
        let snap = pis(&st.snapshot_state().await.into_iter().collect());
        let mut views: Vec<(&str, BTreeMap<String, Pi>)> = fold.iter().map(|f| ("fold-of-RecoveredState", pis(f))).collect();
        views.push(("node-snapshot", snap.clone()));
        for (obs, got) in &views {
            for k in keys.iter().chain(got.keys().filter(|k| !keys.contains(*k))) {
                if let Some(comp) = diff_component(truth_pi.get(k), got.get(k)) {
                    // a dropped update is the root cause whatever component of π shows it; otherwise name the component
                    let class = classify(c, &want, k, got.get(k));
                    let sig = if class.starts_with("dropped:") { format!("C11|{}|{}|{}|{}", entry, obs, when, class) } else { format!("C11|{}|{}|{}|{}|{}", entry, obs, when, comp, class) };
                    let detail = format!("key {:?}: {} differs from the merge of the {} persisted updates in {}", k, obs, want.len(), comp);
                    return Some(Finding { sig, detail, extra: json!({"key": k, "expected": show(truth_pi.get(k)), "got": show(got.get(k))}) });
                }
            }
        }
        for k in &keys {
            let kind = c.ups.iter().find(|u| &u.key == k).map(|u| u.value.crdt_type()).unwrap_or("lww");
            if kind != "lww" && kind != "hash" {
                continue;
            }
            let (exp, got) = (expected_read(truth.get(k)), client_read(&st, k, kind == "hash").await);
            if exp != got {
                let cls = |v: &ClientView| if v.is_empty() { "absent" } else { "live" };
                let sig = format!("C11|{}|client-read|{}|kind={}|expected={}|got={}", entry, when, kind, cls(&exp), cls(&got));
                let show_view = |v: &ClientView| v.iter().map(|(f, x)| format!("{}={}", lossy(f), lossy(x))).collect::<Vec<_>>();
                return Some(Finding { sig, detail: format!("key {:?}: client read differs from the merged value (snapshot was right)", k), extra: json!({"key": k, "expected": show_view(&exp), "got": show_view(&got)}) });
            }
        }
    }
    None
}

fn without(c: &Case, u: usize) -> Case {
    let fix = |v: &Vec<usize>| -> Vec<usize> { v.iter().filter(|&&i| i != u).map(|&i| i - (i > u) as usize).collect() };
    let mut n = c.clone();
    n.ups.remove(u);
    n.lay.chk = c.lay.chk.as_ref().map(|k| Chk { own: fix(&k.own), last: k.last });
    n.lay.segs = c.lay.segs.iter().map(|s| Seg { id: s.id, upd: fix(&s.upd) }).filter(|s| !s.upd.is_empty()).collect();
    n.lay.wals = c.lay.wals.iter().map(|w| Wal { synced: w.upd[..w.synced.min(w.upd.len())].iter().filter(|&&i| i != u).count(), upd: fix(&w.upd) }).filter(|w| !w.upd.is_empty()).collect();
    n
}

async fn find(c: &Case, entry: &str) -> Option<Finding> {
    let img = build_image(c).await.ok()?;
    run_entry(c, &img, entry).await
}

/// Greedy minimisation keeping the signature: fewer repetitions, then fewer updates.
async fn shrink(c: &Case, entry: &str, sig: &str) -> (Case, Option<Finding>) {
    let mut cur = c.clone();
    for reps in 1..c.reps {
        let t = Case { reps, ..cur.clone() };
        if find(&t, entry).await.map_or(false, |f| f.sig == sig) {
            cur = t;
            break;
        }
    }
    let mut u = cur.ups.len();
    while u > 0 {
        u -= 1;
        let t = without(&cur, u);
        if find(&t, entry).await.map_or(false, |f| f.sig == sig) {
            cur = t;
        }
    }
    let f = find(&cur, entry).await;
    (cur, f)
}

fn witness11(c: &Case, entry: &str, f: &Finding) -> Value {
    json!({"updates": c.ups.iter().map(enc).collect::<Vec<_>>(), "layout": c.lay, "reps": c.reps, "entry": entry,
           "readable_updates": c.ups.iter().map(brief).collect::<Vec<_>>(), "observed": f.extra})
}

// ---------------------------------------------------------------- C11: read faults during recovery

const FAULT_ENTRIES: [&str; 3] = ["recover", "recover_with_progress", "recover_with_wal"];
const FAULT_KINDS: [&str; 3] = ["io-error", "truncated", "bit-flip"];
const OBJECTS: [&str; 3] = ["manifest", "checkpoint", "segment"];

/// One damaged read: the `get`-th object read of the recovery fails / is cut / has one bit flipped, once.
#[derive(Clone, Debug, Serialize, Deserialize, PartialEq)]
struct ReadFault {
    get: usize,   // ordinal among the object gets of the recovery (0 = the manifest)
    kind: String, // io-error | truncated | bit-flip
    arg: usize,   // truncated: number of bytes handed out; bit-flip: index of the bit
}

impl ReadFault {
    fn fault(&self) -> Fault {
        match self.kind.as_str() {
            "truncated" => Fault::Short(self.arg),
            "bit-flip" => Fault::Flip(self.arg),
            _ => Fault::Fail,
        }
    }
}

fn object_class(key: &str) -> &'static str {
    if key.contains("/checkpoints/") {
        "checkpoint"
    } else if key.contains("/segments/") {
        "segment"
    } else {
        "manifest"
    }
}

/// One recovery through a `RecoveryManager` entry point on `io`, folded. No node involved.
async fn recover_fold(entry: &str, io: &Io) -> Result<BTreeMap<String, ReplicatedValue>, String> {
    let (obj, wal) = (PlanObjectStore(io.clone()), PlanWalStore(io.clone()));
    let rm = RecoveryManager::new(obj, PREFIX, NODE);
    let rot = WalRotator::new(wal, 1 << 24).map_err(|e| e.to_string())?;
    let rs = match entry {
        "recover" => rm.recover().await,
        "recover_with_progress" => rm.recover_with_progress(|_| {}).await,
        _ => rm.recover_with_wal(&rot).await,
    };
    rs.map(fold_recovered).map_err(|e| e.to_string())
}

enum FaultOutcome {
    NotReached,                  // the recovery issues fewer gets
    Failed(&'static str),        // Err: allowed
    Complete(&'static str),      // Ok with exactly the merge of everything persisted: allowed
    Bad(&'static str, Finding),  // Ok with anything else
}

/// Recovery with one damaged read must fail as a whole or return everything; `Ok` with less (or other) content is the violation.
async fn fault_check(c: &Case, img: &St, entry: &str, rf: &ReadFault) -> FaultOutcome {
    let io = Io::from_image(img.clone());
    io.plan_get(rf.get, rf.fault());
    let r = recover_fold(entry, &io).await;
    let hit = io.gets().into_iter().find(|g| g.1.is_some());
    let object = match &hit {
        Some(g) => object_class(&g.0),
        None => return FaultOutcome::NotReached,
    };
    // what the recovery code was handed instead of the object: the bytes around the damage, before and after
    let damage = hit.as_ref().and_then(|g| img.objects.get(&g.0).map(|d| (g.0.clone(), d))).map_or(Value::Null, |(key, d)| match rf.fault() {
        Fault::Flip(bit) if !d.is_empty() => {
            let at = bit % (d.len() * 8) / 8;
            let (lo, hi) = (at.saturating_sub(24), (at + 24).min(d.len()));
            let mut after = d[lo..hi].to_vec();
            after[at - lo] ^= 1 << (bit % 8);
            json!({"object": key, "object_bytes": d.len(), "byte": at, "around_before": lossy(&d[lo..hi]), "around_after": lossy(&after)})
        }
        Fault::Short(n) => json!({"object": key, "object_bytes": d.len(), "handed_out_bytes": n.min(d.len())}),
        _ => json!({"object": key, "object_bytes": d.len()}),
    });
    let got = match r {
        Err(_) => return FaultOutcome::Failed(object),
        Ok(f) => pis(&f),
    };
    let want = c.lay.expected(entry);
    let truth = pis(&fold_set(&c.ups, want.iter().copied()));
    let keys: BTreeSet<&String> = truth.keys().chain(got.keys()).collect();
    for k in keys {
        if let Some(comp) = diff_component(truth.get(k), got.get(k)) {
            let class = classify(c, &want, k, got.get(k));
            let class = if class.starts_with("dropped:") { class } else { format!("{}:{}", comp, class) };
            return FaultOutcome::Bad(
                object,
                Finding {
                    // one signature per (entry point, kind of damage, object read): what went missing is in the detail
                    sig: format!("C11|{}|ok-but-not-the-merge-after-damaged-read|fault={},object={}", entry, rf.kind, object),
                    detail: format!("key {:?}: get #{} ({}) was damaged once ({} {}), recovery returned Ok, and the fold of the RecoveredState differs from the merge of the {} persisted updates in {} ({})", k, rf.get, object, rf.kind, rf.arg, want.len(), comp, class),
                    extra: json!({"key": k, "expected": show(truth.get(k)), "got": show(got.get(k)), "damage": damage}),
                },
            );
        }
    }
    FaultOutcome::Complete(object)
}

/// The faults tried on one image: for every get of the fault-free recovery an I/O error, truncations, bit flips.
fn fault_plan(gets: &[(String, usize)], rng: &mut Rng, thorough: bool, manifest_flips: bool) -> Vec<ReadFault> {
    let mut out = vec![];
    for (k, (key, len)) in gets.iter().enumerate() {
        out.push(ReadFault { get: k, kind: "io-error".into(), arg: 0 });
        if *len == 0 {
            continue;
        }
        let mut cuts: Vec<usize> = vec![0, 1, len / 2, len - 1, len.saturating_sub(4), len.saturating_sub(16)];
        cuts.retain(|n| n < len);
        cuts.sort();
        cuts.dedup();
        if !thorough {
            cuts = vec![cuts[rng.gen_range(0..cuts.len())]];
        }
        out.extend(cuts.into_iter().map(|n| ReadFault { get: k, kind: "truncated".into(), arg: n }));
        // half of the flips in the first 64 bytes (headers, counts, lengths), half anywhere
        for i in 0..if thorough { 8 } else { 2 } {
            if !manifest_flips && object_class(key) == "manifest" {
                break;
            }
            let bit = if i % 2 == 0 { rng.gen_range(0..len.min(&64) * 8) } else { rng.gen_range(0..len * 8) };
            out.push(ReadFault { get: k, kind: "bit-flip".into(), arg: bit });
        }
    }
    out
}

fn witness_fault(c: &Case, entry: &str, rf: &ReadFault, f: &Finding) -> Value {
    let mut w = witness11(c, entry, f);
    w["read_fault"] = json!(rf);
    w
}

/// The same damage on any get of a smaller case (removing updates removes objects and shifts the ordinals).
async fn find_fault(c: &Case, entry: &str, rf: &ReadFault, sig: &str) -> Option<(ReadFault, Finding)> {
    let img = build_image(c).await.ok()?;
    for get in std::iter::once(rf.get).chain(0..8) {
        let t = ReadFault { get, ..rf.clone() };
        if let FaultOutcome::Bad(_, f) = fault_check(c, &img, entry, &t).await {
            if f.sig == sig {
                return Some((t, f));
            }
        }
    }
    None
}

async fn shrink_fault(c: &Case, entry: &str, rf: &ReadFault, sig: &str) -> Option<(Case, ReadFault, Finding)> {
    let (mut cur, mut cur_rf) = (c.clone(), rf.clone());
    let mut u = cur.ups.len();
    while u > 0 {
        u -= 1;
        let t = without(&cur, u);
        if let Some((trf, _)) = find_fault(&t, entry, &cur_rf, sig).await {
            (cur, cur_rf) = (t, trf);
        }
    }
    let (frf, f) = find_fault(&cur, entry, &cur_rf, sig).await?;
    Some((cur, frf, f))
}

/// All single damaged reads of one image, through the three `RecoveryManager` entry points.
fn sweep_case(rep: &mut Report, rt: &tokio::runtime::Runtime, c: &Case, rng: &mut Rng, thorough: bool, manifest_flips: bool) {
    let Ok(img) = rt.block_on(build_image(c)) else { return };
    let clean = Io::from_image(img.clone());
    if rt.block_on(recover_fold("recover", &clean)).is_err() {
        rep.count("read-fault:skipped:fault-free-recovery-fails");
        return;
    }
    let gets: Vec<(String, usize)> = clean.gets().into_iter().map(|g| (g.0.clone(), img.objects.get(&g.0).map_or(0, |o| o.len()))).collect();
    let plan = fault_plan(&gets, rng, thorough, manifest_flips);
    rep.count("read-fault:images");
    rep.max("gets_per_recovery", gets.len() as u64);
    let shape = (c.lay.chk.is_some(), c.lay.segs.len().min(3), c.lay.wals.len().min(2), c.lay.unlist_covered);
    for entry in FAULT_ENTRIES {
        let want = c.lay.expected(entry);
        if !order_independent(&c.ups, &want) {
            continue;
        }
        // the fault-free recovery through this entry point must be right, otherwise the finding belongs to the plain cases
        let truth = pis(&fold_set(&c.ups, want.iter().copied()));
        if rt.block_on(recover_fold(entry, &Io::from_image(img.clone()))).ok().map(|f| pis(&f)) != Some(truth) {
            rep.count("read-fault:skipped:fault-free-recovery-already-wrong");
            continue;
        }
        for rf in &plan {
            rep.evaluations += 1;
            let outcome = match guard(|| rt.block_on(fault_check(c, &img, entry, rf))) {
                Ok(o) => o,
                Err(p) => {
                    let object = gets.get(rf.get).map_or("?", |g| object_class(&g.0));
                    let f = Finding { sig: format!("C11|{}|panic-after-damaged-read|fault={},object={}|{}", entry, rf.kind, object, panic_class(&p)), detail: p, extra: json!({}) };
                    rep.count(&format!("fail:{}", &f.sig[4..]));
                    rep.violation(f.sig.clone(), f.detail.clone(), witness_fault(c, entry, rf, &f));
                    continue;
                }
            };
            let (object, what) = match &outcome {
                FaultOutcome::NotReached => ("none", "not-reached"),
                FaultOutcome::Failed(o) => (*o, "recovery-failed"),
                FaultOutcome::Complete(o) => (*o, "recovery-complete"),
                FaultOutcome::Bad(o, _) => (*o, "VIOLATION"),
            };
            rep.count(&format!("read-fault:{}:{}:{}", rf.kind, object, what));
            rep.count(&format!("read-fault:entry:{}", entry));
            rep.distinct(&("read-fault", &rf.kind, object, entry, shape));
            if let FaultOutcome::Bad(_, f) = outcome {
                rep.count(&format!("fail:{}", &f.sig[4..]));
                if rep.has_sig(&f.sig) {
                    rep.count("violations_raw");
                    continue;
                }
                let small = guard(|| rt.block_on(shrink_fault(c, entry, rf, &f.sig))).ok().flatten();
                let (wc, wrf, wf) = small.unwrap_or((c.clone(), rf.clone(), f));
                rep.violation(wf.sig.clone(), format!("{} ({} updates after shrinking)", wf.detail, wc.ups.len()), witness_fault(&wc, entry, &wrf, &wf));
            }
        }
    }
}

// ---------------------------------------------------------------- C11: WAL entries above 1 MiB

const MIB: usize = 1 << 20;

fn serialized_len(d: &ReplicationDelta) -> usize {
    bincode::serialized_size(d).unwrap_or(0) as usize
}

/// A small write, one large update (`kind` = string: `size` payload bytes; hash: `size` small fields), then two more
/// small writes, all stamped by one shard clock; `layout` says where they are persisted:
/// 0 = everything in one WAL file, nothing in the object store; 1 = first write in a segment, the rest in one WAL file;
/// 2 = first write in the checkpoint, everything in one WAL file; 3 = the large update in a segment as well as in the
/// WAL file (the entries behind it are WAL-only).
fn big_case(kind: &str, size: usize, layout: usize, reps: usize) -> Case {
    let mut s = ShardReplicaState::new(ReplicaId(NODE), ConsistencyLevel::Eventual);
    let mut ups = vec![s.record_write("a".into(), sds("before"), None)];
    ups.push(match kind {
        "hash" => s.record_hash_write("BIG".into(), (0..size).map(|i| (format!("f{:06}", i), sds(&format!("v{}", i % 97)))).collect()),
        _ => s.record_write("BIG".into(), SDS::new((0..size).map(|i| b'a' + (i % 23) as u8).collect()), None),
    });
    ups.push(s.record_write("a".into(), sds("after"), None));
    ups.push(s.record_write("b".into(), sds("later"), None));
    let wal = |upd: Vec<usize>| vec![Wal { synced: upd.len(), upd }];
    let lay = match layout {
        0 => Layout { chk: None, segs: vec![], wals: wal(vec![0, 1, 2, 3]), unlist_covered: false, no_manifest: true },
        1 => Layout { chk: None, segs: vec![Seg { id: 1, upd: vec![0] }], wals: wal(vec![1, 2, 3]), unlist_covered: false, no_manifest: false },
        2 => Layout { chk: Some(Chk { own: vec![0], last: 0 }), segs: vec![], wals: wal(vec![0, 1, 2, 3]), unlist_covered: false, no_manifest: false },
        _ => Layout { chk: None, segs: vec![Seg { id: 1, upd: vec![0, 1] }], wals: wal(vec![1, 2, 3]), unlist_covered: false, no_manifest: false },
    };
    Case { ups, lay, reps }
}

/// A long history of ONE key: `n` writes by the node (strings and counters interleaved with a neighbour key of the same shard),
/// two thirds in two segments, the rest in the WAL. Whatever bounds a node puts on mailboxes, batches or windows, recovery has
/// to end at the merge of all of it - the last write.
fn long_case(n: usize, reps: usize) -> Case {
    let mut s = ShardReplicaState::new(ReplicaId(NODE), ConsistencyLevel::Eventual);
    let mut ups = vec![];
    for i in 0..n {
        ups.push(if i % 211 == 210 { s.record_write("hot-neighbour".into(), sds(&format!("n{}", i)), None) } else { s.record_write("hot".into(), sds(&format!("v{}", i)), None) });
    }
    ups.push(s.record_write("hot".into(), sds("the-last-write"), None));
    let (a, b) = (n / 3, 2 * n / 3);
    let lay = Layout {
        chk: None,
        segs: vec![Seg { id: 1, upd: (0..a).collect() }, Seg { id: 2, upd: (a..b).collect() }],
        wals: vec![Wal { synced: n + 1 - b, upd: (b..=n).collect() }],
        unlist_covered: false,
        no_manifest: false,
    };
    Case { ups, lay, reps }
}

async fn do_long_case(rep: &mut Report, n: usize) {
    let c = long_case(n, 1);
    let img = match build_image(&c).await {
        Ok(i) => i,
        Err(e) => {
            rep.count("harness:image-build-failed");
            rep.note(format!("could not build an image: {}", e));
            return;
        }
    };
    for entry in ENTRIES {
        rep.evaluations += 1;
        rep.count(&format!("entry:{}", entry));
        rep.count("space:long-history-of-one-key");
        rep.distinct(&("long-history", n, entry));
        if let Some(mut f) = run_entry(&c, &img, entry).await {
            f.sig = format!("{}|one-key-written-{}-times", f.sig, if n > 4096 { ">4096" } else { "<=4096" });
            rep.count(&format!("fail:{}", &f.sig[4..]));
            rep.violation(f.sig.clone(), format!("{} ({} writes of one key: two segments and a WAL file; not shrunk)", f.detail, n), json!({"long_case": n, "entry": entry, "observed": f.extra}));
        }
    }
}

fn big_recipe(w: &Value) -> Option<Case> {
    let r = w.get("recipe")?;
    Some(big_case(r["kind"].as_str()?, r["size"].as_u64()? as usize, r["layout"].as_u64()? as usize, w["reps"].as_u64().unwrap_or(1) as usize))
}

/// Findings of this space carry the input class in the signature: the dropped update need not be the large one.
fn big_finding(mut f: Finding) -> Finding {
    // (where the WAL-only update lies relative to the segments' stamps is a detail of the layout here, not a cause)
    if let Some(i) = f.sig.find("dropped:wal-only:") {
        let end = f.sig[i..].find('|').map_or(f.sig.len(), |j| i + j);
        f.sig.replace_range(i + "dropped:wal-only".len()..end, "");
    }
    f.sig = format!("{}|wal-file-holds-an-entry-above-1MiB", f.sig);
    f
}

fn witness_big(c: &Case, recipe: &Value, entry: &str, f: &Finding) -> Value {
    let upd: Vec<Value> = c.ups.iter().map(|d| json!({"key": d.key, "kind": d.value.crdt_type(), "stamp": d.value.timestamp.time, "serialized_bytes": serialized_len(d)})).collect();
    json!({"recipe": recipe, "layout": c.lay, "reps": c.reps, "entry": entry, "readable_updates": upd, "observed": f.extra})
}

async fn do_big_case(rep: &mut Report, c: &Case, recipe: &Value) {
    let img = match build_image(c).await {
        Ok(i) => i,
        Err(e) => {
            rep.count("harness:image-build-failed");
            rep.note(format!("could not build an image: {}", e));
            return;
        }
    };
    let len = serialized_len(&c.ups[1]);
    let wal_only = !c.lay.expected("recover").contains(&1);
    let one_file = img.files.len() == 1;
    rep.max("wal_entry_bytes", len as u64);
    rep.count(&format!("large:{}:{}", c.ups[1].value.crdt_type(), match (len > MIB, wal_only) { (false, _) => "entry-below-1MiB(control)", (true, true) => "wal-only-entry-above-1MiB", (true, false) => "entry-above-1MiB-also-in-a-segment" }));
    if len > MIB && one_file {
        rep.count("cases:wal-entry-above-1MiB-followed-by-entries-in-the-same-file");
    }
    if len > 16 * MIB {
        rep.count("cases:wal-entry-above-16MiB");
    }
    for entry in ENTRIES {
        rep.evaluations += 1;
        if !order_independent(&c.ups, &c.lay.expected(entry)) {
            rep.count("sets:skipped-merge-order-dependent(C07)");
            continue;
        }
        rep.count(&format!("entry:{}", entry));
        rep.count("space:large-wal-entry");
        rep.distinct(&("large-wal-entry", c.ups[1].value.crdt_type(), (len / MIB).min(20), recipe["layout"].as_u64(), entry, c.reps));
        if let Some(f) = run_entry(c, &img, entry).await.map(big_finding) {
            rep.count(&format!("fail:{}", &f.sig[4..]));
            rep.violation(f.sig.clone(), format!("{} (WAL entry of {} bytes, not shrunk)", f.detail, len), witness_big(c, recipe, entry, &f));
        }
    }
}

// ---------------------------------------------------------------- C11: generators

/// Update sets grown through real `ShardReplicaState`s: replica 1 is the node (one clock per shard, started at
/// different times so that stamps interleave across shards), replicas 2 and 3 are peers, one of them far ahead.
fn grow(rng: &mut Rng) -> Vec<ReplicationDelta> {
    let causal = rng.gen_bool(0.3);
    let lvl = if causal { ConsistencyLevel::Causal } else { ConsistencyLevel::Eventual };
    let mut names = KEYS.to_vec();
    names.shuffle(rng);
    let keys: Vec<(&str, &str)> = names[..rng.gen_range(1..=3)].iter().map(|&k| (k, if rng.gen_bool(0.7) { KINDS[rng.gen_range(0..2)] } else { KINDS[rng.gen_range(2..6)] })).collect();
    let far = [1u64 << 40, 1 << 60][rng.gen_range(0..2)];
    let base: Vec<u64> = (0..48).map(|i| match i / 16 { 0 => rng.gen_range(0..6), 1 => [0, 3, 1000][rng.gen_range(0..3)] + rng.gen_range(0..3), _ => far + rng.gen_range(0..3) }).collect();
    let mut reps: BTreeMap<(u64, usize), ShardReplicaState> = BTreeMap::new();
    let mut ups: Vec<ReplicationDelta> = vec![];
    let target = rng.gen_range(1..=10);
    let (vals, fields, elems) = (["x", "y", "", "z"], ["f", "g", "h"], ["m", "n", "o"]);
    for _ in 0..30 {
        if ups.len() >= target {
            break;
        }
        let (key, kind) = keys[rng.gen_range(0..keys.len())];
        let rid = [1u64, 1, 2, 3][rng.gen_range(0..4)];
        let slot = (rid, shard_of(key));
        let mk = |rid: u64, shard: usize| {
            let mut s = ShardReplicaState::new(ReplicaId(rid), lvl);
            s.lamport_clock.time = base[(rid as usize - 1) * 16 + shard];
            s
        };
        let st = reps.entry(slot).or_insert_with(|| mk(rid, slot.1));
        let roll = rng.gen_range(0..100);
        if roll >= 70 && roll < 88 && !ups.is_empty() {
            let d = ups[rng.gen_range(0..ups.len())].clone(); // deliver an earlier update to this replica (any order, duplicates allowed)
            if d.source_replica.0 != rid {
                reps.entry((rid, shard_of(&d.key))).or_insert_with(|| mk(rid, shard_of(&d.key))).apply_remote_delta(d);
            }
            continue;
        }
        if roll >= 88 {
            ups.extend(st.get_replicated(key).map(|v| ReplicationDelta::new(key.to_string(), v.clone(), ReplicaId(rid)))); // anti-entropy style snapshot
            continue;
        }
        let (v, f, e) = (vals[rng.gen_range(0..4)], fields[rng.gen_range(0..3)], elems[rng.gen_range(0..3)].to_string());
        let del = rng.gen_bool(0.25);
        let delta = match kind {
            "lww" if del && st.get_replicated(key).is_some() => st.record_delete(key.to_string()),
            "lww" => Some(st.record_write(key.to_string(), sds(v), [None, None, Some(100_000), Some(200_000)][rng.gen_range(0..4)])),
            "hash" if del && st.get_replicated(key).map_or(false, |x| x.hash_get(f).is_some()) => st.record_hash_delete(key.to_string(), vec![f.to_string()]),
            "hash" => Some(st.record_hash_write(key.to_string(), vec![(f.to_string(), sds(v))])),
            _ => {
                // counters and sets have no client command: mutate the replica's value in place, stamp it from the shard clock
                let ts = st.lamport_clock.tick();
                let val = st.replicated_keys.entry(key.to_string()).or_insert_with(|| {
                    let fresh = match kind { "gcounter" => CrdtValue::new_gcounter(), "pncounter" => CrdtValue::new_pncounter(), "gset" => CrdtValue::new_gset(), _ => CrdtValue::new_orset() };
                    ReplicatedValue::with_crdt(fresh, ReplicaId(rid))
                });
                match val.crdt_mut() {
                    CrdtValue::GCounter(g) => g.increment_by(ReplicaId(rid), rng.gen_range(1..4)),
                    CrdtValue::PNCounter(p) => if del { p.decrement(ReplicaId(rid)) } else { p.increment(ReplicaId(rid)) },
                    CrdtValue::GSet(s) => drop(s.add(e)),
                    CrdtValue::ORSet(s) => {
                        if del {
                            s.remove(&e);
                        } else {
                            s.add(e, ReplicaId(rid));
                        }
                    }
                    _ => {}
                }
                val.timestamp = ts;
                Some(ReplicationDelta::new(key.to_string(), val.clone(), ReplicaId(rid)))
            }
        };
        ups.extend(delta);
    }
    ups
}

/// A random way of spreading `n` updates over checkpoint / <=4 segments / <=3 WAL files, with duplicates.
fn gen_layout(rng: &mut Rng, n: usize) -> Layout {
    let (mut n_seg, mut n_wal, has_chk) = (rng.gen_range(0..=4usize), rng.gen_range(0..=3usize), rng.gen_bool(0.5));
    if n_seg + n_wal == 0 && !has_chk {
        if rng.gen_bool(0.5) { n_seg = 1 } else { n_wal = 1 }
    }
    let mut ids: Vec<u64> = (0..7).collect();
    ids.shuffle(rng); // ids are unrelated to content, so id order and min-stamp order disagree freely
    let mut lay = Layout { chk: has_chk.then(|| Chk { own: vec![], last: 0 }), segs: ids[..n_seg].iter().map(|&id| Seg { id, upd: vec![] }).collect(), wals: vec![Wal { upd: vec![], synced: 0 }; n_wal], unlist_covered: rng.gen_bool(0.5), no_manifest: false };
    let parts = has_chk as usize + n_seg + n_wal;
    for u in 0..n {
        let copies = 1 + rng.gen_bool(0.3) as usize + rng.gen_bool(0.1) as usize;
        let mut into: Vec<usize> = (0..parts).collect();
        into.shuffle(rng);
        for &p in into.iter().take(copies) {
            let p = p + !has_chk as usize;
            match p {
                0 => lay.chk.as_mut().unwrap().own.push(u),
                p if p <= n_seg => lay.segs[p - 1].upd.push(u),
                p => lay.wals[p - 1 - n_seg].upd.push(u),
            }
        }
    }
    lay.segs.retain(|s| !s.upd.is_empty());
    lay.wals.retain(|w| !w.upd.is_empty());
    for w in lay.wals.iter_mut() {
        w.upd.shuffle(rng);
        w.synced = if rng.gen_bool(0.8) { w.upd.len() } else { rng.gen_range(0..w.upd.len()) };
    }
    if let Some(k) = lay.chk.as_mut() {
        // last_segment_id at every position relative to the ids in use (0 with no segment 0 = nothing covered)
        let mut pos: Vec<u64> = lay.segs.iter().flat_map(|s| [s.id, s.id.saturating_sub(1)]).chain([0, 6]).collect();
        pos.sort();
        pos.dedup();
        k.last = pos[rng.gen_range(0..pos.len())];
    }
    lay.no_manifest = lay.chk.is_none() && lay.segs.is_empty() && rng.gen_bool(0.5);
    lay
}

/// Complete sub-space for a 3-update set: every assignment to {checkpoint, segment A, segment B, WAL},
/// both id orders of A and B, last_segment_id below / between / at the top.
fn small_space(n: usize) -> Vec<Layout> {
    let mut out = vec![];
    for assign in 0..4usize.pow(n as u32) {
        for (ida, idb) in [(1u64, 2u64), (2, 1)] {
            for last in [0u64, 1, 2] {
                let part = |p: usize| -> Vec<usize> { (0..n).filter(|&u| assign / 4usize.pow(u as u32) % 4 == p).collect() };
                let segs: Vec<Seg> = [Seg { id: ida, upd: part(1) }, Seg { id: idb, upd: part(2) }].into_iter().filter(|s| !s.upd.is_empty()).collect();
                let wals: Vec<Wal> = [Wal { synced: part(3).len(), upd: part(3) }].into_iter().filter(|w| !w.upd.is_empty()).collect();
                out.push(Layout { chk: Some(Chk { own: part(0), last }), segs, wals, unlist_covered: assign % 2 == 0, no_manifest: false });
            }
        }
    }
    out
}

// ---------------------------------------------------------------- C11: the leg

async fn do_case(rep: &mut Report, c: &Case, space: &str) {
    let img = match build_image(c).await {
        Ok(i) => i,
        Err(e) => {
            rep.count("harness:image-build-failed");
            rep.note(format!("could not build an image: {}", e));
            return;
        }
    };
    let lay = &c.lay;
    let times = |idx: &[usize]| idx.iter().map(|&i| c.ups[i].value.timestamp.time).collect::<Vec<_>>();
    let all_times = times(&(0..c.ups.len()).collect::<Vec<_>>());
    let hw = lay.listed().iter().flat_map(|s| times(&s.upd)).max();
    let wal_only_below = lay.in_wal().iter().any(|&u| !lay.expected("recover").contains(&u) && hw.map_or(false, |h| c.ups[u].value.timestamp.time < h));
    let mut by_id: Vec<&Seg> = lay.segs.iter().collect();
    by_id.sort_by_key(|s| s.id);
    let ids_vs_stamps = by_id.windows(2).any(|w| times(&w[0].upd).iter().min() > times(&w[1].upd).iter().min());
    let dups = (0..c.ups.len()).any(|u| lay.chk.iter().filter(|k| k.own.contains(&u)).count() + lay.segs.iter().filter(|s| s.upd.contains(&u)).count() + lay.wals.iter().filter(|w| w.upd.contains(&u)).count() > 1);
    let covered = lay.segs.iter().filter(|s| lay.covered(s)).count();
    let unsynced = lay.wals.iter().any(|w| w.synced < w.upd.len());
    let stamp_class = (
        all_times.iter().any(|&t| t >= 1 << 40),
        all_times.windows(2).any(|w| w[0] > w[1]),
        wal_only_below,
        ids_vs_stamps,
        (0..c.ups.len()).any(|i| (0..i).any(|j| all_times[i] == all_times[j] && (c.ups[i].key != c.ups[j].key || c.ups[i].source_replica != c.ups[j].source_replica))),
        c.ups.iter().map(|u| shard_of(&u.key)).collect::<BTreeSet<_>>().len().min(3),
    );
    let shape = (lay.chk.is_some(), lay.segs.len(), lay.wals.len(), dups, covered.min(2), lay.unlist_covered && covered > 0, unsynced, lay.no_manifest);
    for (on, name) in [(stamp_class.0, "cases:remote-stamps-far-ahead"), (stamp_class.1, "cases:stamps-not-monotone-in-emission-order"), (wal_only_below, "cases:wal-only-update-below-segment-high-water"), (ids_vs_stamps, "cases:segment-ids-against-min-stamps"),
        (stamp_class.4, "cases:equal-times-from-different-shards-or-replicas"), (dups, "cases:duplicated-updates"), (covered > 0, "cases:segments-covered-by-checkpoint"), (unsynced, "cases:unsynced-wal-tail"), (lay.no_manifest, "cases:no-manifest"), (c.reps > 1, "cases:repeated-recovery"), (lay.chk.is_some(), "cases:with-checkpoint")] {
        if on {
            rep.count(name);
        }
    }
    c.ups.iter().for_each(|u| rep.count(&format!("updates:{}", u.value.crdt_type())));
    rep.max("updates_per_set", c.ups.len() as u64);
    for entry in ENTRIES {
        rep.evaluations += 1;
        if !order_independent(&c.ups, &lay.expected(entry)) {
            rep.count("sets:skipped-merge-order-dependent(C07)");
            continue;
        }
        rep.count(&format!("entry:{}", entry));
        rep.count(&format!("space:{}", space));
        rep.distinct(&(shape, stamp_class, entry));
        if let Some(f) = run_entry(c, &img, entry).await {
            rep.count(&format!("fail:{}", &f.sig[4..]));
            if rep.has_sig(&f.sig) {
                rep.count("violations_raw");
                continue;
            }
            let (sc, sf) = shrink(c, entry, &f.sig).await;
            let (wc, wf) = match sf { Some(sf) if sf.sig == f.sig => (sc, sf), _ => (c.clone(), f) };
            rep.violation(wf.sig.clone(), format!("{} ({} updates after shrinking)", wf.detail, wc.ups.len()), witness11(&wc, entry, &wf));
        }
    }
    if rep.samples.len() < 4 && c.ups.len() >= 3 && (space == "exhaustive-3" || lay.chk.is_some() && !lay.segs.is_empty() && !lay.wals.is_empty()) {
        rep.sample(json!({"space": space, "updates": c.ups.iter().map(brief).collect::<Vec<_>>(), "layout": lay, "reps": c.reps,
            "expected_updates": {"recover": lay.expected("recover"), "recover_with_wal": lay.expected("recover_with_wal")}}));
    }
}

async fn validate_stores(rep: &mut Report, rng: &mut Rng, n: u64) {
    for _ in 0..n {
        let results = [validate_obj(rng).await, validate_wal(rng), validate_faults(rng).await];
        for (name, r) in ["object", "wal", "fault-plan"].iter().zip(results) {
            match r {
                Ok(ops) => {
                    rep.count(&format!("store-validation:{}:sequences-equivalent", name));
                    rep.add("store-validation:ops", ops);
                }
                Err(e) => {
                    rep.count("store-validation:MISMATCH");
                    rep.inconclusive(format!("harness store differs from the repo's in-memory store: {}", e));
                    return;
                }
            }
        }
    }
}

pub fn recover_leg(args: &Args) {
    let mut rep = Report::new("C11", "recover");
    let rt = rt();
    if let Some(path) = &args.replay {
        let w: Value = serde_json::from_str(&std::fs::read_to_string(path).expect("replay file")).expect("json");
        let w = &w["witness"];
        let entry = w["entry"].as_str().unwrap_or("recover").to_string();
        rep.evaluations += 1;
        if let Some(c) = big_recipe(w) {
            // a large-WAL-entry case is rebuilt from its recipe
            match guard(|| rt.block_on(find(&c, &entry))) {
                Ok(Some(f)) => {
                    let f = big_finding(f);
                    rep.violation(f.sig.clone(), f.detail.clone(), witness_big(&c, &w["recipe"], &entry, &f))
                }
                Ok(None) => {}
                Err(p) => rep.violation(format!("C11|{}|panic|{}", entry, panic_class(&p)), p, w.clone()),
            }
            rep.finish(args);
            return;
        }
        let c = Case {
            ups: w["updates"].as_array().expect("updates").iter().map(|s| dec(s.as_str().unwrap_or(""))).collect(),
            lay: serde_json::from_value(w["layout"].clone()).expect("layout"),
            reps: w["reps"].as_u64().unwrap_or(1) as usize,
        };
        if let Ok(rf) = serde_json::from_value::<ReadFault>(w["read_fault"].clone()) {
            // a damaged-read case: the same image, the same damaged get
            match guard(|| rt.block_on(async { fault_check(&c, &build_image(&c).await.expect("image"), &entry, &rf).await })) {
                Ok(FaultOutcome::Bad(_, f)) => rep.violation(f.sig.clone(), f.detail.clone(), witness_fault(&c, &entry, &rf, &f)),
                Ok(_) => {}
                Err(p) => {
                    // which object the damaged get reads: from the gets of the fault-free recovery
                    let obj = rt.block_on(async {
                        let io = Io::from_image(build_image(&c).await.unwrap_or_default());
                        let _ = recover_fold("recover", &io).await;
                        io.gets().get(rf.get).map_or("?", |g| object_class(&g.0))
                    });
                    rep.violation(format!("C11|{}|panic-after-damaged-read|fault={},object={}|{}", entry, rf.kind, obj, panic_class(&p)), p, w.clone())
                }
            }
            rep.finish(args);
            return;
        }
        match guard(|| rt.block_on(find(&c, &entry))) {
            Ok(Some(f)) => rep.violation(f.sig.clone(), f.detail.clone(), witness11(&c, &entry, &f)),
            Ok(None) => {}
            Err(p) => rep.violation(format!("C11|{}|panic|{}", entry, panic_class(&p)), p, w.clone()),
        }
        rep.finish(args);
        return;
    }
    let mut rng = args.rng(11);
    let t = args.thorough();
    let n_rand = args.get_u64("cases", if t { 30000 } else { 6000 });
    let n_small = args.get_u64("small-sets", if t { 12 } else { 4 });
    rt.block_on(validate_stores(&mut rep, &mut rng, args.get_u64("store-sequences", 300)));
    if !rt.block_on(check_shard_map(&KEYS.iter().map(|k| k.to_string()).collect::<Vec<_>>())) {
        rep.inconclusive("the harness's key -> shard map differs from the node's");
    }
    let run = |rep: &mut Report, c: Case, space: &str| {
        if let Err(p) = guard(|| rt.block_on(do_case(rep, &c, space))) {
            let sig = format!("C11|recovery|panic|{}", panic_class(&p));
            rep.violation(sig, p, json!({"updates": c.ups.iter().map(enc).collect::<Vec<_>>(), "layout": c.lay, "reps": c.reps, "entry": "server-replay"}));
        }
    };
    // the new dimensions draw from their own stream: the plain cases below are the same as before they existed
    let mut rng2 = args.rng(1111);
    let sweep_every = args.get_u64("read-fault-every", if t { 3 } else { 8 }).max(1);
    let mut sweeps: Vec<Case> = vec![];
    for i in 0..n_rand {
        let ups = grow(&mut rng);
        if ups.is_empty() {
            continue;
        }
        let c = Case { lay: gen_layout(&mut rng, ups.len()), reps: rng.gen_range(1..=3), ups };
        if i % sweep_every == 0 && !c.lay.no_manifest {
            sweeps.push(c.clone());
        }
        run(&mut rep, c, "random");
    }
    let mut done = 0;
    while done < n_small {
        let mut ups = grow(&mut rng);
        if ups.len() < 3 {
            continue;
        }
        ups.truncate(3);
        done += 1;
        for (i, lay) in small_space(3).into_iter().enumerate() {
            let c = Case { ups: ups.clone(), lay, reps: 1 + (done % 2) as usize };
            if (i as u64 + done) % (2 * sweep_every) == 0 {
                sweeps.push(c.clone());
            }
            run(&mut rep, c, "exhaustive-3");
        }
    }
    let plain_evaluations = rep.evaluations;
    // read faults: every get of the recovery damaged once, on a stride of the images above
    // `--manifest-bit-flips 0` leaves out one class: one flipped bit in the bytes of manifest.json (the manifest carries
    // no checksum, see the finding `..|fault=bit-flip,object=manifest`); everything else is unaffected by the switch
    let manifest_flips = args.get_u64("manifest-bit-flips", 1) != 0;
    for c in &sweeps {
        sweep_case(&mut rep, &rt, c, &mut rng2, t, manifest_flips);
    }
    if !manifest_flips {
        rep.note("bit flips in reads of manifest.json were left out on request (--manifest-bit-flips 0)");
    }
    // WAL entries above 1 MiB followed by more entries in the same file
    let jitter = rng2.gen_range(0..4096usize);
    let mut specs: Vec<(&str, usize, Vec<usize>)> = vec![("string", MIB + MIB / 5 + jitter, vec![0, 1, 3]), ("string", 3 * MIB + jitter, vec![1, 2]), ("hash", 40_000 + jitter % 512, vec![0, 3]), ("string", MIB - 4096 - jitter, vec![1])];
    if t {
        specs.extend([("string", 17 * MIB + jitter, vec![0, 1, 2, 3]), ("string", 5 * MIB / 4, vec![2]), ("hash", 40_000, vec![1, 2]), ("hash", 120_000, vec![0, 1])]);
        specs.extend((0..8).map(|i| ("string", MIB - 128 + 32 * i, vec![i % 4]))); // serialized sizes on both sides of 1 MiB
    }
    for (n, (kind, size, layouts)) in specs.into_iter().enumerate() {
        for layout in layouts {
            let recipe = json!({"kind": kind, "size": size, "layout": layout});
            let c = big_case(kind, size, layout, 1 + (n + layout) % 2);
            if let Err(p) = guard(|| rt.block_on(do_big_case(&mut rep, &c, &recipe))) {
                rep.violation(format!("C11|recovery|panic|{}|wal-file-holds-an-entry-above-1MiB", panic_class(&p)), p, json!({"recipe": recipe, "reps": c.reps, "entry": "server-replay"}));
            }
        }
    }
    // long histories of one key (one size per shard of the run; all sizes in the thorough tier)
    let sizes = [1500usize, 5000, 9000];
    for (i, n) in sizes.iter().enumerate() {
        if t || i == args.shard % sizes.len() {
            if let Err(p) = guard(|| rt.block_on(do_long_case(&mut rep, *n))) {
                rep.violation(format!("C11|recovery|panic|{}|one-key-written-many-times", panic_class(&p)), p, json!({"long_case": n}));
            }
        }
    }
    let counters = rep.counters.clone();
    let c = |k: &str| counters.get(k).copied().unwrap_or(0);
    let mut missing: Vec<String> = ["cases:remote-stamps-far-ahead", "cases:stamps-not-monotone-in-emission-order", "cases:wal-only-update-below-segment-high-water", "cases:segment-ids-against-min-stamps", "cases:duplicated-updates",
        "cases:segments-covered-by-checkpoint", "cases:unsynced-wal-tail", "cases:repeated-recovery", "cases:equal-times-from-different-shards-or-replicas", "space:exhaustive-3"].iter().filter(|k| c(k) == 0).map(|k| k.to_string()).collect();
    missing.extend(ENTRIES.iter().filter(|e| c(&format!("entry:{}", e)) == 0).map(|e| format!("entry:{}", e)));
    missing.extend(KINDS.iter().filter(|k| c(&format!("updates:{}", k)) == 0).map(|k| format!("updates:{}", k)));
    let skipped = c("sets:skipped-merge-order-dependent(C07)");
    if !missing.is_empty() {
        rep.inconclusive(format!("never observed: {}", missing.join(", ")));
    }
    if skipped * 4 > plain_evaluations {
        rep.inconclusive("more than a quarter of the cases were skipped because their merge is order dependent");
    }
    // the new dimensions: every (fault kind, object) pair reached, through every entry point; large entries of both kinds
    let sum = |prefix: &str| counters.iter().filter(|(k, _)| k.starts_with(prefix)).map(|(_, v)| *v).sum::<u64>();
    let mut unseen: Vec<String> = FAULT_KINDS.iter().flat_map(|k| OBJECTS.iter().map(move |o| format!("read-fault:{}:{}:", k, o))).filter(|p| sum(p) == 0 && (manifest_flips || p != "read-fault:bit-flip:manifest:")).collect();
    unseen.extend(FAULT_ENTRIES.iter().map(|e| format!("read-fault:entry:{}", e)).filter(|k| c(k) == 0));
    unseen.extend(["large:lww:wal-only-entry-above-1MiB", "large:hash:wal-only-entry-above-1MiB", "large:lww:entry-above-1MiB-also-in-a-segment", "cases:wal-entry-above-1MiB-followed-by-entries-in-the-same-file"].iter().filter(|k| c(k) == 0).map(|k| k.to_string()));
    if t && c("cases:wal-entry-above-16MiB") == 0 {
        unseen.push("cases:wal-entry-above-16MiB".into());
    }
    if !unseen.is_empty() {
        rep.inconclusive(format!("never observed: {}", unseen.join(", ")));
    }
    if sum("read-fault:io-error:") > 0 && sum("read-fault:") > 0 && FAULT_KINDS.iter().all(|k| OBJECTS.iter().all(|o| c(&format!("read-fault:{}:{}:recovery-failed", k, o)) == 0)) {
        rep.inconclusive("no damaged read ever made a recovery fail: the read faults do not reach the recovery code");
    }
    rep.note("read faults: on a stride of the images every object get of the fault-free recovery is damaged once (I/O error; truncated; one bit flipped) and recover / recover_with_progress / recover_with_wal must return Err or exactly the merge; large entries: one update above 1 MiB persisted in a WAL file with further entries behind it");
    rep.note("one case = one update set spread over one persistent image, recovered through one entry point 1-3 times; the sub-space of 3-update sets over {checkpoint, 2 segments, WAL} x id order x last_segment_id is enumerated completely per set, the rest is sampled");
    rep.finish(args);
}

// ---------------------------------------------------------------- C08: histories

#[derive(Clone, Debug, Serialize, Deserialize, PartialEq)]
enum HOp {
    Nop,
    Set { k: String, v: String, ex: Option<i64> },
    Del { k: String },
    Incr { k: String },
    HSet { k: String, f: String, v: String },
    HDel { k: String, f: String },
    HIncr { k: String, f: String, by: i64 },
    /// FLUSHALL (all = true) or FLUSHDB: every shard drops its keys; no delta is emitted
    Flush { all: bool },
    /// a delta from peer `rid` stamped `time` (built by a real `ShardReplicaState` of that peer); v = None is a deletion
    Remote { k: String, f: Option<String>, rid: u64, time: u64, v: Option<String> },
}

/// Crash after a phase: which recovery sources exist (bit 0 checkpoint, 1 segments, 2 WAL) and how they are cut.
#[derive(Clone, Debug, Serialize, Deserialize, PartialEq)]
struct Crash {
    mask: u8,
    chk_after: usize, // the checkpoint is the snapshot taken after this many ops of the phase
    seg_chunks: usize,
    wal_files: usize,
    path: String, // "server" (StreamingIntegration::recover + WAL replay) | "manager" (RecoveryManager::recover_with_wal)
}

#[derive(Clone, Debug, Serialize, Deserialize, PartialEq)]
struct Hist {
    causal: bool,
    phases: Vec<Vec<HOp>>,
    crashes: Vec<Crash>, // one per phase boundary
}

type Slot = (String, Option<String>); // a string key, or one field of a hash key

/// The last acknowledged write of a slot, with what the issuing incarnation knew at that moment.
#[derive(Clone, Debug)]
struct Ack {
    value: Option<Vec<u8>>,
    stamp: Stamp,
    seen: BTreeSet<Stamp>,                        // stamps of this slot the incarnation had observed before
    prior: Option<(Stamp, BTreeSet<&'static str>)>, // greatest stamp it had observed for the key, and through what
}

/// Online monitor: everything the current incarnation has observed (written, received, recovered).
#[derive(Default, Clone)]
struct Mon {
    key: BTreeMap<String, BTreeMap<Stamp, BTreeSet<&'static str>>>,
    slot: BTreeMap<Slot, BTreeSet<Stamp>>,
    kind: BTreeMap<String, (Stamp, &'static str)>,          // CRDT kind of the highest-stamped observation of the key
    shard: BTreeMap<usize, (Stamp, String, &'static str)>, // highest stamp observed in a shard: (stamp, key, via)
}

fn st_of(l: &LwwRegister<SDS>) -> Stamp {
    (l.timestamp.time, l.timestamp.replica_id.0)
}

fn slots_of(key: &str, v: &ReplicatedValue) -> Vec<(Slot, Stamp, Option<Vec<u8>>)> {
    let val = |l: &LwwRegister<SDS>| l.get().map(|s| s.as_bytes().to_vec());
    match &v.crdt {
        CrdtValue::Lww(l) => vec![((key.to_string(), None), st_of(l), val(l))],
        CrdtValue::Hash(h) => h.iter().map(|(f, l)| ((key.to_string(), Some(f.clone())), st_of(l), val(l))).collect(),
        _ => vec![],
    }
}

impl Mon {
    fn observe(&mut self, key: &str, v: &ReplicatedValue, via: &'static str) {
        let outer = (v.timestamp.time, v.timestamp.replica_id.0);
        let top = slots_of(key, v).into_iter().map(|s| s.1).chain([outer]).max().unwrap_or(outer);
        // a stamp is attributed to the way it was first observed (recovery sources count as simultaneous)
        let known = self.key.entry(key.to_string()).or_default().entry(top).or_default();
        if known.is_empty() || via.starts_with("recovered") {
            known.insert(via);
        }
        for (slot, stamp, _) in slots_of(key, v) {
            self.slot.entry(slot).or_default().insert(stamp);
        }
        if self.kind.get(key).map_or(true, |k| top >= k.0) {
            self.kind.insert(key.to_string(), (top, v.crdt_type()));
        }
        if self.shard.get(&shard_of(key)).map_or(true, |s| top > s.0) {
            self.shard.insert(shard_of(key), (top, key.to_string(), via));
        }
    }
    fn max(&self, key: &str) -> Option<(Stamp, BTreeSet<&'static str>)> {
        self.key.get(key).and_then(|m| m.iter().next_back()).map(|(s, v)| (*s, v.clone()))
    }
}

/// Flushes of the running incarnation, and after how many of them the current maximum of each key / shard was observed.
#[derive(Default)]
struct Flushes {
    n: usize,
    key_max_at: BTreeMap<String, usize>,
    shard_max_at: BTreeMap<usize, usize>,
}

impl Flushes {
    fn observe(&mut self, mon: &mut Mon, key: &str, v: &ReplicatedValue, via: &'static str) {
        let before = (mon.max(key).map(|p| p.0), mon.shard.get(&shard_of(key)).map(|s| s.0));
        mon.observe(key, v, via);
        if mon.max(key).map(|p| p.0) != before.0 {
            self.key_max_at.insert(key.to_string(), self.n);
        }
        if mon.shard.get(&shard_of(key)).map(|s| s.0) != before.1 {
            self.shard_max_at.insert(shard_of(key), self.n);
        }
    }
    /// the maximum of the key / of the shard was observed before the most recent flush (or recovered, and a flush followed)
    fn key_max_is_older(&self, key: &str) -> bool {
        self.n > self.key_max_at.get(key).copied().unwrap_or(0)
    }
    fn shard_max_is_older(&self, shard: usize) -> bool {
        self.n > self.shard_max_at.get(&shard).copied().unwrap_or(0)
    }
}

/// Signature without the context of the write (`|after-flush`, `|type-change=..`): minimisation keeps this part and lets
/// the context go where the flush / the type change turns out not to be needed.
fn base_sig(sig: &str) -> &str {
    let cut = ["|after-flush", "|type-change="].iter().filter_map(|t| sig.find(t)).min().unwrap_or(sig.len());
    &sig[..cut]
}

fn via(p: &Option<(Stamp, BTreeSet<&'static str>)>) -> String {
    p.as_ref().map_or("nothing".to_string(), |(_, v)| v.iter().copied().collect::<Vec<_>>().join("+"))
}

fn remote_delta(k: &str, f: &Option<String>, rid: u64, time: u64, v: &Option<String>, causal: bool) -> ReplicationDelta {
    let mut rs = ShardReplicaState::new(ReplicaId(rid), if causal { ConsistencyLevel::Causal } else { ConsistencyLevel::Eventual });
    let ticks = 1 + v.is_none() as u64; // a deletion is a write followed by a delete
    rs.lamport_clock.time = time.max(ticks) - ticks;
    let first = match f {
        None => rs.record_write(k.to_string(), sds(v.as_deref().unwrap_or("gone")), None),
        Some(f) => rs.record_hash_write(k.to_string(), vec![(f.clone(), sds(v.as_deref().unwrap_or("gone")))]),
    };
    match (v, f) {
        (Some(_), _) => first,
        (None, None) => rs.record_delete(k.to_string()).unwrap_or(first),
        (None, Some(f)) => rs.record_hash_delete(k.to_string(), vec![f.clone()]).unwrap_or(first),
    }
}

async fn serve(st: &ReplicatedShardedState, slot: &Slot) -> Option<Vec<u8>> {
    let r = match &slot.1 {
        None => st.execute(Command::Get(slot.0.clone())).await,
        Some(f) => st.execute(Command::HGet(slot.0.clone(), sds(f))).await,
    };
    match r {
        RespValue::BulkString(b) => b,
        other => Some(format!("!{:?}", other).into_bytes()),
    }
}

struct Inputs {
    img: St,
    crash: Crash,
    view: Mon,
}

/// Persist what the chain produced so far (all its own deltas, and/or a snapshot) in the sources named by the mask.
async fn build_inputs(c: &Crash, locals: &[ReplicationDelta], snap: Option<(HashMap<String, ReplicatedValue>, usize)>) -> Result<Inputs, String> {
    let io = Io::default();
    let (obj, wal) = (PlanObjectStore(io.clone()), PlanWalStore(io.clone()));
    let mut view = Mon::default();
    let (has_c, has_g, has_w) = (c.mask & 1 != 0, c.mask & 2 != 0 && !locals.is_empty(), c.mask & 4 != 0 && !locals.is_empty());
    let covered_upto = snap.as_ref().map_or(0, |s| s.1); // the snapshot reflects the first `covered_upto` own deltas
    let (mut infos, mut last) = (vec![], 0u64);
    if has_g {
        let chunks = c.seg_chunks.clamp(1, locals.len());
        for i in 0..chunks {
            let (lo, hi) = (i * locals.len() / chunks, (i + 1) * locals.len() / chunks);
            let info = put_segment(&obj, i as u64 + 1, &locals[lo..hi].iter().collect::<Vec<_>>()).await?;
            if has_c && hi <= covered_upto {
                last = info.id; // covered by the checkpoint: not listed any more
            } else {
                locals[lo..hi].iter().for_each(|d| view.observe(&d.key, &d.value, "recovered-log"));
                infos.push(info);
            }
        }
    }
    let chk = match snap {
        Some((state, _)) if has_c => {
            state.iter().for_each(|(k, v)| view.observe(k, v, "recovered-checkpoint"));
            Some(put_checkpoint(&obj, state, last).await?)
        }
        _ => None,
    };
    if has_c || has_g {
        put_manifest(&obj, infos, chk).await?;
    }
    if has_w {
        let files = c.wal_files.clamp(1, locals.len());
        for i in 0..files {
            put_wal_file(&wal, &locals[i * locals.len() / files..(i + 1) * locals.len() / files].iter().collect::<Vec<_>>(), usize::MAX)?;
        }
        locals.iter().for_each(|d| view.observe(&d.key, &d.value, "recovered-log"));
    }
    Ok(Inputs { img: io.image(io.calls()), crash: c.clone(), view })
}

/// Recover into `st`; returns what the node was handed (exactly for the manager path, the built inputs for the server path).
async fn recover_node(inp: &Inputs, st: &ReplicatedShardedState) -> Result<Mon, String> {
    let io = Io::from_image(inp.img.clone());
    let (obj, wal) = (PlanObjectStore(io.clone()), PlanWalStore(io));
    let rot = WalRotator::new(wal, 1 << 24).map_err(|e| e.to_string())?;
    if inp.crash.path == "manager" {
        let rs = RecoveryManager::new(obj, PREFIX, NODE).recover_with_wal(&rot).await.map_err(|e| e.to_string())?;
        let mut view = Mon::default();
        rs.checkpoint_state.iter().flatten().for_each(|(k, v)| view.observe(k, v, "recovered-checkpoint"));
        rs.deltas.iter().for_each(|d| view.observe(&d.key, &d.value, "recovered-log"));
        st.apply_recovered_state(rs.checkpoint_state, rs.deltas);
        return Ok(view);
    } else {
        let cfg = StreamingConfig { prefix: PREFIX.to_string(), ..StreamingConfig::test() };
        StreamingIntegration::with_store(Arc::new(obj), cfg, NODE).recover(st).await.map_err(|e| e.to_string())?;
        let deltas: Vec<ReplicationDelta> = rot.recover_all_entries().map_err(|e| e.to_string())?.iter().filter_map(|e| e.to_delta().ok()).collect();
        if !deltas.is_empty() {
            st.apply_recovered_state(None, deltas);
        }
    }
    Ok(inp.view.clone())
}

#[derive(Default)]
struct Stats {
    counters: BTreeMap<String, u64>,
    classes: BTreeSet<(u8, &'static str, String)>,
}

/// Is some peer delta allowed to beat the acknowledged write (stamped higher and unknown to the node when it wrote)?
fn may_lose(ack: &Ack, slot: &Slot, remotes: &[ReplicationDelta]) -> bool {
    // on the keys that change type a peer value of the other type wins the whole key by its stamp
    let other_type_wins = |r: &ReplicationDelta| mixed_key(&slot.0) && r.value.is_hash() != slot.1.is_some() && (r.value.timestamp.time, r.value.timestamp.replica_id.0) > ack.stamp;
    remotes.iter().filter(|r| r.key == slot.0).any(|r| other_type_wins(r))
        || remotes.iter().filter(|r| r.key == slot.0).flat_map(|r| slots_of(&r.key, &r.value)).any(|(s, stamp, _)| &s == slot && stamp > ack.stamp && !ack.seen.contains(&stamp))
}

/// Keys on which the histories mix string and hash commands (SET over a hash, HSET after DEL, ..).
fn mixed_key(k: &str) -> bool {
    k.starts_with('m')
}

async fn check_served(st: &ReplicatedShardedState, site: &str, acks: &BTreeMap<Slot, Ack>, remotes: &[ReplicationDelta], stats: &mut Stats, out: &mut Vec<Finding>) {
    for (slot, ack) in acks {
        if may_lose(ack, slot, remotes) {
            *stats.counters.entry(format!("{}:skipped-unseen-peer-write-may-win", site)).or_default() += 1;
            continue;
        }
        *stats.counters.entry(format!("{}:checked", site)).or_default() += 1;
        let got = serve(st, slot).await;
        if got != ack.value {
            // in a chain that already issued a bad stamp a lost write is a consequence of that: same cause in the signature
            let first = out.iter().find(|f| f.sig.starts_with("C08|execute|")).map(|f| f.sig["C08|execute|".len()..].to_string());
            let why = match first {
                Some(w) => w,
                None if ack.prior.as_ref().map_or(false, |p| p.0 >= ack.stamp) => format!("stamp-not-above-observed|prior-via={}", via(&ack.prior)),
                None => "unexplained".to_string(),
            };
            out.push(Finding {
                sig: format!("C08|{}|acknowledged-write-not-served|{}", site, why),
                detail: format!("{:?}: last acknowledged write (stamp {:?}) is {:?} but {} serves {:?}", slot, ack.stamp, ack.value.as_ref().map(|b| lossy(b)), site, got.as_ref().map(|b| lossy(b))),
                extra: json!({"slot": slot, "ack_stamp": ack.stamp, "prior_observed_stamp": ack.prior.as_ref().map(|p| p.0)}),
            });
        }
    }
}

/// Run a whole incarnation chain with the monitor attached; returns every finding (first per signature matters).
async fn run_hist(h: &Hist, stats: &mut Stats) -> Vec<Finding> {
    let mut out: Vec<Finding> = vec![];
    let (mut locals, mut remotes): (Vec<ReplicationDelta>, Vec<ReplicationDelta>) = (vec![], vec![]);
    let mut acks: BTreeMap<Slot, Ack> = BTreeMap::new();
    let mut pending: Option<Inputs> = None;
    let mut last_phase_from = 0;
    for (pi_, ops) in h.phases.iter().enumerate() {
        let mut st = node(NODE, h.causal);
        let (tx, rx) = delta_sink_channel();
        st.set_delta_sink(tx);
        let mut mon = Mon::default();
        let mut restart: Option<(u8, String, BTreeSet<usize>, BTreeSet<String>)> = None; // mask, path, shards and names of the recovered keys
        if let Some(inp) = pending.take() {
            mon = match recover_node(&inp, &st).await {
                Ok(view) => view,
                Err(e) => {
                    out.push(Finding { sig: format!("C08|recovery|error|{}", panic_class(&e)), detail: e, extra: json!({}) });
                    return out;
                }
            };
            restart = Some((inp.crash.mask, inp.crash.path.clone(), mon.key.keys().map(|k| shard_of(k)).collect(), mon.key.keys().cloned().collect()));
            check_served(&st, "node-read-after-recovery", &acks, &remotes, stats, &mut out).await;
        }
        last_phase_from = locals.len();
        let crash = h.crashes.get(pi_);
        let mut snap = None;
        let mut fresh_keys: BTreeSet<String> = BTreeSet::new();
        // shards whose highest recovered stamp is carried by a hash that came from a checkpoint alone
        let mut hash_top: BTreeSet<usize> = match &restart {
            Some((1, ..)) => mon.shard.iter().filter(|(_, s)| mon.kind.get(&s.1).map_or(false, |k| k.1 == "hash")).map(|(sh, _)| *sh).collect(),
            _ => BTreeSet::new(),
        };
        if !hash_top.is_empty() {
            *stats.counters.entry("restart:checkpoint-only:a-hash-holds-the-highest-stamp-of-its-shard".into()).or_default() += 1;
        }
        // FLUSHALL / FLUSHDB of this incarnation
        let mut fl = Flushes::default();
        for (oi, op) in ops.iter().enumerate() {
            if crash.map_or(false, |c| c.mask & 1 != 0 && c.mask != 1 && c.chk_after == oi) {
                snap = Some((st.snapshot_state().await, locals.len()));
            }
            let cmd = match op {
                HOp::Nop => continue,
                HOp::Remote { k, f, rid, time, v } => {
                    let d = remote_delta(k, f, *rid, *time, v, h.causal);
                    st.apply_remote_deltas(vec![d.clone()]);
                    fl.observe(&mut mon, &d.key, &d.value, "remote");
                    remotes.push(d);
                    *stats.counters.entry(format!("remote-deltas:{}", if *time >= 1 << 40 { "far-future" } else { "near" })).or_default() += 1;
                    continue;
                }
                HOp::Set { k, v, ex: None } => Command::set(k.clone(), sds(v)),
                HOp::Set { k, v, ex: Some(s) } => Command::setex(k.clone(), *s, sds(v)),
                HOp::Del { k } => Command::del(k.clone()),
                HOp::Incr { k } => Command::Incr(k.clone()),
                HOp::HSet { k, f, v } => Command::HSet(k.clone(), vec![(sds(f), sds(v))]),
                HOp::HDel { k, f } => Command::HDel(k.clone(), vec![sds(f)]),
                HOp::HIncr { k, f, by } => Command::HIncrBy(k.clone(), sds(f), *by),
                HOp::Flush { all } => {
                    // acknowledged, but carries no stamp and reaches neither peers nor the log: what the flushed slots
                    // serve afterwards is not a statement about stamps, so their acknowledged writes are forgotten;
                    // everything the node has observed (per key, per shard) stays observed
                    let r = st.execute(if *all { Command::FlushAll } else { Command::FlushDb }).await;
                    if !matches!(r, RespValue::Error(_)) {
                        acks.clear();
                        fl.n += 1;
                        *stats.counters.entry(format!("flush:{}", if *all { "FLUSHALL" } else { "FLUSHDB" })).or_default() += 1;
                    }
                    continue;
                }
            };
            let slot: Slot = match op {
                HOp::HSet { k, f, .. } | HOp::HDel { k, f } | HOp::HIncr { k, f, .. } => (k.clone(), Some(f.clone())),
                _ => (cmd.get_primary_key().unwrap_or("").to_string(), None),
            };
            let reply = st.execute(cmd).await;
            let changed = match (&reply, op) {
                (RespValue::Error(_), _) => false,
                (RespValue::Integer(n), HOp::Del { .. } | HOp::HDel { .. }) => *n > 0,
                _ => true,
            };
            for d in rx.drain() {
                let stamp = (d.value.timestamp.time, d.value.timestamp.replica_id.0);
                let prior = mon.max(&d.key);
                // an acknowledged write must supersede everything this incarnation has seen of the key; a delta emitted
                // for a command that changed nothing may repeat the current stamp but not fall below it
                let bad = prior.as_ref().map_or(false, |p| if changed { stamp <= p.0 } else { stamp < p.0 });
                // the same per shard (one Lamport clock per shard): an acknowledged write never repeats or undercuts a
                // stamp the shard has issued or observed, whatever key carried it
                let shard_prior = mon.shard.get(&shard_of(&d.key)).cloned();
                let bad_shard = !bad && changed && shard_prior.as_ref().map_or(false, |p| stamp <= p.0);
                // context of the write, for the signature (empty for plain histories): the stamp it is compared with was
                // observed before the most recent FLUSHALL / FLUSHDB of this incarnation; the write changes the type of the key
                let prev_kind = mon.kind.get(&d.key).map(|k| k.1);
                let after_flush = if bad_shard { fl.shard_max_is_older(shard_of(&d.key)) } else { fl.key_max_is_older(&d.key) };
                let ctx = format!("{}{}", if after_flush { "|after-flush" } else { "" }, match prev_kind { Some(k) if k != d.value.crdt_type() => format!("|type-change={}->{}", k, d.value.crdt_type()), _ => String::new() });
                if (bad || bad_shard) && out.iter().any(|f| f.sig.starts_with("C08|execute")) {
                    *stats.counters.entry("stamp-violations-after-the-first-of-a-chain(not reported)".into()).or_default() += 1;
                } else if bad {
                    out.push(Finding {
                        sig: format!("C08|execute|stamp-not-above-observed|prior-via={}{}", via(&prior), ctx),
                        detail: format!("key {:?}: {} got stamp {:?} but the node had already observed stamp {:?} for that key (via {})", d.key, if changed { "acknowledged write" } else { "delta of a no-op command" }, stamp, prior.as_ref().unwrap().0, via(&prior)),
                        extra: json!({"key": d.key, "phase": pi_, "issued": stamp, "observed": prior.as_ref().map(|p| p.0)}),
                    });
                } else if bad_shard {
                    let p = shard_prior.as_ref().unwrap();
                    out.push(Finding {
                        sig: format!("C08|execute|stamp-not-above-shard-observed|prior-via={}{}", p.2, ctx),
                        detail: format!("key {:?}: acknowledged write got stamp {:?} but shard {} of the node had already {} stamp {:?} (key {:?}, via {}): stamps of one shard clock never repeat or decrease", d.key, stamp, shard_of(&d.key), if p.2 == "local" { "issued" } else { "observed" }, p.0, p.1, p.2),
                        extra: json!({"key": d.key, "phase": pi_, "issued": stamp, "shard": shard_of(&d.key), "observed": p.0, "observed_key": p.1}),
                    });
                }
                if changed {
                    *stats.counters.entry("acknowledged-writes-checked".into()).or_default() += 1;
                    *stats.counters.entry(format!("writes:{}", match op { HOp::Set { .. } => "SET", HOp::Del { .. } => "DEL", HOp::Incr { .. } => "INCR", HOp::HSet { .. } => "HSET", HOp::HDel { .. } => "HDEL", HOp::HIncr { .. } => "HINCRBY", _ => "other" })).or_default() += 1;
                    if let Some(k) = prev_kind.filter(|k| *k != d.value.crdt_type()) {
                        *stats.counters.entry(format!("type-change:{}->{}", k, d.value.crdt_type())).or_default() += 1;
                    }
                    if fl.n > 0 {
                        let rel = if fl.key_max_is_older(&d.key) && mon.key.contains_key(&d.key) { "key-observed-before-the-flush" } else if fl.shard_max_is_older(shard_of(&d.key)) && shard_prior.is_some() { "shard-stamped-before-the-flush" } else { "other" };
                        *stats.counters.entry(format!("post-flush-write:{}", rel)).or_default() += 1;
                    }
                    if hash_top.remove(&shard_of(&d.key)) {
                        *stats.counters.entry("post-restart-write:in-shard-whose-highest-recovered-stamp-is-a-checkpointed-hash".into()).or_default() += 1;
                    }
                    if let Some((mask, path, shards, known)) = &restart {
                        if fresh_keys.insert(d.key.clone()) {
                            let rel = if known.contains(&d.key) { "same-key" } else if shards.contains(&shard_of(&d.key)) { "other-key-same-shard" } else { "other-shard" };
                            stats.classes.insert((*mask, rel, path.clone()));
                        }
                    }
                    if let Some((_, s, value)) = slots_of(&d.key, &d.value).into_iter().find(|x| x.0 == slot) {
                        acks.insert(slot.clone(), Ack { value, stamp: s, seen: mon.slot.get(&slot).cloned().unwrap_or_default(), prior });
                    }
                    if mixed_key(&d.key) {
                        // a write that replaces the whole value (SET / DEL over a hash, HSET re-creating a hash) supersedes the
                        // acknowledged writes of the slots that are no longer part of the value
                        let live: BTreeSet<Slot> = slots_of(&d.key, &d.value).into_iter().map(|x| x.0).collect();
                        acks.retain(|s, _| s.0 != d.key || live.contains(s));
                    }
                }
                fl.observe(&mut mon, &d.key, &d.value, "local");
                locals.push(d);
            }
        }
        if let Some(c) = crash {
            if c.mask & 1 != 0 && snap.is_none() {
                snap = Some((st.snapshot_state().await, locals.len()));
            }
            match build_inputs(c, &locals, snap).await {
                Ok(inp) => pending = Some(inp),
                Err(e) => {
                    out.push(Finding { sig: "C08|harness|cannot-build-recovery-inputs".into(), detail: e, extra: json!({}) });
                    return out;
                }
            }
        }
    }
    // gossip round: a peer that holds the pre-restart state merges the deltas of the last incarnation
    let peer = node(9, h.causal);
    peer.apply_remote_deltas(remotes.iter().chain(&locals[..last_phase_from]).cloned().collect());
    peer.apply_remote_deltas(locals[last_phase_from..].to_vec());
    check_served(&peer, "peer-read", &acks, &remotes, stats, &mut out).await;
    out
}

/// Keys with a known shard relation: two string keys and a hash key on one shard, a string and a hash key elsewhere.
fn c08_keys() -> Vec<String> {
    // odd candidates carry a Redis-Cluster style {hash tag}: the shard that observes a key (recovery, remote delta) and the
    // shard that stamps the next write of it must be the same one whatever the name looks like
    let name = |prefix: &str, i: usize| if i % 2 == 1 { format!("{}{}{{g{}}}", prefix, i, i) } else { format!("{}{}", prefix, i) };
    let on = |prefix: &str, shard: Option<usize>, not: Option<usize>| (0..800).map(|i| name(prefix, i)).filter(|k| shard.map_or(true, |s| shard_of(k) == s) && Some(shard_of(k)) != not).collect::<Vec<_>>();
    let tagged = |v: &[String]| v.iter().find(|k| k.contains('{')).cloned().expect("a tagged candidate");
    let s = shard_of("s0");
    let same = on("s", Some(s), None);
    let other = on("s", None, Some(s));
    let o = tagged(&other);
    vec![same[0].clone(), tagged(&same), on("h", Some(s), None)[0].clone(), o.clone(), on("h", None, Some(s)).into_iter().find(|k| shard_of(k) != shard_of(&o)).unwrap()]
}

fn gen_hist(rng: &mut Rng, keys: &[String], case: u64) -> Hist {
    let n_phases = if rng.gen_bool(0.3) { 3 } else { 2 };
    let mut phases = vec![];
    for p in 0..n_phases {
        let n = rng.gen_range(if p == 0 { 4 } else { 2 }..=10);
        let ops = (0..n)
            .map(|_| {
                let k = keys[rng.gen_range(0..keys.len())].clone();
                let hash = k.starts_with('h');
                let f = ["f", "g"][rng.gen_range(0..2)].to_string();
                let v = ["1", "2", "x", ""][rng.gen_range(0..4)].to_string();
                if rng.gen_bool(0.35) {
                    let time = match rng.gen_range(0..4) { 0 => rng.gen_range(2..12), 1 => rng.gen_range(100..200), 2 => (1 << 40) + rng.gen_range(0..4), _ => (1 << 60) + rng.gen_range(0..4) };
                    return HOp::Remote { k, f: hash.then_some(f), rid: [2, 3][rng.gen_range(0..2)], time, v: (!rng.gen_bool(0.2)).then_some(v) };
                }
                match (hash, rng.gen_range(0..100)) {
                    (true, 0..=69) => HOp::HSet { k, f, v },
                    (true, _) => HOp::HDel { k, f },
                    (false, 0..=54) => HOp::Set { k, v, ex: if rng.gen_bool(0.2) { Some(100) } else { None } },
                    (false, 55..=74) => HOp::Del { k },
                    _ => HOp::Incr { k },
                }
            })
            .collect::<Vec<_>>();
        phases.push(ops);
    }
    let crashes = (0..n_phases - 1)
        .map(|i| Crash {
            mask: if i == 0 { (case % 7) as u8 + 1 } else { rng.gen_range(1..=7) },
            chk_after: rng.gen_range(0..=phases[i].len() + 2),
            seg_chunks: rng.gen_range(1..=3),
            wal_files: rng.gen_range(1..=2),
            path: ["server", "manager"][rng.gen_range(0..2)].to_string(),
        })
        .collect();
    Hist { causal: rng.gen_bool(0.3), phases, crashes }
}

/// A hot key: 1100-6500 writes of one key (and a few of a shard neighbour) before the crash, so that the recovered log of one
/// shard is far longer than any mailbox, batch or window a node might bound, then a write of the same key after the restart.
fn gen_long_hist(rng: &mut Rng, keys: &[String], case: u64) -> Hist {
    let hot = keys[(case % 2) as usize].clone(); // keys[0], keys[1]: string keys on one shard
    let n = [1100usize, 2600, 6500][rng.gen_range(0..3)];
    let mut p0: Vec<HOp> = (0..n).map(|i| if i % 97 == 96 { HOp::Set { k: keys[1 - (case % 2) as usize].clone(), v: format!("n{}", i), ex: None } } else if i % 5 == 4 { HOp::Incr { k: hot.clone() } } else { HOp::Set { k: hot.clone(), v: format!("{}", i), ex: None } }).collect();
    p0.push(HOp::Set { k: hot.clone(), v: "last-before-crash".into(), ex: None });
    let p1 = vec![HOp::Set { k: hot.clone(), v: "after".into(), ex: None }, HOp::Set { k: keys[3].clone(), v: "elsewhere".into(), ex: None }];
    // recovery from the log alone or with a checkpoint taken early (so that nearly the whole log is replayed on top of it)
    let mask = [2u8, 4, 6, 3, 5, 7][(case % 6) as usize];
    let crash = Crash { mask, chk_after: rng.gen_range(0..40), seg_chunks: rng.gen_range(1..=3), wal_files: rng.gen_range(1..=2), path: ["server", "manager"][rng.gen_range(0..2)].to_string() };
    Hist { causal: false, phases: vec![p0, p1], crashes: vec![crash] }
}

/// Two keys that take string and hash commands alike: one on the shard of the first string keys, one alone on its shard.
fn c08_mixed_keys(keys: &[String]) -> Vec<String> {
    let taken: BTreeSet<usize> = keys.iter().map(|k| shard_of(k)).collect();
    let all: Vec<String> = (0..400).map(|i| format!("m{}", i)).collect();
    let same = all.iter().find(|k| shard_of(k) == shard_of(&keys[0])).expect("a mixed key on the shared shard");
    let alone = all.iter().find(|k| !taken.contains(&shard_of(k))).expect("a mixed key on a free shard");
    vec![same.clone(), alone.clone()]
}

fn crash_of(rng: &mut Rng, mask: u8, phase_len: usize) -> Crash {
    Crash { mask, chk_after: rng.gen_range(0..=phase_len + 2), seg_chunks: rng.gen_range(1..=3), wal_files: rng.gen_range(1..=2), path: ["server", "manager"][rng.gen_range(0..2)].to_string() }
}

/// One random command on `k`: string commands on s-keys, hash commands on h-keys, both on m-keys.
fn local_op(rng: &mut Rng, k: &str) -> HOp {
    let k = k.to_string();
    let f = ["f", "g"][rng.gen_range(0..2)].to_string();
    let v = ["1", "2", "x", ""][rng.gen_range(0..4)].to_string();
    let hash = if mixed_key(&k) { rng.gen_bool(0.5) } else { k.starts_with('h') };
    match (hash, rng.gen_range(0..100)) {
        (true, 0..=54) => HOp::HSet { k, f, v },
        (true, 55..=74) => HOp::HIncr { k, f, by: rng.gen_range(-2..5) },
        (true, _) => HOp::HDel { k, f },
        (false, 0..=54) => HOp::Set { k, v, ex: if rng.gen_bool(0.15) { Some(100) } else { None } },
        (false, 55..=79) => HOp::Del { k },
        _ => HOp::Incr { k },
    }
}

fn remote_op(rng: &mut Rng, k: &str) -> HOp {
    let hash = if mixed_key(k) { rng.gen_bool(0.5) } else { k.starts_with('h') };
    let time = match rng.gen_range(0..4) { 0 => rng.gen_range(2..12), 1 => rng.gen_range(100..200), 2 => (1 << 40) + rng.gen_range(0..4), _ => (1 << 60) + rng.gen_range(0..4) };
    HOp::Remote { k: k.to_string(), f: hash.then(|| ["f", "g"][rng.gen_range(0..2)].to_string()), rid: [2, 3][rng.gen_range(0..2)], time, v: (!rng.gen_bool(0.2)).then(|| ["1", "2", "x"][rng.gen_range(0..3)].to_string()) }
}

/// Histories with FLUSHALL / FLUSHDB between writes: each incarnation writes, flushes once or twice somewhere behind its
/// first writes, and goes on writing the same keys; the earlier deltas are in the log / reach the peer like all others.
fn gen_flush_hist(rng: &mut Rng, keys: &[String], case: u64) -> Hist {
    let n_phases = if rng.gen_bool(0.4) { 3 } else { 2 };
    let few: Vec<&String> = keys.choose_multiple(rng, 3).collect(); // few keys: rewrites of a key across the flush are the point
    let mut phases = vec![];
    for _ in 0..n_phases {
        let n = rng.gen_range(3..=9);
        let mut ops: Vec<HOp> = (0..n).map(|_| { let k = few[rng.gen_range(0..few.len())]; if rng.gen_bool(0.15) { remote_op(rng, k) } else { local_op(rng, k) } }).collect();
        for _ in 0..rng.gen_range(1..=2) {
            ops.insert(rng.gen_range(1..=ops.len() - 1), HOp::Flush { all: rng.gen_bool(0.5) });
        }
        phases.push(ops);
    }
    let crashes = (0..n_phases - 1).map(|i| crash_of(rng, ((case + i as u64) % 7) as u8 + 1, phases[i].len())).collect();
    Hist { causal: rng.gen_bool(0.3), phases, crashes }
}

/// Histories on keys that change type: SET / DEL / INCR and HSET / HINCRBY / HDEL on the same key, local and remote.
fn gen_mixed_hist(rng: &mut Rng, keys: &[String], mixed: &[String], case: u64) -> Hist {
    let n_phases = if rng.gen_bool(0.3) { 3 } else { 2 };
    let mut phases = vec![];
    for p in 0..n_phases {
        let n = rng.gen_range(if p == 0 { 4 } else { 2 }..=10);
        phases.push((0..n).map(|_| {
            let k = if rng.gen_bool(0.75) { &mixed[rng.gen_range(0..mixed.len())] } else { &keys[rng.gen_range(0..keys.len())] };
            if rng.gen_bool(0.2) { remote_op(rng, k) } else { local_op(rng, k) }
        }).collect::<Vec<_>>());
    }
    let crashes = (0..n_phases - 1).map(|i| crash_of(rng, ((case + i as u64) % 7) as u8 + 1, phases[i].len())).collect();
    Hist { causal: rng.gen_bool(0.3), phases, crashes }
}

/// Restart from a checkpoint alone in which a hash carries the highest stamp of its shard, then writes in that shard.
fn gen_chk_hash_hist(rng: &mut Rng, keys: &[String], mixed: &[String]) -> Hist {
    // the hash: alone on its shard (keys[4]), sharing the shard of the string keys (keys[2]), or a key that may change type
    let hk = [&keys[4], &keys[2], &mixed[0], &mixed[1]][rng.gen_range(0..4)].clone();
    let mates: Vec<&String> = keys.iter().chain(mixed).filter(|k| shard_of(k) == shard_of(&hk)).collect();
    let mut first: Vec<HOp> = (0..rng.gen_range(0..5)).map(|_| { let k = mates[rng.gen_range(0..mates.len())]; if rng.gen_bool(0.2) { remote_op(rng, k) } else { local_op(rng, k) } }).collect();
    if mixed_key(&hk) && rng.gen_bool(0.5) {
        first.push(HOp::Del { k: hk.clone() }); // a hash (re-)created behind a tombstone
    }
    for _ in 0..rng.gen_range(1..=4) {
        let f = ["f", "g"][rng.gen_range(0..2)].to_string();
        first.push(match rng.gen_range(0..10) { 0..=5 => HOp::HSet { k: hk.clone(), f, v: ["1", "2", "x"][rng.gen_range(0..3)].to_string() }, 6..=7 => HOp::HIncr { k: hk.clone(), f, by: 1 }, _ => HOp::HSet { k: hk.clone(), f: "f".into(), v: "7".into() } });
    }
    let mut second: Vec<HOp> = vec![];
    let opener = rng.gen_range(0..4);
    for i in 0..rng.gen_range(1..=5) {
        let k = if i == 0 && opener < 3 { &hk } else { mates[rng.gen_range(0..mates.len())] };
        second.push(match (i, opener) {
            (0, 0) => HOp::HSet { k: k.clone(), f: "f".into(), v: "after".into() },
            (0, 1) => HOp::HDel { k: k.clone(), f: "f".into() },
            (0, 2) if mixed_key(k) => HOp::Set { k: k.clone(), v: "after".into(), ex: None },
            _ => local_op(rng, k),
        });
    }
    let mut phases = vec![first, second];
    let mut crashes = vec![Crash { mask: 1, ..crash_of(rng, 1, 0) }];
    if rng.gen_bool(0.3) {
        let mask = rng.gen_range(1..=7);
        crashes.push(crash_of(rng, mask, phases[1].len()));
        phases.push((0..rng.gen_range(1..=4)).map(|_| { let k = mates[rng.gen_range(0..mates.len())]; local_op(rng, k) }).collect());
    }
    Hist { causal: rng.gen_bool(0.3), phases, crashes }
}

/// Hand-written minimal histories of the three classes (they also document what the classes are about).
fn directed_hists(keys: &[String], mixed: &[String]) -> Vec<(&'static str, Hist)> {
    let set = |k: &String, v: &str| HOp::Set { k: k.clone(), v: v.into(), ex: None };
    let hset = |k: &String, f: &str, v: &str| HOp::HSet { k: k.clone(), f: f.into(), v: v.into() };
    let crash = |mask: u8, path: &str| Crash { mask, chk_after: 99, seg_chunks: 1, wal_files: 1, path: path.into() };
    let one = |ops: Vec<HOp>| Hist { causal: false, phases: vec![ops], crashes: vec![] };
    let mut out = vec![];
    for all in [true, false] {
        for k in [&keys[0], &keys[3]] {
            out.push(("flush", one(vec![set(k, "1"), set(k, "2"), set(k, "x"), HOp::Flush { all }, set(k, "after")])));
            out.push(("flush", Hist { causal: false, phases: vec![vec![set(k, "1"), set(k, "2"), HOp::Flush { all }, set(k, "x")], vec![set(k, "after")]], crashes: vec![crash(6, "server")] }));
        }
        for k in [&keys[2], &keys[4]] {
            out.push(("flush", one(vec![hset(k, "f", "1"), hset(k, "g", "2"), hset(k, "f", "x"), HOp::Flush { all }, hset(k, "f", "after")])));
        }
        out.push(("flush", one(vec![set(&keys[0], "1"), set(&keys[1], "2"), set(&keys[0], "x"), HOp::Flush { all }, set(&keys[1], "after")])));
    }
    for m in mixed {
        out.push(("mixed", one(vec![hset(m, "f", "1"), hset(m, "g", "2"), set(m, "string")])));
        out.push(("mixed", one(vec![hset(m, "f", "1"), HOp::HIncr { k: m.clone(), f: "g".into(), by: 3 }, HOp::HDel { k: m.clone(), f: "f".into() }, set(m, "string")])));
        out.push(("mixed", one(vec![set(m, "string"), HOp::Del { k: m.clone() }, hset(m, "f", "1"), set(m, "again"), HOp::Del { k: m.clone() }, hset(m, "g", "2")])));
        out.push(("mixed", Hist { causal: false, phases: vec![vec![hset(m, "f", "1"), hset(m, "f", "2")], vec![set(m, "string")]], crashes: vec![crash(7, "manager")] }));
    }
    // SET over a hash while another key of the shard was stamped in between
    out.push(("mixed", one(vec![hset(&mixed[0], "f", "1"), set(&keys[0], "x"), set(&mixed[0], "string")])));
    for (k, path) in [(&keys[4], "server"), (&keys[4], "manager"), (&keys[2], "server"), (&mixed[1], "manager")] {
        out.push(("checkpointed-hash", Hist { causal: false, phases: vec![vec![hset(k, "f", "1"), hset(k, "g", "2"), hset(k, "f", "3")], vec![hset(k, "f", "after")]], crashes: vec![crash(1, path)] }));
        out.push(("checkpointed-hash", Hist { causal: false, phases: vec![vec![hset(k, "f", "1"), hset(k, "g", "2")], vec![HOp::HDel { k: k.clone(), f: "g".into() }]], crashes: vec![crash(1, path)] }));
    }
    out
}

async fn shrink_hist(h: &Hist, sig: &str) -> Hist {
    let hits = |findings: Vec<Finding>| findings.iter().any(|f| base_sig(&f.sig) == base_sig(sig));
    let mut cur = h.clone();
    if cur.phases.len() == 3 {
        let t = Hist { phases: cur.phases[..2].to_vec(), crashes: cur.crashes[..1].to_vec(), ..cur.clone() };
        if hits(run_hist(&t, &mut Stats::default()).await) {
            cur = t;
        }
    }
    for p in (0..cur.phases.len()).rev() {
        for o in (0..cur.phases[p].len()).rev() {
            let saved = std::mem::replace(&mut cur.phases[p][o], HOp::Nop);
            if saved == HOp::Nop || !hits(run_hist(&cur, &mut Stats::default()).await) {
                cur.phases[p][o] = saved;
            }
        }
    }
    for c in 0..cur.crashes.len() {
        let mut t = cur.clone();
        (t.crashes[c].seg_chunks, t.crashes[c].wal_files) = (1, 1);
        if hits(run_hist(&t, &mut Stats::default()).await) {
            cur = t;
        }
    }
    cur
}

pub fn stamps_leg(args: &Args) {
    let mut rep = Report::new("C08", "stamps");
    let rt = rt();
    if let Some(path) = &args.replay {
        let w: Value = serde_json::from_str(&std::fs::read_to_string(path).expect("replay file")).expect("json");
        let h: Hist = serde_json::from_value(w["witness"]["history"].clone()).expect("history");
        rep.evaluations += 1;
        match guard(|| rt.block_on(run_hist(&h, &mut Stats::default()))) {
            Ok(fs) => fs.into_iter().for_each(|f| rep.violation(f.sig, f.detail, json!({"history": h, "observed": f.extra}))),
            Err(p) => rep.violation(format!("C08|history|panic|{}", panic_class(&p)), p, json!({"history": h})),
        }
        rep.finish(args);
        return;
    }
    let mut rng = args.rng(8);
    let keys = c08_keys();
    rt.block_on(validate_stores(&mut rep, &mut rng, args.get_u64("store-sequences", 100)));
    if !rt.block_on(check_shard_map(&keys)) {
        rep.inconclusive("the harness's key -> shard map differs from the node's");
    }
    let mixed = c08_mixed_keys(&keys);
    if !rt.block_on(check_shard_map(&keys.iter().chain(&mixed).cloned().collect::<Vec<_>>())) {
        rep.inconclusive("the harness's key -> shard map differs from the node's (keys that change type)");
    }
    let n = args.get_u64("histories", if args.thorough() { 20000 } else { 4000 });
    let mut stats = Stats::default();
    // the plain histories first, from their own stream (the same as before the other classes existed), then the new classes
    let mut rng2 = args.rng(81);
    let (n_flush, n_mixed, n_chk) = (args.get_u64("flush-histories", n * 3 / 10), args.get_u64("mixed-histories", n * 3 / 10), args.get_u64("checkpointed-hash-histories", n / 8));
    let directed = directed_hists(&keys, &mixed);
    let mut raw_seen: BTreeSet<String> = BTreeSet::new(); // signatures as found, before minimisation
    let n_long = args.get_u64("long-log-histories", if args.thorough() { 24 } else { 6 });
    let total = n + n_flush + n_mixed + n_chk + directed.len() as u64 + n_long;
    for case in 0..total {
        let (space, h) = if case < n {
            ("plain", gen_hist(&mut rng, &keys, case + args.shard as u64))
        } else if case < n + n_flush {
            ("flush", gen_flush_hist(&mut rng2, &keys, case + args.shard as u64))
        } else if case < n + n_flush + n_mixed {
            ("mixed", gen_mixed_hist(&mut rng2, &keys, &mixed, case + args.shard as u64))
        } else if case < n + n_flush + n_mixed + n_chk {
            ("checkpointed-hash", gen_chk_hash_hist(&mut rng2, &keys, &mixed))
        } else if case < n + n_flush + n_mixed + n_chk + directed.len() as u64 {
            let d = &directed[(case - n - n_flush - n_mixed - n_chk) as usize];
            (d.0, d.1.clone())
        } else {
            ("long-log", gen_long_hist(&mut rng2, &keys, case + args.shard as u64))
        };
        rep.count(&format!("space:{}", space));
        rep.evaluations += 1;
        rep.add("incarnations", h.phases.len() as u64);
        for c in &h.crashes {
            rep.count(&format!("recovery-sources:{}{}{}:{}", if c.mask & 1 != 0 { "C" } else { "" }, if c.mask & 2 != 0 { "G" } else { "" }, if c.mask & 4 != 0 { "W" } else { "" }, c.path));
        }
        let findings = match guard(|| rt.block_on(run_hist(&h, &mut stats))) {
            Ok(f) => f,
            Err(p) => vec![Finding { sig: format!("C08|history|panic|{}", panic_class(&p)), detail: p, extra: json!({}) }],
        };
        for f in findings {
            rep.count(&format!("fail:{}", &f.sig[4..]));
            if rep.has_sig(&f.sig) || !raw_seen.insert(f.sig.clone()) {
                rep.count("violations_raw");
                continue;
            }
            // minimise on the signature without its context; the context reported is the one of the minimised history
            let small = guard(|| rt.block_on(shrink_hist(&h, &f.sig))).unwrap_or_else(|_| h.clone());
            let again = guard(|| rt.block_on(run_hist(&small, &mut Stats::default()))).unwrap_or_default().into_iter().find(|x| base_sig(&x.sig) == base_sig(&f.sig));
            let (wh, wf) = match again { Some(x) => (small, x), None => (h.clone(), f) };
            rep.violation(wf.sig.clone(), wf.detail.clone(), json!({"history": wh, "observed": wf.extra}));
        }
        if case < 3 || [n, n + n_flush, n + n_flush + n_mixed].contains(&case) {
            rep.sample(json!({"space": space, "history": h, "keys_and_shards": keys.iter().chain(&mixed).map(|k| (k.clone(), shard_of(k))).collect::<Vec<_>>()}));
        }
    }
    for (k, v) in &stats.counters {
        rep.add(k, *v);
    }
    for cls in &stats.classes {
        rep.distinct(cls);
        rep.count(&format!("post-restart-write:{}", cls.1));
    }
    let mut missing: Vec<String> = (1..=7u8).flat_map(|m| ["same-key", "other-shard"].map(|r| (m, r))).filter(|(m, r)| !stats.classes.iter().any(|c| c.0 == *m && c.1 == *r)).map(|(m, r)| format!("sources mask {} x {}", m, r)).collect();
    missing.extend(["remote-deltas:far-future", "acknowledged-writes-checked", "peer-read:checked", "node-read-after-recovery:checked"].iter().filter(|k| rep.counters.get(**k).copied().unwrap_or(0) == 0).map(|k| k.to_string()));
    // the classes added later: flushes between writes of one key / one shard, type changes in both directions, hash
    // commands, restarts whose highest recovered stamp of a shard sits in a checkpointed hash
    missing.extend(["flush:FLUSHALL", "flush:FLUSHDB", "post-flush-write:key-observed-before-the-flush", "post-flush-write:shard-stamped-before-the-flush", "type-change:hash->lww", "type-change:lww->hash", "writes:HSET", "writes:HDEL", "writes:HINCRBY",
        "restart:checkpoint-only:a-hash-holds-the-highest-stamp-of-its-shard", "post-restart-write:in-shard-whose-highest-recovered-stamp-is-a-checkpointed-hash"].iter().filter(|k| rep.counters.get(**k).copied().unwrap_or(0) == 0).map(|k| k.to_string()));
    if !missing.is_empty() {
        rep.inconclusive(format!("never observed: {}", missing.join(", ")));
    }
    rep.note("besides the plain histories: histories with FLUSHALL / FLUSHDB between writes (the per-key and per-shard maxima are kept across the flush), histories on keys that change type (SET over a hash, HSET after DEL, HINCRBY), restarts from a checkpoint alone whose highest stamp of a shard is a hash's; every acknowledged write is also checked against the highest stamp its shard has issued or observed");
    rep.note("one case = one incarnation chain of a node (2-3 incarnations, crash = state dropped, recovery from a subset of checkpoint/segments/WAL built from the chain's own deltas); distinct = (recovery sources, relation of the first post-restart write to the recovered keys, recovery path)");
    rep.finish(args);
}
