//! C04 — pipelining: exactly one reply per command, in order, however bytes arrive;
//! malformed frames produce an error reply, never silence / hang / crash.
use crate::common::*;
use crate::conn;
use crate::myresp::{self, Tree};
use rand::seq::SliceRandom;
use rand::Rng as _;
use redis_sim::production::verif_hooks;
use redis_sim::production::{ConnectionConfig, ShardedActorState};
use serde_json::{json, Value};

#[derive(Clone, Debug)]
pub struct Cfg {
    pub shards: usize,
    pub read_size: usize,
    pub min_pipeline: usize,
    pub threshold: usize,
    /// write side of the scripted stream: bytes accepted per poll_write (0 = all) and "every n-th write is Pending once" (0 = never)
    pub wcap: usize,
    pub wpend: usize,
}

impl Cfg {
    fn conn(&self) -> ConnectionConfig {
        ConnectionConfig {
            max_buffer_size: 512 * 1024 * 1024,
            read_buffer_size: self.read_size,
            min_pipeline_buffer: self.min_pipeline,
            batch_threshold: self.threshold,
        }
    }
    fn json(&self) -> Value {
        json!({"shards": self.shards, "read_size": self.read_size, "min_pipeline": self.min_pipeline, "threshold": self.threshold, "wcap": self.wcap, "wpend": self.wpend})
    }
    fn from_json(v: &Value) -> Cfg {
        Cfg {
            shards: v["shards"].as_u64().unwrap_or(1) as usize,
            read_size: v["read_size"].as_u64().unwrap_or(8192) as usize,
            min_pipeline: v["min_pipeline"].as_u64().unwrap_or(60) as usize,
            threshold: v["threshold"].as_u64().unwrap_or(2) as usize,
            wcap: v["wcap"].as_u64().unwrap_or(0) as usize,
            wpend: v["wpend"].as_u64().unwrap_or(0) as usize,
        }
    }
}

#[derive(Debug)]
pub struct RunOut {
    pub out: Vec<u8>,
    pub hang: bool,
    pub died: bool,
}

/// Fresh server, one connection, chunks delivered exactly as given.
pub async fn run_chunks(cfg: &Cfg, chunks: &[Vec<u8>]) -> RunOut {
    let state = ShardedActorState::with_shards(cfg.shards);
    conn::set_default_write_mode(cfg.wcap, cfg.wpend);
    let (ctl, h) = conn::spawn_conn(state, cfg.conn());
    conn::set_default_write_mode(0, 0);
    let mut hang = false;
    // a quarter of the runs (decided by the case itself): the client half-closes right behind its last byte, so the end of
    // the stream is already there when the handler finishes the last read's commands - it still owes every reply
    let eager_eof = !chunks.is_empty() && (chunks.iter().map(|c| c.len()).sum::<usize>() + chunks.len()) % 4 == 0;
    for (i, c) in chunks.iter().enumerate() {
        ctl.send(c);
        if eager_eof && i + 1 == chunks.len() {
            ctl.close();
        }
        if ctl.wait_idle(conn::STEP_BUDGET).await.is_err() {
            hang = true;
            break;
        }
    }
    let out = ctl.take_output();
    ctl.close();
    let mut died = false;
    if !hang {
        let _ = ctl.wait_idle(conn::STEP_BUDGET).await;
        if let Err(e) = h.await {
            died = e.is_panic();
        }
    } else {
        h.abort();
    }
    RunOut { out, hang, died }
}

type Argv = Vec<Vec<u8>>;

fn b(s: &str) -> Vec<u8> {
    s.as_bytes().to_vec()
}

fn case_mix(rng: &mut Rng, name: &str) -> Vec<u8> {
    match rng.gen_range(0..4) {
        0 => name.to_lowercase().into_bytes(),
        1 => name
            .bytes()
            .enumerate()
            .map(|(i, c)| if i % 2 == 0 { c.to_ascii_lowercase() } else { c.to_ascii_uppercase() })
            .collect(),
        _ => name.to_uppercase().into_bytes(),
    }
}

fn gen_key(rng: &mut Rng) -> Vec<u8> {
    let keys: [&[u8]; 8] = [b"a", b"b", b"key:1", b"k2", b"", b"{tag}x", b"long-key-name-0123456789", b"x\r\ny"];
    keys[rng.gen_range(0..keys.len())].to_vec()
}

fn gen_val(rng: &mut Rng) -> Vec<u8> {
    match rng.gen_range(0..8) {
        0 => vec![],
        1 => b("1"),
        2 => b("41"),
        3 => b("v\r\nw"),
        4 => b("$3\r\nabc"),
        5 => (0..rng.gen_range(1..40)).map(|_| rng.gen()).collect(),
        6 => b("*2\r\n$3\r\nGET\r\n$1\r\na\r\n"),
        _ => b("value"),
    }
}

/// deterministic-reply commands only (no TIME/INFO/RANDOMKEY/SPOP/KEYS ordering)
fn gen_cmd(rng: &mut Rng, tok: &mut u32) -> Argv {
    let k = gen_key(rng);
    match rng.gen_range(0..35) {
        // commands that concern every shard: whatever follows them in the same read has to see them finished
        // (KEYS with an exact name: at most one element, so the reply does not depend on hash order, and still every shard is asked)
        30 => vec![b("KEYS"), gen_key(rng)],
        31 => vec![b("DBSIZE")],
        32 => vec![b(["FLUSHALL", "FLUSHDB", "flushall"][rng.gen_range(0..3)])],
        33 => vec![b("keys"), gen_key(rng)],
        // connection-state commands in the middle of a pipeline: whatever they reset, not the bytes that follow them
        34 => vec![b(["RESET", "reset", "UNWATCH", "DISCARD", "EXEC"][rng.gen_range(0..5)])],
        0..=6 => vec![case_mix(rng, "GET"), k],
        7..=12 => vec![case_mix(rng, "SET"), k, gen_val(rng)],
        13 => vec![b("SET"), k, gen_val(rng), b(["NX", "XX", "KEEPTTL"][rng.gen_range(0..3)])],
        14 => vec![b("SET"), k, gen_val(rng), b("EX"), b("100000")],
        15 => vec![b("INCR"), k],
        16 => vec![b("APPEND"), k, gen_val(rng)],
        17 => vec![b("DEL"), k, gen_key(rng)],
        18 => vec![b("EXISTS"), k, gen_key(rng)],
        19 => vec![b("MGET"), k, gen_key(rng), gen_key(rng)],
        20 => vec![b("LPUSH"), k, gen_val(rng), gen_val(rng)],
        21 => vec![b("LRANGE"), k, b("0"), b("-1")],
        22 => vec![b("HSET"), k, b("f"), gen_val(rng)],
        23 => vec![b("TYPE"), k],
        24 => {
            *tok += 1;
            vec![b("ECHO"), format!("tok{}", tok).into_bytes()]
        }
        25 => {
            if rng.gen_bool(0.7) {
                vec![case_mix(rng, "PING")]
            } else {
                // complete frames shorter than any real command (11-12 bytes): unknown one-letter commands
                vec![b(["X", "q", "ZZ"][rng.gen_range(0..3)])]
            }
        }
        26 => vec![b("NOSUCHCMD"), k],
        27 => {
            if rng.gen_bool(0.5) {
                vec![b("GET")]
            } else {
                vec![b("GET"), k, b("extra")]
            }
        }
        28 => vec![b("STRLEN"), k],
        _ => vec![b("MSET"), k, gen_val(rng), gen_key(rng), gen_val(rng)],
    }
}

fn gen_stream(rng: &mut Rng, threshold_hint: usize) -> Vec<Argv> {
    let mut tok = 0;
    let mut cmds = vec![];
    let shape = rng.gen_range(0..6);
    let run_len = match rng.gen_range(0..4) {
        0 => threshold_hint.saturating_sub(1),
        1 => threshold_hint,
        2 => threshold_hint + 1,
        _ => rng.gen_range(0..2 * threshold_hint.max(1) + 2),
    }
    .min(12);
    let run_kind = rng.gen_range(0..3);
    let run: Vec<Argv> = (0..run_len)
        .map(|i| {
            let k = gen_key(rng);
            match run_kind {
                0 => vec![if i % 3 == 2 { b("get") } else { b("GET") }, k],
                1 => vec![if i % 3 == 2 { b("set") } else { b("SET") }, k, gen_val(rng)],
                _ => {
                    if i % 2 == 0 {
                        vec![b("SET"), k, gen_val(rng)]
                    } else {
                        vec![b("GET"), k]
                    }
                }
            }
        })
        .collect();
    let pre = rng.gen_range(0..4);
    let post = rng.gen_range(0..4);
    match shape {
        0 => cmds.extend(run),
        1 => {
            for _ in 0..pre {
                cmds.push(gen_cmd(rng, &mut tok));
            }
            cmds.extend(run);
        }
        2 => {
            cmds.extend(run);
            for _ in 0..post {
                cmds.push(gen_cmd(rng, &mut tok));
            }
        }
        3 => {
            for _ in 0..pre {
                cmds.push(gen_cmd(rng, &mut tok));
            }
            cmds.extend(run);
            for _ in 0..post {
                cmds.push(gen_cmd(rng, &mut tok));
            }
        }
        _ => {
            for _ in 0..rng.gen_range(1..10) {
                cmds.push(gen_cmd(rng, &mut tok));
            }
        }
    }
    if cmds.is_empty() {
        cmds.push(vec![b("PING")]);
    }
    cmds
}

fn split_at(stream: &[u8], points: &[usize]) -> Vec<Vec<u8>> {
    let mut out = vec![];
    let mut prev = 0;
    for &p in points {
        if p > prev && p < stream.len() {
            out.push(stream[prev..p].to_vec());
            prev = p;
        }
    }
    out.push(stream[prev..].to_vec());
    out
}

fn cmd_name(a: &Argv) -> String {
    let n = String::from_utf8_lossy(&a[0]).to_uppercase();
    if a.len() >= 4 && n == "SET" {
        return "SET+opts".into();
    }
    n
}

fn seg_class(points: &[usize], bounds: &[usize], len: usize) -> &'static str {
    if points.is_empty() {
        return "whole";
    }
    if points.len() + 1 >= len {
        return "bytewise";
    }
    if points.iter().all(|p| bounds.contains(p)) {
        "at-frame-boundaries"
    } else {
        "inside-frame"
    }
}

struct Judge<'a> {
    rep: &'a mut Report,
}

impl<'a> Judge<'a> {
    /// Compare a pipelined run against the one-at-a-time twin; returns true when equal.
    fn compare(&mut self, cmds: &[Argv], expect: &[Tree], got: &RunOut, cfg: &Cfg, points: &[usize], bounds: &[usize], stream_len: usize) -> bool {
        let seg = seg_class(points, bounds, stream_len);
        let wit = json!({"argv": cmds.iter().map(|a| a.iter().map(|x| lossy(x)).collect::<Vec<_>>()).collect::<Vec<_>>(),
            "cfg": cfg.json(), "points": points});
        let shards = if cfg.shards == 1 { "1" } else { "N" };
        if got.died {
            self.rep.violation(format!("C04|crash|{}", seg), "connection task panicked", wit);
            return false;
        }
        if got.hang {
            self.rep.violation(format!("C04|hang|{}", seg), "handler never returned to reading", wit);
            return false;
        }
        let (trees, tail_err) = match myresp::decode_all(&got.out) {
            Ok(t) => (t, None),
            Err((t, why)) => (t, Some(why)),
        };
        // KEYS lists in hash order, which differs between two server instances: compared as a multiset
        let norm = |i: usize, t: &Tree| -> Tree {
            match t {
                Tree::Arr(Some(v)) if cmd_name(&cmds[i]).eq_ignore_ascii_case("KEYS") => {
                    let mut w = v.clone();
                    w.sort_by_key(|x| format!("{:?}", x));
                    Tree::Arr(Some(w))
                }
                other => other.clone(),
            }
        };
        let trees: Vec<Tree> = trees.iter().enumerate().map(|(i, t)| if i < cmds.len() { norm(i, t) } else { t.clone() }).collect();
        let expect: Vec<Tree> = expect.iter().enumerate().map(|(i, t)| norm(i, t)).collect();
        for (i, e) in expect.iter().enumerate() {
            match trees.get(i) {
                None => {
                    self.rep.violation(
                        format!("C04|missing-reply|cmd={}|seg={}|shards={}", cmd_name(&cmds[i]), seg, shards),
                        format!("{} commands sent, {} replies decoded; first missing is for command #{} (twin reply {:?})", cmds.len(), trees.len(), i, e),
                        wit,
                    );
                    return false;
                }
                Some(t) if t != e => {
                    let later = trees.iter().skip(i + 1).any(|x| x == e);
                    self.rep.violation(
                        format!("C04|{}|cmd={}|seg={}|shards={}", if later { "out-of-order" } else { "reply-differs" }, cmd_name(&cmds[i]), seg, shards),
                        format!("command #{}: pipelined reply {:?}, one-at-a-time reply {:?}", i, t, e),
                        wit,
                    );
                    return false;
                }
                _ => {}
            }
        }
        if trees.len() > expect.len() || tail_err.is_some() {
            self.rep.violation(
                format!("C04|extra-output|seg={}|shards={}", seg, shards),
                format!("{} replies expected, got {} (+ undecodable tail: {:?})", expect.len(), trees.len(), tail_err),
                wit,
            );
            return false;
        }
        true
    }
}

fn configs(rng: &mut Rng) -> Vec<Cfg> {
    let mut v = vec![];
    for &shards in &[1usize, 4] {
        for &(mp, th) in &[(60usize, 2usize), (0, 1), (0, 2), (14, 2), (70, 6), (4096, 2), (0, 64)] {
            let rs = [16usize, 64, 8192][rng.gen_range(0..3)];
            // a third of the runs write to a stream that takes a few bytes per call and sometimes says "not now"
            let (wcap, wpend) = [(0usize, 0usize), (0, 0), (0, 0), (0, 0), (1, 0), (7, 3), (64, 0), (4096, 5)][rng.gen_range(0..8)];
            v.push(Cfg { shards, read_size: rs, min_pipeline: mp, threshold: th, wcap, wpend });
        }
    }
    v
}

pub fn pipeline_leg(args: &Args) {
    let mut rep = Report::new("C04", "pipeline");
    let rt = tokio::runtime::Builder::new_current_thread().enable_all().build().unwrap();
    if let Some(p) = &args.replay {
        let w: Value = serde_json::from_str(&std::fs::read_to_string(p).expect("replay")).expect("json");
        let w = &w["witness"];
        if w.get("malformed").is_some() {
            rt.block_on(replay_malformed(&mut rep, w));
        } else {
            let cmds: Vec<Argv> = w["argv"].as_array().unwrap().iter().map(|a| a.as_array().unwrap().iter().map(|x| unlossy(x.as_str().unwrap())).collect()).collect();
            let cfg = Cfg::from_json(&w["cfg"]);
            let points: Vec<usize> = w["points"].as_array().unwrap().iter().map(|x| x.as_u64().unwrap() as usize).collect();
            rt.block_on(one_stream(&mut rep, &cmds, &cfg, &[points]));
        }
        rep.finish(args);
        return;
    }
    let mut rng = args.rng(40);
    let n = args.get_u64("streams", if args.thorough() { 2500 } else { 220 });
    let hits0 = verif_hooks::site_hits();
    rt.block_on(async {
        for case in 0..n {
            let cfgs = configs(&mut rng);
            let cfg = cfgs[(case as usize) % cfgs.len()].clone();
            let cmds = gen_stream(&mut rng, cfg.threshold);
            let stream: Vec<u8> = cmds.iter().flat_map(|a| myresp::frame_v(a)).collect();
            // segmentations
            let mut segs: Vec<Vec<usize>> = vec![vec![]];
            segs.push((1..stream.len()).collect());
            let mut bounds = vec![];
            let mut off = 0;
            for a in &cmds {
                off += myresp::frame_v(a).len();
                bounds.push(off);
            }
            segs.push(bounds.clone());
            if stream.len() <= 64 {
                for a in 1..stream.len() {
                    segs.push(vec![a]);
                }
                let budget = if args.thorough() { usize::MAX } else { 300 };
                let mut pairs = vec![];
                for a in 1..stream.len() {
                    for c in a + 1..stream.len() {
                        pairs.push(vec![a, c]);
                    }
                }
                if pairs.len() > budget {
                    pairs.shuffle(&mut rng);
                    pairs.truncate(budget);
                } else {
                    rep.count("streams_with_exhaustive_2pt_segmentation");
                }
                segs.extend(pairs);
            } else {
                let m = if args.thorough() { 200 } else { 40 };
                for _ in 0..m {
                    let k = rng.gen_range(1..4);
                    let mut p: Vec<usize> = (0..k).map(|_| rng.gen_range(1..stream.len())).collect();
                    // bias towards frame boundaries +-1
                    if rng.gen_bool(0.5) {
                        let bnd = bounds[rng.gen_range(0..bounds.len())];
                        let d = rng.gen_range(0..5) as isize - 2;
                        let q = (bnd as isize + d).clamp(1, stream.len() as isize - 1) as usize;
                        p.push(q);
                    }
                    p.sort();
                    p.dedup();
                    segs.push(p);
                }
            }
            one_stream(&mut rep, &cmds, &cfg, &segs).await;
            if case < 2 {
                rep.sample(json!({"commands": cmds.iter().map(|a| a.iter().map(|x| lossy(x)).collect::<Vec<_>>()).collect::<Vec<_>>(), "cfg": cfg.json(), "segmentations_tried": segs.len()}));
            }
        }
    });
    // deep pipelines whose replies add up to megabytes (a reply buffer that is flushed or capped part-way
    // must not leave commands of the same read unexecuted): SET a 16-48 KiB value, then 40-120 x (GET, INCR)
    rt.block_on(async {
        let n = if args.thorough() { 6 } else { 2 };
        for i in 0..n {
            let cfgs = configs(&mut rng);
            let cfg = cfgs[(args.shard + i) % cfgs.len()].clone();
            let blob: Vec<u8> = (0..rng.gen_range(16_000..48_000)).map(|j| b'a' + (j % 23) as u8).collect();
            let mut cmds: Vec<Argv> = vec![vec![b("SET"), b("blob"), blob]];
            for _ in 0..rng.gen_range(40..120) {
                cmds.push(vec![b("GET"), b("blob")]);
                cmds.push(vec![b("INCR"), b("ctr")]);
            }
            cmds.push(vec![b("ECHO"), b("end-of-deep-pipeline")]);
            let len: usize = cmds.iter().map(|a| myresp::frame_v(a).len()).sum();
            let segs: Vec<Vec<usize>> = vec![vec![], vec![len / 2], vec![rng.gen_range(1..len), rng.gen_range(1..len)].into_iter().collect::<std::collections::BTreeSet<_>>().into_iter().collect()];
            rep.count("deep_pipelines_with_megabyte_replies");
            rep.max("deep_pipeline_reply_bytes", (cmds.len() / 2 * 48_000 / 2) as u64);
            one_stream(&mut rep, &cmds, &cfg, &segs).await;
        }
    });
    let hits1 = verif_hooks::site_hits();
    rep.add("h2_pooled_fast_path_calls", hits1[verif_hooks::SITE_POOLED_SENT] - hits0[verif_hooks::SITE_POOLED_SENT]);
    rep.add("h2_batch_or_fast_calls", hits1[verif_hooks::SITE_FAST_SENT] - hits0[verif_hooks::SITE_FAST_SENT]);
    rep.add("h2_generic_calls", hits1[verif_hooks::SITE_EXEC_SENT] - hits0[verif_hooks::SITE_EXEC_SENT]);
    rep.note("h2_* counters say which internal path served commands; on the pinned tree the connection-level fast path and batch collectors never engage (HEADER_LEN off by one), which is reported, not required");
    rep.finish(args);
}

async fn twin_one_at_a_time(cfg: &Cfg, cmds: &[Argv]) -> Result<Vec<Tree>, String> {
    let state = ShardedActorState::with_shards(cfg.shards);
    let (ctl, h) = conn::spawn_conn(state, cfg.conn());
    let mut expect = vec![];
    for (i, a) in cmds.iter().enumerate() {
        ctl.send(&myresp::frame_v(a));
        if ctl.wait_idle(conn::STEP_BUDGET).await.is_err() {
            h.abort();
            return Err(format!("hang at command #{}", i));
        }
        if ctl.server_closed() {
            return Err(format!("connection died at command #{}", i));
        }
        let out = ctl.take_output();
        match myresp::decode_all(&out) {
            Ok(t) if t.len() == 1 => expect.push(t[0].clone()),
            other => return Err(format!("command #{} sent alone produced {:?}", i, other.map(|t| t.len()))),
        }
    }
    ctl.close();
    let _ = h.await;
    Ok(expect)
}

async fn one_stream(rep: &mut Report, cmds: &[Argv], cfg: &Cfg, segs: &[Vec<usize>]) {
    let stream: Vec<u8> = cmds.iter().flat_map(|a| myresp::frame_v(a)).collect();
    let mut bounds = vec![];
    let mut off = 0;
    for a in cmds {
        off += myresp::frame_v(a).len();
        bounds.push(off);
    }
    let wit0 = json!({"argv": cmds.iter().map(|a| a.iter().map(|x| lossy(x)).collect::<Vec<_>>()).collect::<Vec<_>>(), "cfg": cfg.json(), "points": bounds});
    let expect = match twin_one_at_a_time(cfg, cmds).await {
        Ok(e) => e,
        Err(why) => {
            let kind = if why.starts_with("hang") {
                "hang"
            } else if why.starts_with("connection died") {
                "crash"
            } else {
                "not-one-reply"
            };
            let idx: usize = why.split('#').nth(1).and_then(|s| s.split_whitespace().next()).and_then(|s| s.parse().ok()).unwrap_or(0);
            rep.violation(format!("C04|alone:{}|cmd={}", kind, cmd_name(&cmds[idx.min(cmds.len() - 1)])), why, wit0);
            rep.evaluations += 1;
            return;
        }
    };
    for points in segs {
        let chunks = split_at(&stream, points);
        let got = run_chunks(cfg, &chunks).await;
        rep.evaluations += 1;
        let mut j = Judge { rep };
        let ok = j.compare(cmds, &expect, &got, cfg, points, &bounds, stream.len());
        let gets = cmds.iter().filter(|a| a[0].eq_ignore_ascii_case(b"GET") && a.len() == 2).count().min(8);
        let sets = cmds.iter().filter(|a| a[0].eq_ignore_ascii_case(b"SET") && a.len() == 3).count().min(8);
        rep.distinct(&(gets, sets, (cmds.len() - gets - sets).min(6), seg_class(points, &bounds, stream.len()), cfg.min_pipeline, cfg.threshold, cfg.shards));
        rep.count(&format!("seg:{}", seg_class(points, &bounds, stream.len())));
        if !ok {
            rep.count("diverging_runs");
        }
    }
    rep.add("commands", cmds.len() as u64);
    rep.count("streams");
}

/// (kind, bytes) — each unambiguously a protocol error once fully received
fn malformed_corpus() -> Vec<(&'static str, Vec<u8>)> {
    let mut v = vec![
        ("bad-type-byte", b("!foo\r\n")),
        ("inline-command", b("PING\r\n")),
        ("bulk-len-neg2", b("*1\r\n$-2\r\nPING\r\n")),
        ("bulk-len-plus", b("*1\r\n$+4\r\nPING\r\n")),
        ("bulk-len-u64max", b("*1\r\n$18446744073709551615\r\nPING\r\n")),
        ("bulk-len-nondigit", b("*1\r\n$4x\r\nPING\r\n")),
        ("array-len-neg5", b("*-5\r\n$4\r\nPING\r\n")),
        ("array-len-nondigit", b("*1a\r\n$4\r\nPING\r\n")),
        ("lone-cr-in-bulk-header", b("*1\r\n$4\rPING\r\n")),
        ("lone-cr-in-array-header", b("*1\r$4\r\nPING\r\n")),
        ("element-bad-type", b("*2\r\n$3\r\nGET\r\n!1\r\na\r\n")),
        ("non-array-top-level", b("$4\r\nPING\r\n")),
        ("integer-top-level", b(":1\r\n")),
        ("nested-array-command", b("*1\r\n*1\r\n$4\r\nPING\r\n")),
        ("empty-array", b("*0\r\n")),
        ("null-array", b("*-1\r\n")),
        ("get-with-bad-keylen", b("*2\r\n$3\r\nGET\r\n$-2\r\na\r\n")),
        ("set-with-u64max-vallen", b("*3\r\n$3\r\nSET\r\n$1\r\na\r\n$18446744073709551615\r\nx\r\n")),
        ("get-with-u64max-keylen", b("*2\r\n$3\r\nGET\r\n$18446744073709551615\r\nx\r\n")),
        ("empty-command-name", b("*1\r\n$0\r\n\r\n")),
    ];
    // near-misses of the two frames the connection handler recognises by their first bytes (GET, SET):
    // one structural byte doubled. Short, long enough to pass the pipelining size gate on its own, and
    // repeated (so that a batch collector that accepted them would reach its threshold).
    let k50 = "k".repeat(50);
    let g = |name: &str, klen: &str, key: &str| format!("*2\r\n$3\r\n{}\r\n$${}\r\n{}\r\n", name, klen, key).into_bytes();
    let st = |name: &str, klen: &str, key: &str| format!("*3\r\n$3\r\n{}\r\n$${}\r\n{}\r\n$1\r\nb\r\n", name, klen, key).into_bytes();
    v.push(("get-doubled-dollar", g("GET", "1", "a")));
    v.push(("get-doubled-dollar-long", g("GET", "50", &k50)));
    v.push(("get-doubled-dollar-long-lowercase", g("get", "50", &k50)));
    v.push(("get-doubled-dollar-long-x2", [g("GET", "50", &k50), g("GET", "50", &k50)].concat()));
    v.push(("get-doubled-dollar-u64max", g("GET", "18446744073709551615", "a")));
    v.push(("get-doubled-dollar-u64max-x2", [g("GET", "18446744073709551615", "a"), g("GET", "18446744073709551615", "a")].concat()));
    v.push(("set-doubled-dollar", st("SET", "1", "a")));
    v.push(("set-doubled-dollar-long", st("SET", "50", &k50)));
    v.push(("set-doubled-dollar-long-x2", [st("set", "50", &k50), st("SET", "50", &k50)].concat()));
    v.push(("set-doubled-dollar-u64max-x2", [st("SET", "18446744073709551615", "a"), st("SET", "18446744073709551615", "a")].concat()));
    v.push(("doubled-star", b("**1\r\n$4\r\nPING\r\n")));
    v.push(("doubled-cr-in-bulk-header", b("*1\r\n$4\r\r\nPING\r\n")));
    v.push(("lf-after-array-header", b("*1\r\n\n$4\r\nPING\r\n")));
    v
}

async fn malformed_case(rep: &mut Report, kind: &str, bad: &[u8], prefix: &[Argv], cfg: &Cfg, points: &[usize]) {
    let mut stream: Vec<u8> = prefix.iter().flat_map(|a| myresp::frame_v(a)).collect();
    let plen = stream.len();
    stream.extend_from_slice(bad);
    // a well-formed command after the bad frame: whatever happens to it, the connection must not go silent
    let trailer = myresp::frame(&[b"PING"]);
    let wit = json!({"malformed": kind, "bad": lossy(bad), "prefix": prefix.iter().map(|a| a.iter().map(|x| lossy(x)).collect::<Vec<_>>()).collect::<Vec<_>>(), "cfg": cfg.json(), "points": points});
    let expect = match twin_one_at_a_time(cfg, prefix).await {
        Ok(e) => e,
        Err(_) => return,
    };
    let mut chunks = split_at(&stream, points);
    chunks.push(trailer.clone());
    chunks.push(trailer);
    let got = run_chunks(cfg, &chunks).await;
    rep.evaluations += 1;
    rep.count(&format!("malformed:{}", kind));
    rep.distinct(&("malformed", kind, prefix.len().min(3), points.len().min(3), cfg.shards));
    let _ = plen;
    if got.died {
        rep.violation(format!("C04|malformed|crash|{}", kind), "connection task panicked", wit);
        return;
    }
    if got.hang {
        rep.violation(format!("C04|malformed|hang|{}", kind), "handler never returned to reading", wit);
        return;
    }
    let trees = match myresp::decode_all(&got.out) {
        Ok(t) => t,
        Err((t, _)) => t,
    };
    for (i, e) in expect.iter().enumerate() {
        if trees.get(i) != Some(e) {
            rep.violation(
                format!("C04|malformed|earlier-reply-altered|{}", kind),
                format!("reply #{} to a command preceding the malformed frame: expected {:?}, got {:?}", i, e, trees.get(i)),
                wit,
            );
            return;
        }
    }
    let after = &trees[expect.len().min(trees.len())..];
    if after.is_empty() {
        rep.violation(
            format!("C04|malformed|silence|{}", kind),
            "no reply at all after the malformed frame, although two further PING commands were sent",
            wit,
        );
        return;
    }
    // "*0", "*-1" and a '+' sign in a length are not unambiguous protocol errors: any reply will do,
    // silence / hang / crash are still violations
    let benign = matches!(kind, "empty-array" | "null-array" | "bulk-len-plus");
    if !after.iter().any(myresp::is_error) && !benign {
        rep.violation(
            format!("C04|malformed|no-error-reply|{}", kind),
            format!("replies after the malformed frame contain no error: {:?}", after),
            wit,
        );
    }
}

async fn replay_malformed(rep: &mut Report, w: &Value) {
    let kind = w["malformed"].as_str().unwrap_or("?").to_string();
    let bad = unlossy(w["bad"].as_str().unwrap_or(""));
    let prefix: Vec<Argv> = w["prefix"].as_array().unwrap().iter().map(|a| a.as_array().unwrap().iter().map(|x| unlossy(x.as_str().unwrap())).collect()).collect();
    let cfg = Cfg::from_json(&w["cfg"]);
    let points: Vec<usize> = w["points"].as_array().unwrap().iter().map(|x| x.as_u64().unwrap() as usize).collect();
    let corpus = malformed_corpus();
    let k: &'static str = corpus.iter().find(|(k, _)| *k == kind).map(|(k, _)| *k).unwrap_or("replayed");
    malformed_case(rep, k, &bad, &prefix, &cfg, &points).await;
}

pub fn malformed_leg(args: &Args) {
    let mut rep = Report::new("C04", "malformed");
    let rt = tokio::runtime::Builder::new_current_thread().enable_all().build().unwrap();
    if let Some(p) = &args.replay {
        let w: Value = serde_json::from_str(&std::fs::read_to_string(p).expect("replay")).expect("json");
        rt.block_on(replay_malformed(&mut rep, &w["witness"]));
        rep.finish(args);
        return;
    }
    let mut rng = args.rng(41);
    let rounds = args.get_u64("rounds", if args.thorough() { 40 } else { 4 });
    rt.block_on(async {
        for round in 0..rounds {
            for (i, (kind, bad)) in malformed_corpus().into_iter().enumerate() {
                if (i + round as usize) % args.shards != args.shard {
                    continue;
                }
                let cfgs = configs(&mut rng);
                let cfg = cfgs[rng.gen_range(0..cfgs.len())].clone();
                let mut tok = 0;
                let prefix: Vec<Argv> = (0..rng.gen_range(0..4)).map(|_| gen_cmd(&mut rng, &mut tok)).collect();
                let plen: usize = prefix.iter().map(|a| myresp::frame_v(a).len()).sum();
                let total = plen + bad.len();
                // whole, every single split inside the bad frame, bytewise
                let mut segs: Vec<Vec<usize>> = vec![vec![], (1..total).collect()];
                for p in plen + 1..total {
                    segs.push(vec![p]);
                }
                if plen > 0 {
                    segs.push(vec![plen]);
                }
                for s in segs {
                    malformed_case(&mut rep, kind, &bad, &prefix, &cfg, &s).await;
                }
            }
        }
    });
    rep.sample(json!({"malformed": "lone-cr-in-bulk-header", "bytes": "*1\\r\\n$4\\rPING\\r\\n", "then": "PING, PING"}));
    rep.finish(args);
}

// ---------------------------------------------------------------------------------------------
// Connection reuse: several connections share one small buffer pool (as under the real accept
// loop); some die in the middle of a frame. What a later connection is answered must not depend
// on what an earlier one left behind.

async fn run_conn_on(
    state: &ShardedActorState,
    pool: Option<&std::sync::Arc<redis_sim::production::ConnectionPool>>,
    cmds: &[Argv],
    tail: &[u8],
) -> (Vec<Tree>, bool) {
    let (stream, ctl) = conn::scripted();
    let st = state.clone();
    let h = match pool {
        Some(p) => {
            let p = p.clone();
            tokio::spawn(async move { verif_hooks::run_connection_with_pool(stream, st, ConnectionConfig::default(), p).await })
        }
        None => tokio::spawn(async move { verif_hooks::run_connection(stream, st, ConnectionConfig::default()).await }),
    };
    let mut replies = vec![];
    let mut bad = false;
    for a in cmds {
        ctl.send(&myresp::frame_v(a));
        if ctl.wait_idle(conn::STEP_BUDGET).await.is_err() {
            bad = true;
            break;
        }
        match myresp::decode_all(&ctl.take_output()) {
            Ok(t) => replies.extend(t),
            Err((t, _)) => {
                replies.extend(t);
                bad = true;
            }
        }
    }
    if !tail.is_empty() && !bad {
        ctl.send(tail);
        let _ = ctl.wait_idle(conn::STEP_BUDGET).await;
        if let Ok(t) = myresp::decode_all(&ctl.take_output()) {
            replies.extend(t);
        }
    }
    ctl.close();
    let _ = ctl.wait_idle(conn::STEP_BUDGET).await;
    let _ = h.await;
    (replies, bad)
}

pub fn reuse_leg(args: &Args) {
    let mut rep = Report::new("C04", "reuse");
    let rt = tokio::runtime::Builder::new_current_thread().enable_all().build().unwrap();
    let mut rng = args.rng(42);
    let n = args.get_u64("scenarios", if args.thorough() { 3000 } else { 300 });
    let replay: Option<Value> = args.replay.as_ref().map(|p| serde_json::from_str(&std::fs::read_to_string(p).expect("replay")).expect("json"));
    rt.block_on(async {
        for sc in 0..(if replay.is_some() { 1 } else { n }) {
            // scenario: connections = (complete commands, partial tail)
            let (pool_size, conns): (usize, Vec<(Vec<Argv>, Vec<u8>)>) = if let Some(w) = &replay {
                let w = &w["witness"];
                (
                    w["pool"].as_u64().unwrap_or(1) as usize,
                    w["conns"]
                        .as_array()
                        .unwrap()
                        .iter()
                        .map(|c| {
                            (
                                c["cmds"].as_array().unwrap().iter().map(|a| a.as_array().unwrap().iter().map(|x| unlossy(x.as_str().unwrap())).collect()).collect(),
                                unlossy(c["tail"].as_str().unwrap_or("")),
                            )
                        })
                        .collect(),
                )
            } else {
                let mut tok = 0;
                let k = rng.gen_range(3..9);
                let conns = (0..k)
                    .map(|_| {
                        let cmds: Vec<Argv> = (0..rng.gen_range(0..4)).map(|_| gen_cmd(&mut rng, &mut tok)).collect();
                        let tail = if rng.gen_bool(0.5) {
                            let f = myresp::frame_v(&gen_cmd(&mut rng, &mut tok));
                            let cut = rng.gen_range(1..f.len());
                            f[..cut].to_vec()
                        } else {
                            vec![]
                        };
                        (cmds, tail)
                    })
                    .collect();
                (rng.gen_range(1..4), conns)
            };
            let subject = ShardedActorState::with_shards(2);
            let twin = ShardedActorState::with_shards(2);
            let pool = std::sync::Arc::new(redis_sim::production::ConnectionPool::new(64, pool_size));
            rep.evaluations += 1;
            rep.distinct(&(pool_size, conns.len(), conns.iter().filter(|c| !c.1.is_empty()).count()));
            let wit = json!({"pool": pool_size, "conns": conns.iter().map(|(c, t)| json!({"cmds": c.iter().map(|a| a.iter().map(|x| lossy(x)).collect::<Vec<_>>()).collect::<Vec<_>>(), "tail": lossy(t)})).collect::<Vec<_>>()});
            for (i, (cmds, tail)) in conns.iter().enumerate() {
                let (got, _) = run_conn_on(&subject, Some(&pool), cmds, tail).await;
                let (exp, _) = run_conn_on(&twin, None, cmds, tail).await;
                rep.count("connections");
                if !tail.is_empty() {
                    rep.count("connections_dying_mid_frame");
                }
                // KEYS lists in hash order, which differs between two server instances
                let canon = |v: &Vec<Tree>| -> Vec<Tree> {
                    v.iter()
                        .enumerate()
                        .map(|(j, t)| match t {
                            Tree::Arr(Some(e)) if cmds.get(j).map_or(false, |c| cmd_name(c).eq_ignore_ascii_case("KEYS")) => {
                                let mut w = e.clone();
                                w.sort_by_key(|x| format!("{:?}", x));
                                Tree::Arr(Some(w))
                            }
                            other => other.clone(),
                        })
                        .collect()
                };
                if canon(&got) != canon(&exp) {
                    let earlier_partial = conns[..i].iter().any(|c| !c.1.is_empty());
                    rep.violation(
                        format!("C04|reuse|replies-depend-on-earlier-connection|earlier-died-mid-frame={}", earlier_partial),
                        format!("connection #{} on a shared pool of {} buffers answered {:?}; with private buffers {:?}", i, pool_size, got, exp),
                        wit.clone(),
                    );
                    break;
                }
            }
            if sc < 2 {
                rep.sample(wit);
            }
        }
    });
    rep.finish(args);
}
