//! C18 — anti-entropy: equal digests iff equal states; a digest-driven sync leaves both sides merged.
//!
//! `c18-digest`: pairs of replica states built independently (fresh HashMaps, different insertion /
//! merge orders, via deltas, via an anti-entropy response, in other processes) are compared by the
//! projection pi (what a client, a peer or a digest can see) and by `StateDigest`; the two verdicts
//! must agree in both directions. `c18-sync`: two nodes run digest-driven rounds
//! (`MultiNodeSimulation::run_anti_entropy_sync` or the request/response API) under a per-round key
//! limit; after ceil(N/limit)+2 rounds every key of the initially divergent buckets must equal the
//! merge of the two prior values on both sides.
use crate::common::*;
use rand::seq::SliceRandom;
use rand::Rng as _;
use redis_sim::redis::SDS;
use redis_sim::replication::anti_entropy::{AntiEntropyConfig, AntiEntropyManager, KeyDigest, StateDigest};
use redis_sim::replication::lattice::{GCounter, GSet, LamportClock, LwwRegister, ORSet, PNCounter, ReplicaId, VectorClock};
use redis_sim::replication::state::{CrdtValue, ReplicatedValue, ReplicationDelta, ShardReplicaState};
use redis_sim::replication::ConsistencyLevel;
use redis_sim::simulator::multi_node::MultiNodeSimulation;
use serde::{Deserialize, Serialize};
use serde_json::{json, Value};
use std::collections::{BTreeMap, BTreeSet, HashMap};

// ---------------------------------------------------------------------------------------------
// serialisable recipes for values and states
// ---------------------------------------------------------------------------------------------
#[derive(Clone, Debug, Serialize, Deserialize, PartialEq)]
struct Reg {
    v: Option<String>,
    tomb: bool,
    t: u64,
    r: u64,
}

#[derive(Clone, Debug, Serialize, Deserialize, PartialEq)]
enum Body {
    Lww(Reg),
    Hash(Vec<(String, Reg)>),
    GC(Vec<(u64, u64)>),
    PN(Vec<(u64, u64)>, Vec<(u64, u64)>),
    GSet(Vec<String>),
    /// adds (element, replica) in order (tag = per-replica sequence), then removes
    ORSet(Vec<(String, u64)>, Vec<String>),
}

#[derive(Clone, Debug, Serialize, Deserialize, PartialEq)]
struct VSpec {
    body: Body,
    t: u64,
    r: u64,
    exp: Option<u64>,
    vc: Option<Vec<(u64, u64)>>,
    rf: Option<u8>,
}

/// How a state is built: 0 = insert into HashMap::new(); 1 = pre-sized map, churned, inner maps
/// filled in reverse; 2 = ShardReplicaState::apply_remote_delta per op (repeated keys = merge
/// history); 3 = like 0, then shipped through AntiEntropyManager::handle_sync_request into an
/// empty replica.
#[derive(Clone, Debug, Serialize, Deserialize)]
struct Recipe {
    mode: u8,
    ops: Vec<(String, VSpec)>,
}

type State = HashMap<String, ReplicatedValue>;

fn clock(t: u64, r: u64) -> LamportClock {
    LamportClock { time: t, replica_id: ReplicaId(r) }
}

fn mk_reg(r: &Reg) -> LwwRegister<SDS> {
    LwwRegister { value: r.v.as_ref().map(|s| SDS::from_str(s)), timestamp: clock(r.t, r.r), tombstone: r.tomb }
}

fn ordered<T: Clone>(v: &[T], rev: bool) -> Vec<T> {
    let mut o = v.to_vec();
    if rev {
        o.reverse();
    }
    o
}

fn mk(s: &VSpec, rev: bool) -> ReplicatedValue {
    let gc = |e: &[(u64, u64)]| {
        let mut g = GCounter::new();
        for (r, n) in ordered(e, rev) {
            g.increment_by(ReplicaId(r), n);
        }
        // the second build of a state also carries what an `INCRBY key 0` leaves behind: a slot holding 0 for a replica the
        // first build never mentions. The two counters are equal (GCounter's own PartialEq and every read say so), so the
        // digests must be, and a sync must not keep shipping the key.
        if rev {
            g.increment_by(ReplicaId(7), 0);
        }
        g
    };
    let crdt = match &s.body {
        Body::Lww(r) => CrdtValue::Lww(mk_reg(r)),
        Body::Hash(f) => {
            let mut h = HashMap::new();
            for (name, r) in ordered(f, rev) {
                h.insert(name, mk_reg(&r));
            }
            CrdtValue::Hash(h)
        }
        Body::GC(e) => CrdtValue::GCounter(gc(e)),
        Body::PN(p, n) => {
            let mut c = PNCounter::new();
            for (r, k) in ordered(p, rev) {
                c.increment_by(ReplicaId(r), k);
            }
            for (r, k) in ordered(n, rev) {
                c.decrement_by(ReplicaId(r), k);
            }
            if rev {
                c.increment_by(ReplicaId(7), 0);
                c.decrement_by(ReplicaId(8), 0);
            }
            CrdtValue::PNCounter(c)
        }
        Body::GSet(e) => {
            let mut g = GSet::new();
            for x in ordered(e, rev) {
                g.add(x);
            }
            CrdtValue::GSet(g)
        }
        Body::ORSet(adds, rems) => {
            let mut o = ORSet::new();
            for (x, r) in adds {
                o.add(x.clone(), ReplicaId(*r));
            }
            for x in rems {
                o.remove(x);
            }
            CrdtValue::ORSet(o)
        }
    };
    let vector_clock = s.vc.as_ref().map(|e| {
        let mut vc = VectorClock::new();
        for (r, n) in ordered(e, rev) {
            for _ in 0..n {
                vc.increment(ReplicaId(r));
            }
        }
        vc
    });
    ReplicatedValue { crdt, vector_clock, expiry_ms: s.exp, timestamp: clock(s.t, s.r), replication_factor: s.rf }
}

fn apply_all(ops: &[(String, ReplicatedValue)]) -> State {
    let mut st = ShardReplicaState::new(ReplicaId(9), ConsistencyLevel::Eventual);
    for (k, v) in ops {
        st.apply_remote_delta(ReplicationDelta::new(k.clone(), v.clone(), ReplicaId(7)));
    }
    st.replicated_keys
}

fn build(rc: &Recipe) -> State {
    let vals: Vec<(String, ReplicatedValue)> = rc.ops.iter().map(|(k, s)| (k.clone(), mk(s, rc.mode == 1))).collect();
    match rc.mode {
        1 => {
            let mut m: State = HashMap::with_capacity(4 * vals.len() + 64);
            for i in 0..vals.len().min(40) {
                m.insert(format!("\u{1}churn{}", i), vals[0].1.clone());
            }
            for (k, v) in vals.into_iter().rev() {
                m.insert(k, v);
            }
            m.retain(|k, _| !k.starts_with('\u{1}'));
            m
        }
        2 => apply_all(&vals),
        3 => {
            let src: State = vals.into_iter().collect();
            let cfg = AntiEntropyConfig { max_keys_per_sync: usize::MAX, ..AntiEntropyConfig::default() };
            let mut responder = AntiEntropyManager::new(ReplicaId(1), cfg.clone());
            let mut asker = AntiEntropyManager::new(ReplicaId(2), cfg);
            let empty: State = HashMap::new();
            let d = asker.generate_digest(&empty);
            let req = asker.create_sync_request(ReplicaId(1), d, None, 0);
            let resp = responder.handle_sync_request(req, &src);
            let mut st = ShardReplicaState::new(ReplicaId(2), ConsistencyLevel::Eventual);
            for d in resp.deltas {
                st.apply_remote_delta(d);
            }
            st.replicated_keys
        }
        _ => vals.into_iter().collect(),
    }
}

// ---------------------------------------------------------------------------------------------
// projection pi: component name -> canonical text
// ---------------------------------------------------------------------------------------------
const RIDS: std::ops::RangeInclusive<u64> = 0..=9;
/// components a peer can see but that the property's pi does not list: never judged on their own
const AMBIGUOUS: &[&str] = &["lww-register-stamp"];
/// report order when several components differ
const PRIORITY: &[&str] = &[
    "key-presence", "kind", "outer-stamp-time", "outer-stamp-replica", "lww-value", "hash-fields", "hash-field-stamps",
    "counter-entries", "set-membership", "orset-tags", "expiry", "vector-clock", "rf", "lww-register-stamp",
];

fn canon(v: &Value) -> String {
    match v {
        Value::Object(m) => {
            let mut e: Vec<(String, String)> = m.iter().map(|(k, x)| (k.clone(), canon(x))).collect();
            e.sort();
            format!("{{{}}}", e.iter().map(|(k, x)| format!("{}:{}", k, x)).collect::<Vec<_>>().join(","))
        }
        Value::Array(a) => format!("[{}]", a.iter().map(canon).collect::<Vec<_>>().join(",")),
        o => o.to_string(),
    }
}

fn pi(v: &ReplicatedValue) -> BTreeMap<&'static str, String> {
    let mut m = BTreeMap::new();
    m.insert("kind", v.crdt.type_name().to_string());
    m.insert("outer-stamp-time", v.timestamp.time.to_string());
    m.insert("outer-stamp-replica", v.timestamp.replica_id.0.to_string());
    m.insert("expiry", format!("{:?}", v.expiry_ms));
    m.insert("rf", format!("{:?}", v.replication_factor));
    m.insert(
        "vector-clock",
        match &v.vector_clock {
            None => "none".to_string(),
            Some(vc) => format!("{:?}", RIDS.map(|r| vc.get(&ReplicaId(r))).collect::<Vec<_>>()),
        },
    );
    match &v.crdt {
        CrdtValue::Lww(l) => {
            m.insert("lww-value", format!("{:?} tombstone={}", l.get().map(|s| lossy(s.as_bytes())), l.tombstone));
            m.insert("lww-register-stamp", format!("{}@{}", l.timestamp.time, l.timestamp.replica_id.0));
        }
        CrdtValue::Hash(h) => {
            let live: BTreeMap<&String, String> = h.iter().filter_map(|(f, l)| l.get().map(|x| (f, lossy(x.as_bytes())))).collect();
            let st: BTreeMap<&String, (u64, u64, bool)> = h.iter().map(|(f, l)| (f, (l.timestamp.time, l.timestamp.replica_id.0, l.tombstone))).collect();
            m.insert("hash-fields", format!("{:?}", live));
            m.insert("hash-field-stamps", format!("{:?}", st));
        }
        CrdtValue::GCounter(g) => {
            m.insert("counter-entries", format!("total={} {}", g.value(), canon(&strip_zero_slots(json!(g)))));
        }
        CrdtValue::PNCounter(p) => {
            m.insert("counter-entries", format!("total={} {}", p.value(), canon(&strip_zero_slots(json!(p)))));
        }
        CrdtValue::GSet(g) => {
            m.insert("set-membership", format!("{:?}", g.elements().collect::<BTreeSet<_>>()));
        }
        CrdtValue::ORSet(o) => {
            let els: BTreeSet<&String> = o.elements().collect();
            let tags: BTreeMap<&String, BTreeSet<(u64, u64)>> =
                els.iter().map(|e| (*e, o.get_tags(e).map(|t| t.iter().map(|u| (u.replica_id.0, u.sequence)).collect()).unwrap_or_default())).collect();
            m.insert("set-membership", format!("{:?}", els));
            m.insert("orset-tags", format!("{:?}", tags));
        }
    }
    m
}

/// A per-replica slot holding 0 is the same state as no slot (the counters' own PartialEq, value() and get_replica_count()
/// say so): not an observable.
fn strip_zero_slots(v: Value) -> Value {
    match v {
        Value::Object(m) => Value::Object(m.into_iter().filter(|(_, x)| x.as_u64() != Some(0)).map(|(k, x)| (k, strip_zero_slots(x))).collect()),
        Value::Array(a) => Value::Array(a.into_iter().map(strip_zero_slots).collect()),
        other => other,
    }
}

fn vdiff(a: &ReplicatedValue, b: &ReplicatedValue) -> BTreeSet<&'static str> {
    let (pa, pb) = (pi(a), pi(b));
    let mut d = BTreeSet::new();
    for k in pa.keys().chain(pb.keys()) {
        if pa.get(k) != pb.get(k) {
            d.insert(*k);
        }
    }
    d
}

/// key -> differing components ("key-presence" when only one side has the key)
fn sdiff(a: &State, b: &State) -> BTreeMap<String, BTreeSet<&'static str>> {
    let keys: BTreeSet<&String> = a.keys().chain(b.keys()).collect();
    let mut out = BTreeMap::new();
    for k in keys {
        let d = match (a.get(k), b.get(k)) {
            (Some(x), Some(y)) => vdiff(x, y),
            _ => ["key-presence"].into_iter().collect(),
        };
        if !d.is_empty() {
            out.insert(k.clone(), d);
        }
    }
    out
}

fn first_component(d: &BTreeSet<&'static str>) -> &'static str {
    PRIORITY.iter().find(|c| d.contains(*c)).copied().unwrap_or("?")
}

fn only_ambiguous(d: &BTreeSet<&'static str>) -> bool {
    d.iter().all(|c| AMBIGUOUS.contains(c))
}

// ---------------------------------------------------------------------------------------------
// keys with known buckets, value generators
// ---------------------------------------------------------------------------------------------
fn bucket_of(key: &str, depth: usize) -> usize {
    KeyDigest::new(key, &ReplicatedValue::new(ReplicaId(1))).bucket(depth)
}

/// candidate keys grouped by their depth-8 bucket (deterministic: DefaultHasher has fixed keys)
fn key_pool() -> Vec<Vec<String>> {
    let mut by: Vec<Vec<String>> = vec![vec![]; 256];
    let specials = ["", " ", "k", "user:1", "a\r\nb", "h\u{e9}llo", "{tag}x", "0"];
    for k in specials.iter().map(|s| s.to_string()).chain((0..6000).map(|i| format!("k{}", i))) {
        by[bucket_of(&k, 8)].push(k);
    }
    by
}

/// profile 0: all keys in distinct depth-8 buckets; 1: all in one bucket; 2: two per bucket; 3: random
fn pick_keys(rng: &mut Rng, pool: &[Vec<String>], n: usize, profile: u8) -> Vec<String> {
    let mut buckets: Vec<usize> = (0..256).collect();
    buckets.shuffle(rng);
    let per = match profile {
        0 => 1,
        1 => pool[buckets[0]].len(),
        2 => 2,
        _ => 0,
    };
    let mut out: Vec<String> = vec![];
    if per == 0 {
        let mut all: Vec<&String> = pool.iter().flatten().collect();
        all.shuffle(rng);
        out.extend(all.into_iter().take(n).cloned());
    } else {
        for b in buckets {
            let mut ks = pool[b].clone();
            ks.shuffle(rng);
            for k in ks.into_iter().take(per) {
                if out.len() < n {
                    out.push(k);
                }
            }
        }
    }
    out
}

const WORDS: &[&str] = &["", "a", "b", "x", "y", "0", "1", "v\u{e9}", "a longer value with spaces", "\r\n"];
const FIELDS: &[&str] = &["f", "g", "h", "name", "f:1"];

fn word(rng: &mut Rng) -> String {
    WORDS[rng.gen_range(0..WORDS.len())].to_string()
}

fn gen_reg(rng: &mut Rng) -> Reg {
    let tomb = rng.gen_bool(0.2);
    Reg { v: if tomb { None } else { Some(word(rng)) }, tomb, t: rng.gen_range(1..7), r: rng.gen_range(1..5) }
}

fn gen_entries(rng: &mut Rng) -> Vec<(u64, u64)> {
    let mut rs: Vec<u64> = (1..5).collect();
    rs.shuffle(rng);
    rs.truncate(rng.gen_range(0..4));
    rs.into_iter().map(|r| (r, rng.gen_range(1..5))).collect()
}

fn gen_vspec(rng: &mut Rng) -> VSpec {
    let body = match rng.gen_range(0..10) {
        0..=3 => Body::Lww(gen_reg(rng)),
        4 | 5 => {
            let mut fs: Vec<&str> = FIELDS.to_vec();
            fs.shuffle(rng);
            fs.truncate(rng.gen_range(0..4));
            Body::Hash(fs.into_iter().map(|f| (f.to_string(), gen_reg(rng))).collect())
        }
        6 => Body::GC(gen_entries(rng)),
        7 => Body::PN(gen_entries(rng), gen_entries(rng)),
        8 => {
            let mut e: Vec<String> = (0..rng.gen_range(0..4)).map(|_| word(rng)).collect();
            e.sort();
            e.dedup();
            Body::GSet(e)
        }
        _ => {
            let adds: Vec<(String, u64)> = (0..rng.gen_range(0..5)).map(|_| (word(rng), rng.gen_range(1..4))).collect();
            let rems = if rng.gen_bool(0.3) && !adds.is_empty() { vec![adds[0].0.clone()] } else { vec![] };
            Body::ORSet(adds, rems)
        }
    };
    let (t, r) = match &body {
        // a register written in place carries the outer stamp
        Body::Lww(g) if rng.gen_bool(0.8) => (g.t, g.r),
        _ => (rng.gen_range(1..7), rng.gen_range(1..5)),
    };
    VSpec {
        body,
        t,
        r,
        exp: if rng.gen_bool(0.25) { Some(1000 * rng.gen_range(1..4)) } else { None },
        vc: if rng.gen_bool(0.2) { Some(gen_entries(rng)).filter(|e| !e.is_empty()) } else { None },
        rf: if rng.gen_bool(0.15) { Some(rng.gen_range(1..4)) } else { None },
    }
}

fn kind_of(s: &VSpec) -> &'static str {
    match s.body {
        Body::Lww(_) => "lww",
        Body::Hash(_) => "hash",
        Body::GC(_) => "gcounter",
        Body::PN(..) => "pncounter",
        Body::GSet(_) => "gset",
        Body::ORSet(..) => "orset",
    }
}

// ---------------------------------------------------------------------------------------------
// near-miss pairs: values differing in exactly one observable
// ---------------------------------------------------------------------------------------------
fn near_misses() -> Vec<(&'static str, VSpec, VSpec)> {
    let reg = |v: &str, t, r| Reg { v: Some(v.to_string()), tomb: false, t, r };
    let tomb = |t, r| Reg { v: None, tomb: true, t, r };
    let s = |x: &str| x.to_string();
    let v = |body: Body| VSpec { body, t: 5, r: 1, exp: None, vc: None, rf: None };
    let bases: Vec<Body> = vec![
        Body::Lww(reg("x", 5, 1)),
        Body::Lww(tomb(5, 1)),
        Body::Hash(vec![(s("f"), reg("1", 3, 1)), (s("g"), reg("2", 4, 2))]),
        Body::GC(vec![(1, 3), (2, 1)]),
        Body::PN(vec![(1, 3)], vec![(2, 1)]),
        Body::GSet(vec![s("a"), s("b")]),
        Body::ORSet(vec![(s("a"), 1), (s("b"), 2)], vec![]),
    ];
    let mut out: Vec<(&'static str, VSpec, VSpec)> = vec![];
    for b in &bases {
        let base = v(b.clone());
        let with = |f: &dyn Fn(&mut VSpec)| {
            let mut x = base.clone();
            f(&mut x);
            x
        };
        out.push(("outer-stamp-time", base.clone(), with(&|x| x.t = 6)));
        out.push(("outer-stamp-replica", base.clone(), with(&|x| x.r = 2)));
        out.push(("expiry", base.clone(), with(&|x| x.exp = Some(1000))));
        out.push(("expiry", with(&|x| x.exp = Some(1000)), with(&|x| x.exp = Some(2000))));
        out.push(("vector-clock", base.clone(), with(&|x| x.vc = Some(vec![(1, 1)]))));
        out.push(("vector-clock", with(&|x| x.vc = Some(vec![(1, 1)])), with(&|x| x.vc = Some(vec![(1, 2)]))));
        out.push(("vector-clock", with(&|x| x.vc = Some(vec![(1, 1)])), with(&|x| x.vc = Some(vec![(2, 1)]))));
        out.push(("rf", base.clone(), with(&|x| x.rf = Some(3))));
        out.push(("rf", with(&|x| x.rf = Some(2)), with(&|x| x.rf = Some(3))));
    }
    let p = |name: &'static str, a: Body, b: Body| (name, v(a), v(b));
    out.push(p("lww-value", Body::Lww(reg("x", 5, 1)), Body::Lww(reg("y", 5, 1))));
    out.push(p("lww-value", Body::Lww(reg("x", 5, 1)), Body::Lww(reg("", 5, 1))));
    out.push(p("lww-value", Body::Lww(reg("x", 5, 1)), Body::Lww(reg("xx", 5, 1))));
    out.push(p("lww-value", Body::Lww(reg("x", 5, 1)), Body::Lww(tomb(5, 1))));
    out.push(p("lww-value", Body::Lww(reg("", 5, 1)), Body::Lww(tomb(5, 1))));
    out.push(p("kind", Body::Lww(tomb(5, 1)), Body::Hash(vec![])));
    out.push(p("kind", Body::Lww(reg("x", 5, 1)), Body::GSet(vec![s("x")])));
    out.push(p("kind", Body::GC(vec![(1, 3)]), Body::PN(vec![(1, 3)], vec![])));
    out.push(p("kind", Body::GSet(vec![s("a")]), Body::ORSet(vec![(s("a"), 1)], vec![])));
    out.push(p("kind", Body::Hash(vec![(s("f"), reg("1", 3, 1))]), Body::GC(vec![(1, 1)])));
    let h = |f: Vec<(&str, Reg)>| Body::Hash(f.into_iter().map(|(n, r)| (s(n), r)).collect());
    out.push(p("hash-fields", h(vec![("f", reg("1", 3, 1))]), h(vec![("f", reg("2", 3, 1))])));
    out.push(p("hash-fields", h(vec![("f", reg("1", 3, 1))]), h(vec![("f", reg("1", 3, 1)), ("g", reg("1", 3, 1))])));
    out.push(p("hash-fields", h(vec![]), h(vec![("f", reg("1", 3, 1))])));
    out.push(p("hash-fields", h(vec![("f", reg("1", 3, 1))]), h(vec![("g", reg("1", 3, 1))])));
    out.push(p("hash-field-stamps", h(vec![("f", reg("1", 3, 1))]), h(vec![("f", reg("1", 4, 1))])));
    out.push(p("hash-field-stamps", h(vec![("f", reg("1", 3, 1))]), h(vec![("f", reg("1", 3, 2))])));
    out.push(p("hash-field-stamps", h(vec![("f", tomb(3, 1))]), h(vec![("f", tomb(4, 1))])));
    out.push(p("counter-entries", Body::GC(vec![(1, 3)]), Body::GC(vec![(1, 4)])));
    out.push(p("counter-entries", Body::GC(vec![(1, 3), (2, 1)]), Body::GC(vec![(1, 1), (2, 3)])));
    out.push(p("counter-entries", Body::GC(vec![]), Body::GC(vec![(3, 1)])));
    out.push(p("counter-entries", Body::PN(vec![(1, 3)], vec![(2, 1)]), Body::PN(vec![(1, 4)], vec![(2, 2)])));
    out.push(p("counter-entries", Body::PN(vec![(1, 3)], vec![]), Body::PN(vec![], vec![(1, 3)])));
    out.push(p("set-membership", Body::GSet(vec![s("a")]), Body::GSet(vec![s("a"), s("b")])));
    out.push(p("set-membership", Body::GSet(vec![]), Body::GSet(vec![s("")])));
    out.push(p("set-membership", Body::ORSet(vec![(s("a"), 1)], vec![]), Body::ORSet(vec![(s("a"), 1), (s("b"), 1)], vec![])));
    out.push(p("set-membership", Body::ORSet(vec![(s("a"), 1)], vec![]), Body::ORSet(vec![(s("a"), 1)], vec![s("a")])));
    out.push(p("orset-tags", Body::ORSet(vec![(s("a"), 1)], vec![]), Body::ORSet(vec![(s("a"), 2)], vec![])));
    out.push(p("orset-tags", Body::ORSet(vec![(s("a"), 1)], vec![]), Body::ORSet(vec![(s("a"), 1), (s("a"), 1)], vec![])));
    out.push(p("orset-tags", Body::ORSet(vec![(s("a"), 1)], vec![]), Body::ORSet(vec![(s("b"), 1), (s("a"), 1)], vec![s("b")])));
    out
}

// ---------------------------------------------------------------------------------------------
// c18-digest
// ---------------------------------------------------------------------------------------------
#[derive(Clone, Debug, Serialize, Deserialize)]
struct Case {
    class: String,
    /// for near-miss pairs: the one observable in which the two states differ
    obs: Option<String>,
    depth: usize,
    a: Recipe,
    b: Recipe,
}

fn fingerprint(d: &StateDigest) -> (u64, u64) {
    (d.root_hash, h64(&d.buckets.iter().map(|b| (b.hash, b.count as u64)).collect::<Vec<_>>()))
}

fn occupancy(keys: impl Iterator<Item = impl AsRef<str>>, depth: usize) -> BTreeMap<usize, usize> {
    let mut m = BTreeMap::new();
    for k in keys {
        *m.entry(bucket_of(k.as_ref(), depth)).or_insert(0) += 1;
    }
    m
}

fn occ_class(n: usize) -> &'static str {
    match n {
        0 | 1 => "single",
        _ => "multi",
    }
}

fn gen_content(rng: &mut Rng, pool: &[Vec<String>], n: usize, profile: u8) -> Vec<(String, VSpec)> {
    pick_keys(rng, pool, n, profile).into_iter().map(|k| (k, gen_vspec(rng))).collect()
}

fn shuffled<T: Clone>(rng: &mut Rng, v: &[T]) -> Vec<T> {
    let mut o = v.to_vec();
    o.shuffle(rng);
    o
}

/// Deterministic case stream (same in the parent and in the child processes).
fn for_each_case(args: &Args, f: &mut dyn FnMut(u64, Case)) {
    let pool = key_pool();
    let mut idx: u64 = 0;
    // (n keys, depth, key profile); the 1-key context comes first so that it provides the witness
    let contexts: [(usize, usize, u8); 5] = [(1, 8, 0), (40, 8, 0), (12, 8, 1), (30, 3, 3), (120, 8, 3)];
    let mine = |i: u64| i % args.shards as u64 == args.shard as u64;
    // (1) value near-misses in every context
    for (ci, &(n, depth, profile)) in contexts.iter().enumerate() {
        for (ni, (obs, va, vb)) in near_misses().into_iter().enumerate() {
            idx += 1;
            if !mine(idx) {
                continue;
            }
            let mut rng = rng_from(args.seed, h64(&("c18-nm", ci, ni)));
            let mut ops = gen_content(&mut rng, &pool, n, profile);
            let j = rng.gen_range(0..ops.len());
            ops[j].1 = va;
            let mut ops_b = ops.clone();
            ops_b[j].1 = vb;
            let case = Case {
                class: "near-miss".into(),
                obs: Some(obs.to_string()),
                depth,
                a: Recipe { mode: 0, ops },
                b: Recipe { mode: rng.gen_range(0..4), ops: shuffled(&mut rng, &ops_b) },
            };
            f(idx, case);
        }
    }
    // (2) structural near-misses: key presence, values swapped between two keys
    for (ci, &(n, depth, profile)) in contexts.iter().enumerate().skip(1) {
        for rep in 0..8u32 {
            idx += 1;
            if !mine(idx) {
                continue;
            }
            let mut rng = rng_from(args.seed, h64(&("c18-st", ci, rep)));
            let ops = gen_content(&mut rng, &pool, n, profile);
            let n = ops.len();
            let mut ops_b = ops.clone();
            let obs = if rep % 2 == 0 {
                if rep % 4 == 0 {
                    ops_b.remove(rng.gen_range(0..n));
                } else {
                    // a key present on one side only, holding a value the other side also has
                    let extra = pick_keys(&mut rng, &pool, n + 1, 3).into_iter().find(|k| ops.iter().all(|(o, _)| o != k)).unwrap();
                    ops_b.push((extra, ops[0].1.clone()));
                }
                "key-presence"
            } else {
                // swap the values of two keys, preferably two keys of one bucket
                let occ = occupancy(ops.iter().map(|(k, _)| k), depth);
                let same: Vec<usize> = match occ.iter().find(|(_, &c)| c >= 2) {
                    Some((&b, _)) => (0..n).filter(|&i| bucket_of(&ops[i].0, depth) == b).take(2).collect(),
                    None => vec![0, 1],
                };
                let (i, j) = (same[0], same[1]);
                // the two values differ in something every digest must see
                let lww = |w: &str| VSpec { body: Body::Lww(Reg { v: Some(w.into()), tomb: false, t: 5, r: 1 }), t: 5, r: 1, exp: None, vc: None, rf: None };
                let mut base = ops.clone();
                base[i].1 = lww("left");
                base[j].1 = lww("right");
                ops_b[i].1 = lww("right");
                ops_b[j].1 = lww("left");
                let same_bucket = bucket_of(&ops[i].0, depth) == bucket_of(&ops[j].0, depth);
                let case = Case {
                    class: "near-miss".into(),
                    obs: Some(if same_bucket { "value-swap-same-bucket" } else { "value-swap-cross-bucket" }.to_string()),
                    depth,
                    a: Recipe { mode: 0, ops: base },
                    b: Recipe { mode: 0, ops: ops_b },
                };
                f(idx, case);
                continue;
            };
            f(idx, Case { class: "near-miss".into(), obs: Some(obs.into()), depth, a: Recipe { mode: 0, ops }, b: Recipe { mode: rng.gen_range(0..4), ops: shuffled(&mut rng, &ops_b) } });
        }
    }
    // (3) random pairs (seeded per shard)
    let mut rng = args.rng(181);
    let n_pairs = args.get_u64("cases", if args.thorough() { 20_000 } else { 5_000 });
    for c in 0..n_pairs {
        idx += 1;
        let n = match rng.gen_range(0..12) {
            0 => 1,
            1 => 2,
            2 => 3,
            3..=6 => rng.gen_range(4..20),
            7..=10 => rng.gen_range(20..120),
            _ => rng.gen_range(120..400),
        };
        let profile = rng.gen_range(0..4);
        let depth = [8, 8, 8, 2, 3, 4][rng.gen_range(0..6)];
        let ops = gen_content(&mut rng, &pool, n, profile);
        let n = ops.len();
        let case = match c % 4 {
            0 | 1 => Case {
                class: "same-content".into(),
                obs: None,
                depth,
                a: Recipe { mode: rng.gen_range(0..2), ops: ops.clone() },
                b: Recipe { mode: rng.gen_range(0..4), ops: shuffled(&mut rng, &ops) },
            },
            2 => {
                // every key has 1-3 versions, applied as deltas in two different interleavings
                let mut hist = ops.clone();
                for (k, v) in &ops {
                    for _ in 0..rng.gen_range(0..3) {
                        let other = if rng.gen_bool(0.5) { VSpec { r: rng.gen_range(1..5), ..v.clone() } } else { gen_vspec(&mut rng) };
                        hist.push((k.clone(), other));
                    }
                }
                Case { class: "merge-history".into(), obs: None, depth, a: Recipe { mode: 2, ops: shuffled(&mut rng, &hist) }, b: Recipe { mode: 2, ops: shuffled(&mut rng, &hist) } }
            }
            _ => {
                let mut ops_b = ops.clone();
                for _ in 0..rng.gen_range(1..4) {
                    let j = rng.gen_range(0..n);
                    ops_b[j].1 = gen_vspec(&mut rng);
                }
                Case { class: "random-unequal".into(), obs: None, depth, a: Recipe { mode: 0, ops }, b: Recipe { mode: rng.gen_range(0..4), ops: shuffled(&mut rng, &ops_b) } }
            }
        };
        f(idx, case);
    }
}

/// Restrict both recipes to the given keys.
fn restrict(case: &Case, keep: &dyn Fn(&str) -> bool) -> Case {
    let mut c = case.clone();
    c.a.ops.retain(|(k, _)| keep(k));
    c.b.ops.retain(|(k, _)| keep(k));
    c
}

/// What the oracles say about one pair: (signature, detail) list. `copies` independent builds of B.
fn judge_pair(rep: Option<&mut Report>, case: &Case, copies: usize) -> (Vec<(String, String)>, (u64, u64)) {
    let a = build(&case.a);
    let da = StateDigest::from_state(&a, ReplicaId(1), 0, case.depth);
    let mut out: Vec<(String, String)> = vec![];
    let mut counters: Vec<String> = vec![];
    let occ = occupancy(a.keys(), case.depth);
    let max_occ = occ.values().copied().max().unwrap_or(0);
    let mut diff_class = String::new();
    for copy in 0..copies {
        // copy 0 is B; the following copies alternate fresh builds of B and of A (same recipe twice)
        let (b, what) = if copy % 2 == 0 { (build(&case.b), "A-vs-B") } else { (build(&case.a), "A-vs-A-rebuilt") };
        let db = StateDigest::from_state(&b, ReplicaId(2), 7, case.depth);
        let diff = sdiff(&a, &b);
        let all: BTreeSet<&'static str> = diff.values().flatten().copied().collect();
        let differs = da.differs_from(&db);
        let div = da.divergent_buckets(&db);
        let div2 = db.divergent_buckets(&da);
        if div != div2 || differs != db.differs_from(&da) {
            out.push(("C18|digest|comparison-not-symmetric".into(), format!("a.divergent_buckets(b)={:?} b.divergent_buckets(a)={:?}", div, div2)));
        }
        if diff.is_empty() {
            counters.push(format!("equal_pairs:{}", if what == "A-vs-B" { case.class.as_str() } else { "same-recipe-rebuilt" }));
            counters.push(format!("equal_pairs_max_occupancy:{}", occ_class(max_occ)));
            if differs || !div.is_empty() {
                let o = div.first().map(|b| occ.get(b).copied().unwrap_or(0)).unwrap_or(0);
                let kind = if div.is_empty() { "root-differs-but-no-bucket".to_string() } else { format!("occupancy:{}", occ_class(o)) };
                out.push((
                    format!("C18|digest|false-divergent|{}", kind),
                    format!("{}: pi-equal states ({} keys, depth {}), differs_from={} divergent_buckets={:?} (first holds {} keys)", what, a.len(), case.depth, differs, div, o),
                ));
            }
            if copy == 0 {
                diff_class = "equal".into();
            }
        } else if only_ambiguous(&all) {
            counters.push("pairs_differing_only_in_unlisted_components(not judged)".into());
            if copy == 0 {
                diff_class = "ambiguous".into();
            }
        } else {
            let strict: BTreeSet<&'static str> = all.iter().copied().filter(|c| !AMBIGUOUS.contains(c)).collect();
            let comp = match (&case.obs, what) {
                (Some(o), "A-vs-B") => {
                    let listed = o.starts_with("value-swap") || strict.contains(o.as_str());
                    if !listed || diff.len() > 2 {
                        out.push(("HARNESS|near-miss-not-single-observable".into(), format!("{}: diff {:?}", o, diff)));
                    }
                    o.clone()
                }
                _ => first_component(&strict).to_string(),
            };
            counters.push(format!("unequal_pairs:{}", comp));
            if copy == 0 {
                diff_class = format!("unequal:{}", comp);
            }
            // key level: the bucket of every strictly differing key must be reported divergent
            // (and then the roots differ); a miss is a false "in sync" for that key's observable
            for (k, d) in diff.iter().filter(|(_, d)| !only_ambiguous(d)) {
                let bucket = bucket_of(k, case.depth);
                if differs && div.contains(&bucket) {
                    continue;
                }
                let ds: BTreeSet<&'static str> = d.iter().copied().filter(|c| !AMBIGUOUS.contains(c)).collect();
                let kcomp = if case.obs.is_some() && what == "A-vs-B" { comp.clone() } else { first_component(&ds).to_string() };
                out.push((
                    format!("C18|digest|false-in-sync|{}", kcomp),
                    format!("key {:?} differs in {:?} but differs_from={} and its bucket {} is not in divergent_buckets {:?} ({} keys, depth {})", k, d, differs, bucket, div, a.len(), case.depth),
                ));
            }
            if !differs && !div.is_empty() {
                out.push(("C18|digest|root-equal-but-buckets-differ".into(), format!("divergent_buckets {:?}", div)));
            }
        }
    }
    if let Some(rep) = rep {
        for c in counters {
            rep.count(&c);
        }
        rep.count(&format!("build_mode_b:{}", case.b.mode));
        for n in occ.values() {
            rep.count(&format!("keys_per_occupied_bucket:{}", match n { 1 => "1", 2 => "2", 3..=5 => "3-5", _ => "6+" }));
        }
        rep.max("keys_in_one_bucket", max_occ as u64);
        rep.max("keys", a.len() as u64);
        let kinds: BTreeSet<&str> = case.a.ops.iter().map(|(_, v)| kind_of(v)).collect();
        rep.distinct(&(&case.class, &diff_class, occ_class(max_occ), case.depth, case.b.mode, kinds.len().min(3), a.len().min(3)));
    }
    out.sort();
    out.dedup_by(|x, y| x.0 == y.0);
    (out, fingerprint(&da))
}

/// Smaller case that still shows `sig` (deterministic order of attempts; each attempt uses `copies` builds).
fn shrink_pair(case: &Case, sig: &str, copies: usize) -> Case {
    let shows = |c: &Case| guard(|| judge_pair(None, c, copies).0.iter().any(|(s, _)| s == sig)).unwrap_or(false);
    let mut cur = Case { class: format!("{} (shrunk)", case.class), obs: None, ..case.clone() };
    if !shows(&cur) {
        return case.clone();
    }
    let mut keys: Vec<String> = cur.a.ops.iter().chain(cur.b.ops.iter()).map(|(k, _)| k.clone()).collect::<BTreeSet<_>>().into_iter().collect();
    for chunk in [64usize, 16, 4, 1] {
        let mut i = 0;
        while i < keys.len() && keys.len() > 1 {
            let drop: BTreeSet<&String> = keys.iter().skip(i).take(chunk).collect();
            let cand = restrict(&cur, &|k| !drop.iter().any(|d| d.as_str() == k));
            if !cand.a.ops.is_empty() && shows(&cand) {
                keys.retain(|k| cand.a.ops.iter().chain(cand.b.ops.iter()).any(|(o, _)| o == k));
                cur = cand;
            } else {
                i += chunk;
            }
        }
    }
    cur
}

fn spawn_children(args: &Args, replay: Option<&str>) -> Vec<std::thread::JoinHandle<Option<BTreeMap<u64, (u64, u64)>>>> {
    let exe = std::env::current_exe().expect("current exe");
    (0..2)
        .map(|_| {
            let mut cmd = std::process::Command::new(&exe);
            cmd.arg("c18-digest").args(["--tier", &args.tier, "--seed", &args.seed.to_string(), "--shard", &format!("{}/{}", args.shard, args.shards), "--child", "1"]);
            for (k, v) in &args.extra {
                cmd.arg(format!("--{}", k)).arg(v);
            }
            if let Some(p) = replay {
                cmd.args(["--replay", p]);
            }
            cmd.stdin(std::process::Stdio::null()).stdout(std::process::Stdio::piped()).stderr(std::process::Stdio::null());
            let child = cmd.spawn();
            std::thread::spawn(move || {
                let o = child.ok()?.wait_with_output().ok()?;
                if !o.status.success() {
                    return None;
                }
                let mut m = BTreeMap::new();
                for l in String::from_utf8_lossy(&o.stdout).lines() {
                    let p: Vec<u64> = l.split(' ').filter_map(|x| x.parse().ok()).collect();
                    if p.len() == 3 {
                        m.insert(p[0], (p[1], p[2]));
                    }
                }
                Some(m)
            })
        })
        .collect()
}

pub fn digest_leg(args: &Args) {
    let replay_case: Option<Case> = args.replay.as_ref().map(|p| {
        let w: Value = serde_json::from_str(&std::fs::read_to_string(p).expect("replay file")).expect("json");
        serde_json::from_value(w["witness"]["case"].clone()).expect("witness.case")
    });
    if args.get_str("child").is_some() {
        // child process: print the digest fingerprint of side A of every case, nothing else
        let mut emit = |idx: u64, c: Case| {
            let a = build(&c.a);
            let fp = fingerprint(&StateDigest::from_state(&a, ReplicaId(1), 0, c.depth));
            println!("{} {} {}", idx, fp.0, fp.1);
        };
        match replay_case {
            Some(c) => emit(0, c),
            None => for_each_case(args, &mut emit),
        }
        return;
    }
    let mut rep = Report::new("C18", "digest");
    let children = spawn_children(args, args.replay.as_deref());
    let mut own: BTreeMap<u64, (u64, u64)> = BTreeMap::new();
    let mut flagged: BTreeSet<u64> = BTreeSet::new();
    let copies = if replay_case.is_some() { 24 } else { 4 };
    let mut run_case = |rep: &mut Report, idx: u64, case: Case| {
        rep.evaluations += 1;
        match guard(|| judge_pair(Some(&mut *rep), &case, copies)) {
            Err(p) => rep.violation(format!("C18|digest|panic|{}", panic_class(&p)), p, json!({"case": case})),
            Ok((viol, fp)) => {
                own.insert(idx, fp);
                for (sig, detail) in viol {
                    if sig.contains("false-divergent") {
                        flagged.insert(idx);
                    }
                    if rep.has_sig(&sig) {
                        rep.count("violations_raw");
                        continue;
                    }
                    let small = if sig.contains("false-divergent") { shrink_pair(&case, &sig, 12) } else { case.clone() };
                    rep.violation(sig, detail, json!({"case": small, "keys_a": small.a.ops.len()}));
                }
            }
        }
        if rep.samples.len() < 4 && (idx % 97 == 1 || case.a.ops.len() == 1) {
            rep.sample(json!({"class": case.class, "obs": case.obs, "depth": case.depth, "keys": case.a.ops.len(), "mode_b": case.b.mode,
                "first_key": case.a.ops.first().map(|(k, v)| json!({"key": k, "a": v})), "fingerprint_a": own.get(&idx)}));
        }
    };
    match &replay_case {
        Some(c) => run_case(&mut rep, 0, c.clone()),
        None => for_each_case(args, &mut |i, c| run_case(&mut rep, i, c)),
    }
    // cross-process: the same recipe built in two other processes must give the same digest
    let kids: Vec<Option<BTreeMap<u64, (u64, u64)>>> = children.into_iter().map(|h| h.join().unwrap_or(None)).collect();
    let mut xfail: Vec<u64> = vec![];
    for (i, fp) in &own {
        let others: Vec<Option<&(u64, u64)>> = kids.iter().map(|k| k.as_ref().and_then(|m| m.get(i))).collect();
        if others.iter().any(|o| o.is_none()) {
            rep.count("cross_process_missing");
            continue;
        }
        rep.count("cross_process_compared");
        if others.iter().any(|o| *o != Some(fp)) {
            rep.count("cross_process_digest_differs");
            if !flagged.contains(i) {
                xfail.push(*i);
            }
        }
    }
    if !xfail.is_empty() {
        let mut found: Option<Case> = replay_case.clone();
        if found.is_none() {
            let want = xfail[0];
            for_each_case(args, &mut |i, c| {
                if i == want {
                    found = Some(c);
                }
            });
        }
        if let Some(c) = found {
            let occ = occupancy(c.a.ops.iter().map(|(k, _)| k), c.depth).values().copied().max().unwrap_or(0);
            let same = Case { b: c.a.clone(), class: "cross-process".into(), ..c };
            if rep.violations.iter().any(|v| v.signature.starts_with("C18|digest|false-divergent|")) {
                rep.note("cross-process digest differences have the same class as the in-process false divergences");
            } else {
                rep.violation(
                format!("C18|digest|false-divergent|cross-process-only|occupancy:{}", occ_class(occ)),
                format!("the same recipe gives different digests in different processes but not within one process ({} cases)", xfail.len()),
                json!({"case": same}),
            );
            }
        }
    }
    if replay_case.is_none() {
        let snap = rep.counters.clone();
        let c = |k: &str| snap.iter().filter(|(n, _)| n.starts_with(k)).map(|(_, v)| *v).sum::<u64>();
        if c("equal_pairs:") == 0 || c("unequal_pairs:") == 0 {
            rep.inconclusive("no equal or no unequal state pair was generated");
        }
        if c("equal_pairs_max_occupancy:multi") == 0 {
            rep.inconclusive("no pi-equal pair with several keys in one bucket");
        }
        if c("cross_process_compared") == 0 {
            rep.inconclusive("no digest was compared across processes (child processes failed)");
        }
        for o in ["same-content", "merge-history"] {
            if c(&format!("equal_pairs:{}", o)) == 0 {
                rep.inconclusive(format!("no pi-equal pair of class {}", o));
            }
        }
    }
    rep.note("pi = kind, live value/tombstone, live hash fields, per-field stamps, counter entries, set membership, OR-set tags, expiry, outer stamp (time, replica), vector clock, rf; pairs differing only in the LWW register's inner stamp are not judged");
    rep.finish(args);
}

// ---------------------------------------------------------------------------------------------
// c18-sync
// ---------------------------------------------------------------------------------------------
#[derive(Clone, Debug, Serialize, Deserialize)]
struct SyncCase {
    /// "run_anti_entropy_sync" (MultiNodeSimulation, partition healed) or "handle_sync_request" (manager API)
    site: String,
    depth: usize,
    limit: usize,
    a: Vec<(String, VSpec)>,
    b: Vec<(String, VSpec)>,
}

enum Pair {
    Sim(MultiNodeSimulation),
    Api([AntiEntropyManager; 2], [ShardReplicaState; 2], u64),
}

impl Pair {
    fn new(c: &SyncCase, a: State, b: State) -> Pair {
        let cfg = AntiEntropyConfig { max_keys_per_sync: c.limit, merkle_tree_depth: c.depth, ..AntiEntropyConfig::default() };
        if c.site == "run_anti_entropy_sync" {
            // a third of the simulated pairs are two members of a partitioned cluster (3 nodes, replication factor 1 or 2, so
            // each of them is a ring replica for a part of the keys only): a sync between two connected replicas still
            // leaves both with the merge for every key of the divergent buckets
            let mut sim = match (c.limit + c.depth + c.a.len() + c.b.len()) % 3 {
                0 => MultiNodeSimulation::new_partitioned(3, 1 + (c.a.len() % 2), 1),
                _ => MultiNodeSimulation::new(2, 1),
            };
            sim.partition(0, 1);
            for (i, st) in [a, b].into_iter().enumerate() {
                sim.nodes[i].anti_entropy.config = cfg.clone();
                sim.nodes[i].replica_state.replicated_keys = st;
            }
            Pair::Sim(sim)
        } else {
            let mut sts = [ShardReplicaState::new(ReplicaId(1), ConsistencyLevel::Eventual), ShardReplicaState::new(ReplicaId(2), ConsistencyLevel::Eventual)];
            sts[0].replicated_keys = a;
            sts[1].replicated_keys = b;
            Pair::Api([AntiEntropyManager::new(ReplicaId(1), cfg.clone()), AntiEntropyManager::new(ReplicaId(2), cfg)], sts, 0)
        }
    }
    fn keys(&self, i: usize) -> &State {
        match self {
            Pair::Sim(s) => &s.nodes[i].replica_state.replicated_keys,
            Pair::Api(_, st, _) => &st[i].replicated_keys,
        }
    }
    fn digest(&self, i: usize) -> StateDigest {
        match self {
            Pair::Sim(s) => s.nodes[i].generate_digest(),
            Pair::Api(m, st, _) => m[i].generate_digest(&st[i].replicated_keys),
        }
    }
    fn round(&mut self) {
        match self {
            Pair::Sim(s) => {
                if !s.can_communicate(0, 1) {
                    s.heal_partition(0, 1); // auto anti-entropy: the heal runs the first exchange
                } else {
                    s.run_anti_entropy_sync(0, 1);
                }
            }
            Pair::Api(m, st, now) => {
                // one exchange: both sides compare the digests taken at the start of the round, both
                // request their divergent buckets, both responses are built before either is applied
                *now += 1000;
                let dg = [m[0].generate_digest(&st[0].replicated_keys), m[1].generate_digest(&st[1].replicated_keys)];
                let mut incoming: [Vec<ReplicationDelta>; 2] = [vec![], vec![]];
                for (me, peer) in [(0usize, 1usize), (1, 0)] {
                    if let Some(div) = m[me].process_peer_digest(dg[peer].clone(), &dg[me]) {
                        let peer_id = m[peer].replica_id;
                        let req = m[me].create_sync_request(peer_id, dg[me].clone(), Some(div), *now);
                        incoming[me] = m[peer].handle_sync_request(req, &st[peer].replicated_keys).deltas;
                    }
                }
                for (me, deltas) in incoming.into_iter().enumerate() {
                    for d in deltas {
                        st[me].apply_remote_delta(d);
                    }
                }
            }
        }
    }
}

struct SyncOut {
    viol: Vec<(String, String)>,
    differs: bool,
    scope: usize,
    per_side: usize,
    bound: usize,
    rounds: Option<usize>,
    blind: bool,
    occ: usize,
}

/// `full`: keep going after the bound (up to 4*bound+20 rounds) to tell "late" from "never".
fn run_sync(c: &SyncCase, full: bool) -> SyncOut {
    let a0: State = c.a.iter().map(|(k, v)| (k.clone(), mk(v, false))).collect();
    let b0: State = c.b.iter().map(|(k, v)| (k.clone(), mk(v, true))).collect();
    let mut p = Pair::new(c, a0.clone(), b0.clone());
    let (da, db) = (p.digest(0), p.digest(1));
    let differs = da.differs_from(&db);
    let div: BTreeSet<usize> = da.divergent_buckets(&db).into_iter().collect();
    let truly = sdiff(&a0, &b0);
    let mut out = SyncOut { viol: vec![], differs, scope: 0, per_side: 0, bound: 0, rounds: None, blind: false, occ: 0 };
    if !differs {
        out.blind = truly.values().any(|d| !only_ambiguous(d));
        return out;
    }
    if div.is_empty() {
        out.viol.push((format!("C18|sync|{}|root-differs-but-no-divergent-bucket", c.site), format!("{} keys differ", truly.len())));
        return out;
    }
    // scope: every key (of either side) in an initially divergent bucket; expectation: merge of the priors
    let in_scope = |k: &String| div.contains(&bucket_of(k, c.depth));
    let scope: BTreeSet<&String> = a0.keys().chain(b0.keys()).filter(|k| in_scope(k)).collect();
    let expect = |mine: &State, theirs: &State, k: &String| match (mine.get(k), theirs.get(k)) {
        (Some(x), Some(y)) => x.merge(y),
        (Some(x), None) => x.clone(),
        (None, Some(y)) => y.clone(),
        (None, None) => unreachable!(),
    };
    let exp: [BTreeMap<&String, ReplicatedValue>; 2] = [scope.iter().map(|k| (*k, expect(&a0, &b0, k))).collect(), scope.iter().map(|k| (*k, expect(&b0, &a0, k))).collect()];
    out.scope = scope.len();
    out.per_side = a0.keys().filter(|k| in_scope(k)).count().max(b0.keys().filter(|k| in_scope(k)).count());
    out.bound = (out.scope + c.limit - 1) / c.limit + 2;
    out.occ = occupancy(scope.iter(), c.depth).values().copied().max().unwrap_or(0);
    let pending = |p: &Pair| -> Vec<(String, usize, BTreeSet<&'static str>)> {
        let mut v = vec![];
        for side in 0..2 {
            for (k, e) in &exp[side] {
                match p.keys(side).get(*k) {
                    None => v.push(((*k).clone(), side, ["key-presence"].into_iter().collect())),
                    Some(cur) => {
                        let d = vdiff(cur, e);
                        if !d.is_empty() {
                            v.push(((*k).clone(), side, d));
                        }
                    }
                }
            }
        }
        v
    };
    let give_up = if full { 4 * out.bound + 20 } else { out.bound + 1 };
    let mut left = pending(&p);
    let mut r = 0;
    let mut left_at_bound = left.len();
    while !left.is_empty() && r < give_up {
        p.round();
        r += 1;
        left = pending(&p);
        if r == out.bound {
            left_at_bound = left.len();
        }
    }
    out.rounds = if left.is_empty() { Some(r) } else { None };
    if out.rounds.map(|r| r > out.bound).unwrap_or(true) {
        let class = if c.limit < out.per_side {
            "limit<keys-in-divergent-buckets".to_string()
        } else {
            "limit>=keys-in-divergent-buckets".to_string()
        };
        out.viol.push((
            format!("C18|sync|{}|not-merged-within-bound|{}", c.site, class),
            format!(
                "{} keys in {} divergent buckets, limit {}: bound {} rounds, {} (key, side) pairs unmerged at the bound, {}; e.g. {:?}",
                out.scope,
                div.len(),
                c.limit,
                out.bound,
                left_at_bound,
                match out.rounds {
                    Some(r) => format!("merged after {} rounds", r),
                    None => format!("still {} unmerged after {} rounds", left.len(), give_up),
                },
                left.first()
            ),
        ));
    }
    if out.rounds.is_some() {
        // both sides hold *the* merge: they must agree with each other
        let mut comps: BTreeMap<&'static str, String> = BTreeMap::new();
        for k in &scope {
            if let (Some(x), Some(y)) = (p.keys(0).get(*k), p.keys(1).get(*k)) {
                for d in vdiff(x, y) {
                    if !AMBIGUOUS.contains(&d) {
                        comps.entry(d).or_insert_with(|| format!("key {:?}: {:?} vs {:?}", k, pi(x).get(d), pi(y).get(d)));
                    }
                }
            }
        }
        for (comp, eg) in comps {
            out.viol.push((format!("C18|sync|sides-unequal-after-sync|{}", comp), format!("every key equals merge(own prior, peer prior) on its side, yet the sides differ: {}", eg)));
        }
    }
    out
}

/// Union of the violations of `reps` independent executions (iteration order is per-HashMap random).
fn eval_sync(c: &SyncCase, reps: usize, until: Option<&str>) -> Vec<(String, String)> {
    let mut v: Vec<(String, String)> = vec![];
    for _ in 0..reps {
        if until.map(|u| v.iter().any(|(s, _)| s == u)).unwrap_or(false) {
            break;
        }
        match guard(|| run_sync(c, until.is_none())) {
            Ok(o) => v.extend(o.viol),
            Err(p) => v.push((format!("C18|sync|{}|panic|{}", c.site, panic_class(&p)), p)),
        }
    }
    v.sort();
    v.dedup_by(|x, y| x.0 == y.0);
    v
}

fn shrink_sync(case: &SyncCase, sig: &str) -> SyncCase {
    let shows = |c: &SyncCase| eval_sync(c, 8, Some(sig)).iter().any(|(s, _)| s == sig);
    let mut cur = case.clone();
    let mut keys: Vec<String> = cur.a.iter().chain(cur.b.iter()).map(|(k, _)| k.clone()).collect::<BTreeSet<_>>().into_iter().collect();
    for chunk in [32usize, 8, 2, 1] {
        let mut i = 0;
        while i < keys.len() && keys.len() > 1 {
            let drop: BTreeSet<String> = keys.iter().skip(i).take(chunk).cloned().collect();
            let mut cand = cur.clone();
            cand.a.retain(|(k, _)| !drop.contains(k));
            cand.b.retain(|(k, _)| !drop.contains(k));
            if shows(&cand) {
                keys.retain(|k| !drop.contains(k));
                cur = cand;
            } else {
                i += chunk;
            }
        }
    }
    cur
}

fn gen_sync_case(rng: &mut Rng, pool: &[Vec<String>], i: u64) -> SyncCase {
    let depth = [8, 8, 2, 3, 4][rng.gen_range(0..5)];
    let limit = [1, 2, 5, 1000][(i % 4) as usize];
    let n_base = match rng.gen_range(0..4) {
        0 => 0,
        1 => rng.gen_range(1..10),
        2 => rng.gen_range(10..40),
        _ => rng.gen_range(40..110),
    };
    let n_div = if rng.gen_bool(0.3) { 1 } else { rng.gen_range(2..14) };
    let profile = rng.gen_range(0..4);
    let keys = pick_keys(rng, pool, n_base + n_div, profile);
    let (mut a, mut b) = (vec![], vec![]);
    for (j, k) in shuffled(rng, &keys).into_iter().enumerate() {
        let v = gen_vspec(rng);
        if j >= n_div {
            a.push((k.clone(), v.clone()));
            b.push((k, v));
            continue;
        }
        match rng.gen_range(0..6) {
            0 => a.push((k, v)),
            1 => b.push((k, v)),
            2 => {
                // same content reached through different merge histories: only the outer replica differs
                a.push((k.clone(), v.clone()));
                b.push((k, VSpec { r: v.r % 4 + 1, ..v }));
            }
            3 => {
                // same kind, concurrent: tie on time, different replica
                let mut w = gen_vspec(rng);
                w.body = match (&v.body, gen_vspec(rng).body) {
                    (Body::Lww(x), _) => Body::Lww(Reg { v: Some(word(rng)), tomb: false, t: x.t, r: x.r % 4 + 1 }),
                    (Body::Hash(_), _) => Body::Hash(vec![("f".into(), gen_reg(rng)), ("zz".into(), gen_reg(rng))]),
                    (Body::GC(_), _) => Body::GC(gen_entries(rng)),
                    (Body::PN(..), _) => Body::PN(gen_entries(rng), gen_entries(rng)),
                    (Body::GSet(_), _) => Body::GSet(vec![word(rng)]),
                    (Body::ORSet(..), _) => Body::ORSet(vec![(word(rng), 4)], vec![]),
                };
                w.t = v.t;
                a.push((k.clone(), v));
                b.push((k, w));
            }
            _ => {
                // unrelated value; two different kinds never carry the very same outer stamp (a replica
                // writes one thing per Lamport tick, so that input is not reachable)
                let mut w = gen_vspec(rng);
                if kind_of(&w) != kind_of(&v) && (w.t, w.r) == (v.t, v.r) {
                    w.r = v.r % 4 + 1;
                }
                a.push((k.clone(), v));
                b.push((k, w));
            }
        }
    }
    // one (time, replica) stamp is one write: registers carrying the same stamp on both sides hold the same value
    let same_write = |x: &Reg, y: &mut Reg| {
        if (x.t, x.r) == (y.t, y.r) {
            *y = x.clone();
        }
    };
    for (k, vb) in b.iter_mut() {
        if let Some((_, va)) = a.iter().find(|(ka, _)| ka == k) {
            match (&va.body, &mut vb.body) {
                (Body::Lww(x), Body::Lww(y)) => same_write(x, y),
                (Body::Hash(fa), Body::Hash(fb)) => {
                    for (name, y) in fb.iter_mut() {
                        if let Some((_, x)) = fa.iter().find(|(n, _)| n == name) {
                            same_write(x, y);
                        }
                    }
                }
                _ => {}
            }
        }
    }
    b.shuffle(rng);
    SyncCase { site: if i % 8 < 4 { "run_anti_entropy_sync" } else { "handle_sync_request" }.into(), depth, limit, a, b }
}

pub fn sync_leg(args: &Args) {
    let mut rep = Report::new("C18", "sync");
    if let Some(path) = &args.replay {
        let w: Value = serde_json::from_str(&std::fs::read_to_string(path).expect("replay file")).expect("json");
        let c: SyncCase = serde_json::from_value(w["witness"]["case"].clone()).expect("witness.case");
        rep.evaluations += 1;
        for (sig, detail) in eval_sync(&c, 32, None) {
            rep.violation(sig, detail, json!({"case": c}));
        }
        rep.finish(args);
        return;
    }
    let pool = key_pool();
    let mut rng = args.rng(182);
    let n = args.get_u64("cases", if args.thorough() { 700 } else { 400 });
    for i in 0..n {
        let c = gen_sync_case(&mut rng, &pool, i);
        rep.evaluations += 1;
        let o = match guard(|| run_sync(&c, true)) {
            Ok(o) => o,
            Err(p) => {
                rep.violation(format!("C18|sync|{}|panic|{}", c.site, panic_class(&p)), p, json!({"case": c}));
                continue;
            }
        };
        rep.count(&format!("site:{}", c.site));
        rep.count(&format!("limit:{}", c.limit));
        if !o.differs {
            rep.count(if o.blind { "digests_equal_although_states_differ(c18-digest's business)" } else { "digests_equal_states_equal" });
            continue;
        }
        rep.count("syncs_with_divergent_buckets");
        rep.add("keys_in_divergent_buckets", o.scope as u64);
        rep.max("keys_in_divergent_buckets", o.scope as u64);
        rep.max("bound_rounds", o.bound as u64);
        match o.rounds {
            Some(r) => {
                rep.count("syncs_completed");
                rep.max("rounds_needed", r as u64);
                rep.count(if r <= o.bound { "completed_within_bound" } else { "completed_late" });
            }
            None => rep.count("syncs_never_completed"),
        }
        rep.count(if c.limit < o.per_side { "limit_below_keys_in_divergent_buckets" } else { "limit_covers_divergent_buckets" });
        rep.distinct(&(&c.site, c.depth, c.limit, occ_class(o.occ), c.limit < o.per_side, o.scope.min(4), c.a.len().min(2)));
        for (sig, detail) in o.viol {
            if rep.has_sig(&sig) {
                rep.count("violations_raw");
                continue;
            }
            let small = shrink_sync(&c, &sig);
            rep.violation(sig, detail, json!({"case": small, "keys_a": small.a.len(), "keys_b": small.b.len()}));
        }
        if rep.samples.len() < 4 {
            rep.sample(json!({"site": c.site, "depth": c.depth, "limit": c.limit, "keys_a": c.a.len(), "keys_b": c.b.len(),
                "keys_in_divergent_buckets": o.scope, "bound": o.bound, "rounds_needed": o.rounds, "first_a": c.a.first()}));
        }
    }
    let snap = rep.counters.clone();
    let g = |k: &str| snap.get(k).copied().unwrap_or(0);
    if g("syncs_with_divergent_buckets") < n / 4 {
        rep.inconclusive("fewer than a quarter of the sync cases had divergent buckets");
    }
    if g("limit_below_keys_in_divergent_buckets") == 0 || g("limit_covers_divergent_buckets") == 0 {
        rep.inconclusive("the per-round limit was never below / never above the number of keys in divergent buckets");
    }
    for s in ["site:run_anti_entropy_sync", "site:handle_sync_request"] {
        if g(s) == 0 {
            rep.inconclusive(format!("{} never exercised", s));
        }
    }
    rep.note("expectation per side = own_prior.merge(peer_prior) computed with the real ReplicatedValue::merge; scope = keys of either side in buckets reported divergent before the first round; bound = ceil(scope/limit)+2 rounds");
    rep.finish(args);
}
