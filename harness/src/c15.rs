//! C15 — RESP decoding is total, bounded, prefix-stable; replies re-decode to themselves.
use crate::alloc_mon::measured;
use crate::common::*;
use crate::conn;
use crate::myresp::{self, Outcome, Tree};
use bytes::BytesMut;
use rand::Rng as _;
use redis_sim::production::{ConnectionConfig, ShardedActorState};
use redis_sim::redis::{Command, CommandExecutor, RespCodec, RespParser, RespValue};
use serde_json::json;

#[derive(Clone, Debug, PartialEq, Eq)]
enum Out {
    Val(Tree, usize),
    Inc,
    Err(String),
    Panic(String),
}

impl Out {
    fn kind(&self) -> &'static str {
        match self {
            Out::Val(..) => "value",
            Out::Inc => "incomplete",
            Out::Err(_) => "error",
            Out::Panic(_) => "panic",
        }
    }
}

fn run_codec(b: &[u8]) -> (Out, usize) {
    let (r, max_req, _) = measured(|| {
        guard(|| {
            let mut buf = BytesMut::from(b);
            let r = RespCodec::parse(&mut buf);
            (r, buf.len())
        })
    });
    let out = match r {
        Err(p) => Out::Panic(p),
        Ok((Ok(Some(v)), rest)) => Out::Val(myresp::from_zc(&v), b.len().wrapping_sub(rest)),
        Ok((Ok(None), _)) => Out::Inc,
        Ok((Err(e), _)) => Out::Err(e),
    };
    (out, max_req)
}

fn run_parser(b: &[u8]) -> (Out, usize) {
    let (r, max_req, _) = measured(|| guard(|| RespParser::parse(b)));
    let out = match r {
        Err(p) => Out::Panic(p),
        Ok(Ok((v, n))) => Out::Val(myresp::from_resp(&v), n),
        Ok(Err(e)) => {
            // RespParser has no streaming API: these three texts are its "need more bytes"
            if e == "No CRLF found" || e == "Incomplete bulk string" || e == "Empty input" {
                Out::Inc
            } else {
                Out::Err(e)
            }
        }
    };
    (out, max_req)
}

fn len_class(b: &[u8]) -> String {
    if b.is_empty() {
        return "empty".into();
    }
    let t = match b[0] {
        b'+' | b'-' | b':' | b'$' | b'*' => (b[0] as char).to_string(),
        _ => "other".to_string(),
    };
    if !matches!(b[0], b'$' | b'*' | b':') {
        return format!("type={}", t);
    }
    let end = b.iter().position(|&c| c == b'\r' || c == b'\n').unwrap_or(b.len());
    let f = &b[1..end.max(1)];
    let cls = if f.is_empty() {
        "none"
    } else if f == b"-1" {
        "neg1"
    } else if f[0] == b'-' && f[1..].iter().all(|c| c.is_ascii_digit()) && f.len() > 1 {
        "negative"
    } else if f[0] == b'+' {
        "plus-sign"
    } else if f.iter().all(|c| c.is_ascii_digit()) {
        match std::str::from_utf8(f).unwrap().parse::<u128>() {
            Ok(0) => "zero",
            Ok(n) if n <= 64 => "small",
            Ok(n) if n <= 100_000_000 => "medium",
            Ok(n) if n <= i64::MAX as u128 => "huge",
            _ => "over-i64",
        }
    } else {
        "nondigit"
    };
    format!("type={}|len={}", t, cls)
}

const ALLOC_FACTOR: usize = 64;
const ALLOC_SLACK: usize = 4096;

struct Ctx<'a> {
    rep: &'a mut Report,
}

/// Kinds of misbehaviour of one parser on one string (used to shrink before classifying).
fn misbehaviour(name: &str, s: &[u8]) -> Option<&'static str> {
    let (out, max_req) = if name == "codec" { run_codec(s) } else { run_parser(s) };
    if let Out::Panic(_) = out {
        return Some("panic");
    }
    if max_req > ALLOC_FACTOR * s.len() + ALLOC_SLACK {
        return Some("alloc");
    }
    None
}

/// Smallest suffix-then-prefix of `s` that still shows the same misbehaviour (deterministic).
fn shrink(name: &str, s: &[u8], kind: &str) -> Vec<u8> {
    let mut cur = s.to_vec();
    loop {
        let mut changed = false;
        // drop leading bytes up to a later type byte
        for i in (1..cur.len()).rev() {
            if matches!(cur[i], b'+' | b'-' | b':' | b'$' | b'*') && misbehaviour(name, &cur[i..]) == Some(kind) {
                cur = cur[i..].to_vec();
                changed = true;
                break;
            }
        }
        // drop trailing bytes
        while cur.len() > 1 && misbehaviour(name, &cur[..cur.len() - 1]) == Some(kind) {
            cur.pop();
            changed = true;
        }
        if !changed {
            return cur;
        }
    }
}

/// All per-string oracles.
fn check_string(cx: &mut Ctx, s: &[u8]) {
    // classify panics / unbounded allocations on the shrunk input so that the signature names
    // the failing element, not whatever frame happened to contain it
    for name in ["codec", "parser"] {
        if let Some(kind) = misbehaviour(name, s) {
            let m = shrink(name, s, kind);
            if m.len() < s.len() {
                check_string_raw(cx, &m);
                cx.rep.evaluations += 1;
                cx.rep.count("shrunk");
                return;
            }
        }
    }
    check_string_raw(cx, s);
}

fn check_string_raw(cx: &mut Ctx, s: &[u8]) {
    let rep = &mut *cx.rep;
    rep.evaluations += 1;
    let cls = len_class(s);
    for (name, (out, max_req)) in [("codec", run_codec(s)), ("parser", run_parser(s))] {
        rep.count(&format!("{}:{}", name, out.kind()));
        rep.distinct(&(name, &cls, out.kind(), s.len().min(12)));
        rep.max(&format!("{}_alloc_req", name), max_req as u64);
        let wit = || json!({"input": lossy(s), "parser": name});
        match &out {
            Out::Panic(p) => {
                rep.violation(format!("C15|{}|panic|{}", name, cls), format!("panic: {}", p), wit());
            }
            Out::Val(t, n) => {
                if *n > s.len() || *n == 0 {
                    rep.violation(format!("C15|{}|consumed-out-of-range|{}", name, cls), format!("consumed {} of {}", n, s.len()), wit());
                } else {
                    match myresp::decode(&s[..*n]) {
                        Outcome::Value(t2, n2) => {
                            // RespValue keeps simple strings / errors as `str`: a line with invalid
                            // UTF-8 is represented lossily by type, so compare modulo that conversion
                            let t2 = if name == "parser" { lossy_lines(&t2) } else { t2 };
                            if &t2 != t || n2 != *n {
                                rep.violation(
                                    format!("C15|{}|wrong-value|{}", name, cls),
                                    format!("decoded {:?}/{} but the frame is {:?}/{}", t, n, t2, n2),
                                    wit(),
                                );
                            }
                        }
                        _ => rep.count(&format!("{}:lenient-accept", name)),
                    }
                }
            }
            Out::Inc | Out::Err(_) => {
                // "more bytes are needed" must be true: a frame that is complete (or can no longer become one) under
                // the most lenient reading may be a value or a protocol error, never a request to wait
                if matches!(out, Out::Inc) && !needs_more(s, 0).0 {
                    rep.violation(
                        format!("C15|{}|claims-incomplete-for-input-no-extension-can-complete|{}", name, cls),
                        format!("{} bytes reported as incomplete although the first line is terminated and every announced length is present", s.len()),
                        wit(),
                    );
                }
                if let Outcome::Value(t2, n2) = myresp::decode(s) {
                    // a complete well-formed frame is present at the front
                    let lossy_utf8 = name == "parser" && has_non_utf8_line(&t2);
                    if !lossy_utf8 {
                        rep.violation(
                            format!("C15|{}|wellformed-not-decoded:{}|{}", name, out.kind(), cls),
                            format!("well-formed frame {:?} ({} bytes) reported as {:?}", t2, n2, out),
                            wit(),
                        );
                    }
                }
            }
        }
        if max_req > ALLOC_FACTOR * s.len() + ALLOC_SLACK {
            rep.violation(
                format!("C15|{}|alloc-unbounded|{}", name, cls),
                format!("single allocation request of {} bytes for {} input bytes", max_req, s.len()),
                wit(),
            );
        }
        // prefix stability against the one-byte-shorter prefix (inductively covers all prefixes
        // when the caller enumerates all strings; for random strings it is a spot check)
        if s.len() >= 2 {
            let p = &s[..s.len() - 1];
            let (po, _) = if name == "codec" { run_codec(p) } else { run_parser(p) };
            let stable = match (&po, &out) {
                (Out::Val(a, n), Out::Val(b, m)) => a == b && n == m,
                (Out::Val(..), _) => false,
                (Out::Err(_), Out::Err(_)) => true,
                (Out::Err(_), _) => false,
                _ => true,
            };
            if !stable && !matches!(out, Out::Panic(_)) && !matches!(po, Out::Panic(_)) {
                rep.violation(
                    format!("C15|{}|prefix-unstable:{}->{}|{}", name, po.kind(), out.kind(), cls),
                    format!("prefix gives {:?}, one more byte gives {:?}", po, out),
                    wit(),
                );
            }
        }
    }
}

/// Could more bytes still turn `s` into (the start of) a frame? Lenient reading, the most generous one a decoder may
/// take: a line ends at the first CRLF (a lone CR inside it is tolerated), lengths are decimal; anything that can no
/// longer be completed - or is already complete - is NOT "needs more".
fn needs_more(s: &[u8], depth: usize) -> (bool, usize) {
    // returns (needs more bytes, bytes occupied if complete/decidable)
    if s.is_empty() {
        return (true, 0);
    }
    let Some(eol) = s.windows(2).position(|w| w == b"\r\n") else { return (true, 0) };
    let line = &s[1..eol];
    let after = eol + 2;
    let num = std::str::from_utf8(line).ok().and_then(|t| t.parse::<i64>().ok());
    match s[0] {
        b'$' => match num {
            Some(n) if n >= 0 => {
                let need = after + n as usize + 2;
                (s.len() < need, need)
            }
            _ => (false, after),
        },
        b'*' if depth < 200 => match num {
            Some(n) if n > 0 => {
                let mut at = after;
                for _ in 0..n.min(100_000) {
                    let (more, used) = needs_more(&s[at.min(s.len())..], depth + 1);
                    if more {
                        return (true, 0);
                    }
                    if used == 0 {
                        return (false, at);
                    }
                    at += used;
                }
                (false, at)
            }
            _ => (false, after),
        },
        _ => (false, after),
    }
}

fn lossy_lines(t: &Tree) -> Tree {
    match t {
        Tree::Simple(s) => Tree::Simple(String::from_utf8_lossy(s).into_owned().into_bytes()),
        Tree::Error(s) => Tree::Error(String::from_utf8_lossy(s).into_owned().into_bytes()),
        Tree::Arr(Some(v)) => Tree::Arr(Some(v.iter().map(lossy_lines).collect())),
        other => other.clone(),
    }
}

fn has_non_utf8_line(t: &Tree) -> bool {
    match t {
        Tree::Simple(s) | Tree::Error(s) => std::str::from_utf8(s).is_err(),
        Tree::Arr(Some(v)) => v.iter().any(has_non_utf8_line),
        _ => false,
    }
}

const ALPHABET: &[u8] = b"+-:$*019\r\na";

fn header_shaped(include_huge: bool) -> Vec<Vec<u8>> {
    let types: &[u8] = b"$*:+-";
    let signs: [&str; 3] = ["", "-", "+"];
    let small: [&str; 14] = ["", "0", "1", "2", "3", "5", "9", "10", "16", "64", "100", "1000", "00", "01"];
    let medium: [&str; 3] = ["65536", "1000000", "100000000"];
    let huge: [&str; 9] = [
        "2147483647",
        "2147483648",
        "4294967296",
        "1000000000000",
        "9223372036854775807",
        "9223372036854775808",
        "18446744073709551615",
        "18446744073709551616",
        "99999999999999999999",
    ];
    let terms: [&str; 7] = ["\r\n", "\r", "\n", "", "\r\r\n", "\n\r", " \r\n"];
    let tails: [&str; 7] = ["", "a", "ab\r\n", "\r\n", "$1\r\na\r\n", ":1\r\n:1\r\n:1\r\n", "$-1\r\n"];
    let mut out = vec![];
    for &t in types {
        for sg in signs {
            let mut digs: Vec<&str> = vec![];
            if include_huge {
                digs.extend(huge);
            } else {
                digs.extend(small);
                // medium lengths are only safe in-process for '$' (no element vector); for '*'
                // they would pre-allocate gigabytes on a defective tree, so they run in c15-huge
                if t != b'*' {
                    digs.extend(medium);
                }
            }
            if include_huge && t == b'*' {
                digs.extend(medium);
            }
            for d in digs {
                for tm in terms {
                    for tl in tails {
                        let mut s = vec![t];
                        s.extend_from_slice(sg.as_bytes());
                        s.extend_from_slice(d.as_bytes());
                        s.extend_from_slice(tm.as_bytes());
                        s.extend_from_slice(tl.as_bytes());
                        out.push(s);
                    }
                }
            }
        }
    }
    out
}

pub fn parse_leg(args: &Args) {
    let mut rep = Report::new("C15", "parse");
    if let Some(p) = &args.replay {
        let w: serde_json::Value = serde_json::from_str(&std::fs::read_to_string(p).expect("replay file")).expect("json");
        let input = unlossy(w["witness"]["input"].as_str().unwrap_or(""));
        check_string(&mut Ctx { rep: &mut rep }, &input);
        rep.finish(args);
        return;
    }
    let lmax = args.get_u64("lmax", if args.thorough() { 7 } else { 6 }) as usize;
    let mut cx = Ctx { rep: &mut rep };
    // (1) bounded-exhaustive enumeration over the grammar alphabet, sharded by index
    let mut idx: u64 = 0;
    for len in 1..=lmax {
        let total = (ALPHABET.len() as u64).pow(len as u32);
        let mut s = vec![0u8; len];
        for n in 0..total {
            idx += 1;
            if idx % args.shards as u64 != args.shard as u64 {
                continue;
            }
            let mut x = n;
            for i in 0..len {
                s[i] = ALPHABET[(x % ALPHABET.len() as u64) as usize];
                x /= ALPHABET.len() as u64;
            }
            check_string(&mut cx, &s);
        }
    }
    cx.rep.max("enumerated_lmax", lmax as u64);
    // (2) header-shaped strings (in-process lengths only)
    let stride = args.get_u64("grid-stride", 1) as usize;
    for (i, s) in header_shaped(false).iter().enumerate() {
        if i % args.shards != args.shard || (i / args.shards) % stride != 0 {
            continue;
        }
        check_string(&mut cx, s);
        cx.rep.count("header_shaped");
    }
    // (3) nesting, moderate depth in-process (deep nesting runs in c15-huge)
    let depths: &[usize] = if stride > 1 { &[1, 2, 5] } else { &[1, 2, 5, 50, 500] };
    for &d in depths {
        let mut s = Vec::new();
        for _ in 0..d {
            s.extend_from_slice(b"*1\r\n");
        }
        s.extend_from_slice(b":1\r\n");
        check_string(&mut cx, &s);
        cx.rep.count("nested");
    }
    // (4) random byte strings and random mutations of valid frames
    let mut rng = args.rng(15);
    let n_rand = args.get_u64("random", if args.thorough() { 400_000 } else { 40_000 });
    for i in 0..n_rand {
        let s: Vec<u8> = if i % 2 == 0 {
            let len = rng.gen_range(1..40);
            (0..len)
                .map(|_| if rng.gen_bool(0.7) { ALPHABET[rng.gen_range(0..ALPHABET.len())] } else { rng.gen() })
                .collect()
        } else {
            let mut b = Vec::new();
            myresp::encode(&gen_tree(&mut rng, 0, false), &mut b);
            for _ in 0..rng.gen_range(0..3) {
                if b.is_empty() {
                    break;
                }
                let p = rng.gen_range(0..b.len());
                match rng.gen_range(0..3) {
                    0 => b[p] = ALPHABET[rng.gen_range(0..ALPHABET.len())],
                    1 => {
                        b.remove(p);
                    }
                    _ => b.insert(p, ALPHABET[rng.gen_range(0..ALPHABET.len())]),
                }
            }
            b.truncate(rng.gen_range(1..=b.len().max(1)));
            b
        };
        if s.is_empty() {
            continue;
        }
        check_string(&mut cx, &s);
        cx.rep.count("random");
    }
    rep.exhaustive = stride == 1;
    rep.note(format!("exhaustive for all strings over {:?} up to length {} and for the header-shaped grid; random part sampled", lossy(ALPHABET), lmax));
    rep.sample(json!({"input": "*2\\r\\n$1\\r\\na", "codec": "incomplete", "parser": "incomplete"}));
    rep.finish(args);
}

pub fn gen_bytes(rng: &mut Rng, line_safe: bool) -> Vec<u8> {
    let len = match rng.gen_range(0..10) {
        0 => 0,
        1..=6 => rng.gen_range(1..6),
        7 | 8 => rng.gen_range(6..40),
        _ => rng.gen_range(40..300),
    };
    (0..len)
        .map(|_| {
            if line_safe {
                b"abcXYZ019 _-:$*+"[rng.gen_range(0..16)]
            } else {
                match rng.gen_range(0..8) {
                    0 => b'\r',
                    1 => b'\n',
                    2 => rng.gen(),
                    3 => b"$*+-:"[rng.gen_range(0..5)],
                    _ => b"abc019"[rng.gen_range(0..6)],
                }
            }
        })
        .collect()
}

pub fn gen_tree(rng: &mut Rng, depth: usize, utf8_lines: bool) -> Tree {
    let k = if depth >= 3 { rng.gen_range(0..5) } else { rng.gen_range(0..7) };
    let _ = utf8_lines;
    match k {
        0 => Tree::Simple(gen_bytes(rng, true)),
        1 => Tree::Error(gen_bytes(rng, true)),
        2 => Tree::Int(match rng.gen_range(0..5) {
            0 => i64::MIN,
            1 => i64::MAX,
            2 => 0,
            3 => -1,
            _ => rng.gen(),
        }),
        3 => Tree::Bulk(None),
        4 => Tree::Bulk(Some(gen_bytes(rng, false))),
        5 => Tree::Arr(None),
        _ => {
            let n = rng.gen_range(0..4);
            Tree::Arr(Some((0..n).map(|_| gen_tree(rng, depth + 1, utf8_lines)).collect()))
        }
    }
}

fn codec_frames(chunks: &[&[u8]]) -> Result<(Vec<Tree>, Vec<u8>, Option<String>), String> {
    guard(|| {
        let mut buf = BytesMut::new();
        let mut frames = vec![];
        let mut err = None;
        'outer: for c in chunks {
            buf.extend_from_slice(c);
            loop {
                match RespCodec::parse(&mut buf) {
                    Ok(Some(v)) => frames.push(myresp::from_zc(&v)),
                    Ok(None) => break,
                    Err(e) => {
                        err = Some(e);
                        break 'outer;
                    }
                }
            }
        }
        (frames, buf.to_vec(), err)
    })
}

pub fn frag_leg(args: &Args) {
    let mut rep = Report::new("C15", "frag");
    let mut rng = args.rng(151);
    let n = args.get_u64("streams", if args.thorough() { 6000 } else { 500 });
    for case in 0..n {
        let mut stream = Vec::new();
        let mut trees = vec![];
        for _ in 0..rng.gen_range(1..5) {
            let t = gen_tree(&mut rng, 1, false);
            myresp::encode(&t, &mut stream);
            trees.push(t);
        }
        let valid = case % 4 != 3;
        if !valid {
            // damaged stream: one byte changed; the comparison is still whole-vs-fragments
            let p = rng.gen_range(0..stream.len());
            stream[p] = ALPHABET[rng.gen_range(0..ALPHABET.len())];
        }
        if stream.len() > 160 {
            continue;
        }
        let whole = match codec_frames(&[&stream]) {
            Ok(w) => w,
            Err(p) => {
                if valid {
                    rep.violation("C15|codec|panic|valid-stream", format!("panic on a valid stream: {}", p), json!({"stream": lossy(&stream)}));
                }
                continue;
            }
        };
        rep.evaluations += 1;
        if valid {
            if whole.0 != trees || !whole.1.is_empty() || whole.2.is_some() {
                rep.violation(
                    "C15|codec|valid-stream-misdecoded",
                    format!("expected {:?}, got {:?} rest {:?} err {:?}", trees, whole.0, lossy(&whole.1), whole.2),
                    json!({"stream": lossy(&stream)}),
                );
                continue;
            }
        }
        let mut splits: Vec<Vec<usize>> = vec![];
        for a in 1..stream.len() {
            splits.push(vec![a]);
        }
        if stream.len() <= 48 {
            for a in 1..stream.len() {
                for b in a + 1..stream.len() {
                    splits.push(vec![a, b]);
                }
            }
        } else {
            for _ in 0..200 {
                let a = rng.gen_range(1..stream.len() - 1);
                let b = rng.gen_range(a + 1..stream.len());
                splits.push(vec![a, b]);
            }
        }
        splits.push((1..stream.len()).collect()); // byte by byte
        for sp in &splits {
            let mut chunks: Vec<&[u8]> = vec![];
            let mut prev = 0;
            for &p in sp {
                chunks.push(&stream[prev..p]);
                prev = p;
            }
            chunks.push(&stream[prev..]);
            rep.add("fragmentations", 1);
            match codec_frames(&chunks) {
                Err(p) => rep.violation("C15|codec|panic|fragmented", p, json!({"stream": lossy(&stream), "splits": sp})),
                Ok(f) => {
                    let same = f.0 == whole.0 && f.2.is_some() == whole.2.is_some() && (f.2.is_some() || f.1 == whole.1);
                    if !same {
                        rep.violation(
                            format!("C15|codec|fragment-vs-whole|{}", if valid { "valid" } else { "damaged" }),
                            format!("whole: {:?} rest {:?} err {:?}; fragmented: {:?} rest {:?} err {:?}", whole.0, lossy(&whole.1), whole.2, f.0, lossy(&f.1), f.2),
                            json!({"stream": lossy(&stream), "splits": sp}),
                        );
                    }
                }
            }
        }
        rep.distinct(&(trees.len(), stream.len(), valid, whole.0.len()));
        if case < 3 {
            rep.sample(json!({"stream": lossy(&stream), "frames": whole.0.len(), "fragmentations": splits.len()}));
        }
    }
    rep.finish(args);
}

/// commands whose replies reflect client bytes
fn reply_corpus(rng: &mut Rng) -> Vec<Vec<Vec<u8>>> {
    let nasty: Vec<Vec<u8>> = vec![
        b"A\r\nB".to_vec(),
        b"x\ny".to_vec(),
        b"x\ry".to_vec(),
        b"\r\n+OK".to_vec(),
        b"".to_vec(),
        b"plain".to_vec(),
        vec![0xff, 0xfe, 0x00],
        b"$5".to_vec(),
        "h\u{e9}llo".as_bytes().to_vec(),
    ];
    let names: Vec<&[u8]> = vec![
        b"GET", b"SET", b"ECHO", b"PING", b"TYPE", b"INCR", b"INCRBY", b"HSET", b"HGET", b"HGETALL", b"LPUSH", b"LRANGE", b"SADD", b"SMEMBERS",
        b"ZADD", b"ZRANGE", b"ZSCORE", b"CONFIG", b"CLIENT", b"DEBUG", b"OBJECT", b"ACL", b"COMMAND", b"SCRIPT", b"EVAL", b"EXPIRE", b"SETEX",
        b"KEYS", b"SCAN", b"RENAME", b"APPEND", b"GETRANGE", b"MGET", b"EXISTS", b"DEL", b"SELECT", b"HELLO", b"AUTH", b"XADD", b"FOO",
        b"SUBSCRIBE", b"MEMORY", b"WAIT", b"INFO", b"DBSIZE", b"TIME", b"LINDEX", b"LSET", b"SPOP", b"HINCRBY", b"ZINCRBY", b"SETRANGE", b"SORT",
    ];
    let mut out = vec![];
    for n in &nasty {
        out.push(vec![n.clone()]);
        out.push(vec![n.clone(), b"k".to_vec()]);
        for name in &names {
            out.push(vec![name.to_vec(), n.clone()]);
            out.push(vec![name.to_vec(), n.clone(), n.clone()]);
            out.push(vec![name.to_vec(), b"k".to_vec(), n.clone()]);
            out.push(vec![name.to_vec(), b"k".to_vec(), n.clone(), n.clone()]);
        }
    }
    // integer replies at the ends of the i64 range (reached by ordinary counter commands)
    let bv = |s: &str| s.as_bytes().to_vec();
    for seq in [
        vec![vec!["SET", "cnt", "-9223372036854775807"], vec!["DECR", "cnt"], vec!["INCRBY", "cnt", "0"], vec!["GET", "cnt"], vec!["DECR", "cnt"]],
        vec![vec!["SET", "cnt", "9223372036854775806"], vec!["INCR", "cnt"], vec!["DECRBY", "cnt", "0"], vec!["INCR", "cnt"], vec!["STRLEN", "cnt"]],
        vec![vec!["SET", "cnt", "0"], vec!["DECRBY", "cnt", "9223372036854775807"], vec!["DECR", "cnt"], vec!["HINCRBY", "hcnt", "f", "-9223372036854775808"], vec!["HINCRBY", "hcnt", "g", "9223372036854775807"]],
        vec![vec!["INCRBY", "c2", "-1"], vec!["INCRBY", "c2", "-9"], vec!["INCRBY", "c2", "-90"], vec!["INCRBY", "c2", "1000000000000000000"], vec!["LPUSH", "l2", "a"], vec!["LLEN", "l2"], vec!["TTL", "l2"], vec!["TTL", "nokey"]],
    ] {
        for c in seq {
            out.push(c.into_iter().map(bv).collect());
        }
    }
    for _ in 0..300 {
        let name = names[rng.gen_range(0..names.len())].to_vec();
        let mut a = vec![name];
        for _ in 0..rng.gen_range(0..4) {
            a.push(if rng.gen_bool(0.5) { nasty[rng.gen_range(0..nasty.len())].clone() } else { gen_bytes(rng, false) });
        }
        out.push(a);
    }
    out
}

/// A value a script can return: integers (incl. the ends of the range), strings, status / error tables, arrays.
fn gen_lua_tree(rng: &mut Rng, depth: usize) -> Tree {
    match if depth >= 2 { rng.gen_range(0..4) } else { rng.gen_range(0..6) } {
        0 => Tree::Int(*[i64::MIN, i64::MIN + 1, i64::MAX, 0, -1, 1, -9, -10, 10, 99, -100, 1234567890123, -1234567890123].get(rng.gen_range(0..13)).unwrap()),
        1 => Tree::Int(rng.gen()),
        2 => Tree::Bulk(Some(gen_bytes(rng, false))),
        3 => {
            if rng.gen_bool(0.5) {
                Tree::Simple(gen_bytes(rng, true))
            } else {
                Tree::Error(gen_bytes(rng, true))
            }
        }
        _ => Tree::Arr(Some((0..rng.gen_range(0..4)).map(|_| gen_lua_tree(rng, depth + 1)).collect())),
    }
}

fn lua_str(b: &[u8]) -> String {
    let mut s = String::from("'");
    for &c in b {
        s.push_str(&format!("\\{:03}", c));
    }
    s.push('\'');
    s
}

fn lua_expr(t: &Tree) -> String {
    match t {
        Tree::Int(n) if *n == i64::MIN => "math.mininteger".to_string(),
        Tree::Int(n) => format!("({})", n),
        Tree::Bulk(Some(b)) => lua_str(b),
        Tree::Bulk(None) => "false".to_string(),
        Tree::Simple(b) => format!("{{ok={}}}", lua_str(b)),
        Tree::Error(b) => format!("{{err={}}}", lua_str(b)),
        Tree::Arr(Some(v)) => format!("{{{}}}", v.iter().map(lua_expr).collect::<Vec<_>>().join(",")),
        Tree::Arr(None) => "{}".to_string(),
    }
}

fn tree_class(t: &Tree) -> &'static str {
    match t {
        Tree::Int(n) if *n == i64::MIN || *n == i64::MAX => "int-extreme",
        Tree::Int(_) => "int",
        Tree::Bulk(_) => "bulk",
        Tree::Simple(_) => "status",
        Tree::Error(_) => "error",
        Tree::Arr(_) => "array",
    }
}

fn check_emitted(rep: &mut Report, what: &str, encoder: &str, bytes: &[u8], expect: Option<&Tree>, wit: serde_json::Value) {
    rep.count(&format!("encoded:{}", encoder));
    match myresp::decode_all(bytes) {
        Ok(v) if v.len() == 1 => {
            if let Some(e) = expect {
                // a RESP line cannot carry CR or LF: the emitted line is compared modulo the
                // CR/LF -> space substitution (the only thing an encoder can do with such text)
                let e = &line_safe(e);
                if &v[0] != e {
                    rep.violation(
                        format!("C15|reply|{}|redecode-differs|{}", encoder, what),
                        format!("emitted value {:?} re-decodes as {:?}", e, v[0]),
                        wit,
                    );
                }
            }
        }
        Ok(v) => {
            rep.violation(
                format!("C15|reply|{}|splits-into-{}-frames|{}", encoder, v.len().min(3), what),
                format!("one emitted value decodes as {} frames: {}", v.len(), lossy(bytes)),
                wit,
            );
        }
        Err((_, why)) => {
            rep.violation(
                format!("C15|reply|{}|not-decodable|{}", encoder, what),
                format!("{}: {}", why, lossy(bytes)),
                wit,
            );
        }
    }
}

fn line_safe(t: &Tree) -> Tree {
    let f = |s: &Vec<u8>| s.iter().map(|&b| if b == b'\r' || b == b'\n' { b' ' } else { b }).collect::<Vec<u8>>();
    match t {
        Tree::Simple(s) => Tree::Simple(f(s)),
        Tree::Error(s) => Tree::Error(f(s)),
        Tree::Arr(Some(v)) => Tree::Arr(Some(v.iter().map(line_safe).collect())),
        o => o.clone(),
    }
}

fn reply_class(v: &RespValue) -> &'static str {
    match v {
        RespValue::SimpleString(_) => "simple",
        RespValue::Error(_) => "error",
        RespValue::Integer(_) => "int",
        RespValue::BulkString(_) => "bulk",
        RespValue::Array(_) => "array",
    }
}

pub fn reply_leg(args: &Args) {
    let mut rep = Report::new("C15", "reply");
    let mut rng = args.rng(152);
    // (a) synthetic trees through both library encoders and back through the library decoders
    let n = args.get_u64("trees", if args.thorough() { 60_000 } else { 6_000 });
    for _ in 0..n {
        let t = gen_tree(&mut rng, 0, true);
        rep.evaluations += 1;
        let zc = myresp::to_zc(&t);
        let enc = RespCodec::encode(&zc);
        check_emitted(&mut rep, "synthetic", "RespCodec::encode", &enc, Some(&t), json!({"tree": myresp::show(&t)}));
        let mut b = BytesMut::from(&enc[..]);
        match guard(|| RespCodec::parse(&mut b)) {
            Ok(Ok(Some(v))) if myresp::from_zc(&v) == t && b.is_empty() => {}
            other => rep.violation("C15|reply|RespCodec|roundtrip", format!("{:?}", other), json!({"tree": myresp::show(&t)})),
        }
        rep.distinct(&format!("{:?}", shape(&t)));
    }
    // (b) values emitted by real commands (direct executor), through RespParser::encode
    let corpus = reply_corpus(&mut rng);
    let mut ex = CommandExecutor::new();
    for argv in &corpus {
        let frame = myresp::frame_v(argv);
        let mut buf = BytesMut::from(&frame[..]);
        let parsed = guard(|| RespCodec::parse(&mut buf));
        let zc = match parsed {
            Ok(Ok(Some(v))) => v,
            _ => continue,
        };
        let wit = json!({"argv": argv.iter().map(|a| lossy(a)).collect::<Vec<_>>()});
        let name = String::from_utf8_lossy(&argv[0]).to_uppercase();
        let name = if name.chars().all(|c| c.is_ascii_alphabetic()) { name } else { "<nasty-name>".to_string() };
        let reply: RespValue = match guard(|| Command::from_resp_zero_copy(&zc)) {
            Err(p) => {
                rep.violation(format!("C15|reply|parse-panic|{}", name), p, wit);
                continue;
            }
            Ok(Err(e)) => RespValue::err(e),
            Ok(Ok(cmd)) => match guard(|| ex.execute(&cmd)) {
                Ok(r) => r,
                Err(p) => {
                    rep.violation(format!("C15|reply|execute-panic|{}|{}", name, panic_class(&p)), p, wit);
                    ex = CommandExecutor::new();
                    continue;
                }
            },
        };
        rep.evaluations += 1;
        let t = myresp::from_resp(&reply);
        let what = format!("{}:{}", name, reply_class(&reply));
        rep.distinct(&what);
        let enc = RespParser::encode(&reply);
        check_emitted(&mut rep, &what, "RespParser::encode", &enc, Some(&t), wit.clone());
    }
    // (c) the connection's own encoder, through H1: one frame in, exactly one decodable frame out
    let rt = tokio::runtime::Builder::new_current_thread().enable_all().build().unwrap();
    rt.block_on(async {
        let state = ShardedActorState::with_shards(2);
        // twin with the same shard count, driven through the API: what value the connection had to encode
        let twin = ShardedActorState::with_shards(2);
        const DATA: [&str; 30] = ["GET", "SET", "TYPE", "INCR", "INCRBY", "DECR", "DECRBY", "HSET", "HGET", "LPUSH", "LRANGE", "SADD", "ZADD", "ZRANGE", "ZSCORE", "EXPIRE", "SETEX", "APPEND",
            "GETRANGE", "MGET", "EXISTS", "DEL", "DBSIZE", "LINDEX", "LSET", "HINCRBY", "SETRANGE", "STRLEN", "LLEN", "TTL"];
        for argv in &corpus {
            let mut expect: Option<Tree> = None;
            {
                let frame = myresp::frame_v(argv);
                let mut buf = BytesMut::from(&frame[..]);
                if let Ok(Ok(Some(zc))) = guard(|| RespCodec::parse(&mut buf)) {
                    let nm = String::from_utf8_lossy(&argv[0]).to_uppercase();
                    if nm == "SPOP" {
                        continue; // random choice: the two servers would legitimately part ways
                    }
                    if let Ok(Ok(cmd)) = guard(|| Command::from_resp_zero_copy(&zc)) {
                        // every command runs on the twin (same state evolution); only data commands are compared
                        let r = twin.execute(&cmd).await;
                        if DATA.contains(&nm.as_str()) {
                            // TTL of a key with a deadline depends on the wall clock: only the no-deadline answers are compared
                            let skip = nm == "TTL" && matches!(r, RespValue::Integer(n) if n >= 0);
                            if !skip {
                                expect = Some(myresp::from_resp(&r));
                                rep.count("connection_replies_compared_with_api_twin");
                            }
                        }
                    }
                }
            }
            let (ctl, h) = conn::spawn_conn(state.clone(), ConnectionConfig::default());
            let frame = myresp::frame_v(argv);
            ctl.send(&frame);
            let idle = ctl.wait_idle(conn::STEP_BUDGET).await;
            let out = ctl.take_output();
            ctl.close();
            let _ = ctl.wait_idle(conn::STEP_BUDGET).await;
            let wit = json!({"argv": argv.iter().map(|a| lossy(a)).collect::<Vec<_>>()});
            let name = String::from_utf8_lossy(&argv[0]).to_uppercase();
            let name = if name.chars().all(|c| c.is_ascii_alphabetic()) { name } else { "<nasty-name>".to_string() };
            let died = match h.await {
                Err(e) if e.is_panic() => true,
                _ => false,
            };
            rep.evaluations += 1;
            if died {
                // a crash while executing a command is C04's business (one reply per command, never a crash)
                rep.count("connection_died_before_reply(C04)");
                continue;
            }
            if idle.is_err() {
                rep.inconclusive(format!("connection never returned to read for {:?}", lossy(&frame)));
                continue;
            }
            if out.is_empty() {
                rep.violation(format!("C15|reply|connection|no-reply|{}", name), "no bytes written for a complete frame", wit);
                continue;
            }
            check_emitted(&mut rep, &name, "encode_resp_into", &out, expect.as_ref(), wit);
        }
        // (d) synthetic values through the connection's encoder: an EVAL script returns the tree; the same
        //     script run through the API on the twin says which value the connection was given to encode
        if cfg!(feature = "lua") {
            let n = args.get_u64("lua-trees", if args.thorough() { 6_000 } else { 600 });
            for i in 0..n {
                let t = gen_lua_tree(&mut rng, 0);
                let script = format!("return {}", lua_expr(&t));
                let cmd = Command::Eval { script: script.clone(), keys: vec![], args: vec![] };
                let exp = myresp::from_resp(&twin.execute(&cmd).await);
                let (ctl, h) = conn::spawn_conn(state.clone(), ConnectionConfig::default());
                ctl.send(&myresp::frame(&[b"EVAL", script.as_bytes(), b"0"]));
                let idle = ctl.wait_idle(conn::STEP_BUDGET).await;
                let out = ctl.take_output();
                ctl.close();
                let _ = ctl.wait_idle(conn::STEP_BUDGET).await;
                let _ = h.await;
                rep.evaluations += 1;
                rep.count("lua_trees_through_connection");
                if idle.is_err() {
                    rep.inconclusive("connection never returned to read for an EVAL frame");
                    continue;
                }
                rep.distinct(&format!("lua:{:?}", shape(&exp)));
                check_emitted(&mut rep, &format!("lua:{}", tree_class(&exp)), "encode_resp_into", &out, Some(&exp), json!({"script": script}));
                if i < 1 {
                    rep.sample(json!({"script": script, "api_value": myresp::show(&exp), "connection_bytes": lossy(&out)}));
                }
            }
        }
    });
    rep.sample(json!({"argv": ["A\\r\\nB"], "checked": "RespParser::encode, encode_resp_into (via H1) re-decoded by the independent decoder"}));
    rep.finish(args);
}

fn shape(t: &Tree) -> String {
    match t {
        Tree::Simple(_) => "+".into(),
        Tree::Error(_) => "-".into(),
        Tree::Int(_) => ":".into(),
        Tree::Bulk(None) => "$nil".into(),
        Tree::Bulk(Some(b)) => format!("${}", b.len().min(3)),
        Tree::Arr(None) => "*nil".into(),
        Tree::Arr(Some(v)) => format!("[{}]", v.iter().map(shape).collect::<Vec<_>>().join(",")),
    }
}

/// Cases that may abort the process on a defective tree (huge pre-allocation, deep recursion):
/// one child process per case so that an abort is observed, attributed and does not end the run.
pub fn huge_leg(args: &Args) {
    if args.get_str("case").is_some() {
        let mut input = Vec::new();
        use std::io::Read;
        std::io::stdin().read_to_end(&mut input).expect("read case from stdin");
        // same stack as a tokio worker thread (2 MiB), where the production parser runs
        let h = std::thread::Builder::new()
            .stack_size(2 * 1024 * 1024)
            .spawn(move || {
                let (c, ca) = run_codec(&input);
                let (p, pa) = run_parser(&input);
                println!("{}", json!({"codec": c.kind(), "codec_alloc": ca, "parser": p.kind(), "parser_alloc": pa,
                    "codec_msg": format!("{:?}", c).chars().take(200).collect::<String>(), "parser_msg": format!("{:?}", p).chars().take(200).collect::<String>()}));
            })
            .unwrap();
        let _ = h.join();
        return;
    }
    let mut rep = Report::new("C15", "huge");
    let mut cases: Vec<(String, Vec<u8>)> = vec![];
    if let Some(p) = &args.replay {
        let w: serde_json::Value = serde_json::from_str(&std::fs::read_to_string(p).expect("replay file")).expect("json");
        cases.push(("replay".into(), unhex(w["witness"]["hex"].as_str().unwrap_or(""))));
    } else {
        for s in header_shaped(true) {
            cases.push((len_class(&s), s));
        }
        let depths: &[usize] = if args.thorough() { &[1_000, 5_000, 20_000, 100_000, 1_000_000] } else { &[1_000, 5_000, 20_000, 100_000] };
        for &d in depths {
            let mut s = Vec::with_capacity(d * 4 + 4);
            for _ in 0..d {
                s.extend_from_slice(b"*1\r\n");
            }
            s.extend_from_slice(b":1\r\n");
            cases.push((format!("nested-depth>={}", if d >= 20_000 { "20000" } else { "1000" }), s));
        }
    }
    let exe = std::env::current_exe().unwrap();
    let mut todo = vec![];
    for (i, c) in cases.into_iter().enumerate() {
        if i % args.shards == args.shard {
            todo.push(c);
        }
    }
    let results: Vec<(String, Vec<u8>, std::process::Output)> = std::thread::scope(|sc| {
        let chunks: Vec<Vec<(String, Vec<u8>)>> = {
            let mut v: Vec<Vec<(String, Vec<u8>)>> = (0..8).map(|_| vec![]).collect();
            for (i, c) in todo.into_iter().enumerate() {
                v[i % 8].push(c);
            }
            v
        };
        let hs: Vec<_> = chunks
            .into_iter()
            .map(|ch| {
                let exe = exe.clone();
                sc.spawn(move || {
                    ch.into_iter()
                        .map(|(cls, s)| {
                            use std::io::Write;
                            use std::process::Stdio;
                            let mut ch = std::process::Command::new(&exe)
                                .arg("c15-huge")
                                .arg("--case")
                                .arg("stdin")
                                .stdin(Stdio::piped())
                                .stdout(Stdio::piped())
                                .stderr(Stdio::piped())
                                .spawn()
                                .expect("spawn child");
                            {
                                let mut si = ch.stdin.take().unwrap();
                                let _ = si.write_all(&s);
                            }
                            let o = ch.wait_with_output().expect("child output");
                            (cls, s, o)
                        })
                        .collect::<Vec<_>>()
                })
            })
            .collect();
        hs.into_iter().flat_map(|h| h.join().unwrap()).collect()
    });
    for (cls, s, o) in results {
        rep.evaluations += 1;
        let shown = if s.len() > 80 { format!("{}…({} bytes)", lossy(&s[..60]), s.len()) } else { lossy(&s) };
        let wit = json!({"hex": hex(&s), "input": shown});
        if !o.status.success() {
            use std::os::unix::process::ExitStatusExt;
            let err = String::from_utf8_lossy(&o.stderr).to_string();
            let how = if err.contains("stack overflow") {
                "stack-overflow"
            } else if err.contains("memory allocation of") {
                "alloc-failure-abort"
            } else {
                "abnormal-exit"
            };
            rep.violation(
                format!("C15|decode|{}|{}", how, cls),
                format!("child status {:?} signal {:?}: {}", o.status.code(), o.status.signal(), err.chars().take(300).collect::<String>()),
                wit,
            );
            rep.count(how);
            continue;
        }
        let out = String::from_utf8_lossy(&o.stdout).to_string();
        let v: serde_json::Value = serde_json::from_str(out.trim()).unwrap_or(json!({}));
        for name in ["codec", "parser"] {
            let kind = v[name].as_str().unwrap_or("?").to_string();
            rep.count(&format!("{}:{}", name, kind));
            rep.distinct(&(name, &cls, &kind));
            if kind == "panic" {
                rep.violation(format!("C15|{}|panic|{}", name, cls), v[format!("{}_msg", name)].as_str().unwrap_or("").to_string(), wit.clone());
            }
            let a = v[format!("{}_alloc", name)].as_u64().unwrap_or(0) as usize;
            rep.max(&format!("{}_alloc_req", name), a as u64);
            if a > ALLOC_FACTOR * s.len() + ALLOC_SLACK {
                rep.violation(
                    format!("C15|{}|alloc-unbounded|{}", name, cls),
                    format!("single allocation request of {} bytes for {} input bytes", a, s.len()),
                    wit.clone(),
                );
            }
        }
        rep.sample(json!({"input": shown, "outcome": v}));
    }
    rep.finish(args);
}

fn hex(b: &[u8]) -> String {
    b.iter().map(|x| format!("{:02x}", x)).collect()
}
fn unhex(s: &str) -> Vec<u8> {
    (0..s.len() / 2).map(|i| u8::from_str_radix(&s[2 * i..2 * i + 2], 16).unwrap_or(0)).collect()
}
