//! C06 — replicas converge: once every update has reached every replica, all replicas answer reads alike,
//! every replica serves what its replication state says, and the agreed value is the write with the greatest
//! (time, replica) stamp.  Subjects: the production glue (`ReplicatedShardActor`, `ReplicatedShardedState`; the
//! harness is the network) and the simulator glue (`MultiNodeSimulation`: gossip, loss, partitions, anti-entropy).
//!
//! One *case* = one cluster history: client commands at chosen replicas interleaved with deliveries of the deltas
//! that `execute()` returned (reordered, duplicated, delayed, dropped-until-quiescence, held back by partitions),
//! forced to quiescence (everything delivered to every other replica, twice, in two different orders), then judged.
//! Attribution is per step: after every step the touched (replica, key) is read back and compared with the
//! projection of that replica's own snapshot; the step that made it incoherent names the signature.
use crate::common::*;
use rand::seq::SliceRandom;
use rand::Rng as _;
use redis_sim::io::TimeSource;
use redis_sim::production::{ReplicatedShardActor, ReplicatedShardHandle, ReplicatedShardedState};
use redis_sim::redis::{Command, RespValue, SDS};
use redis_sim::replication::state::{CrdtValue, ReplicatedValue};
use redis_sim::replication::{ConsistencyLevel, ReplicaId, ReplicationConfig, ReplicationDelta};
use redis_sim::simulator::multi_node::MultiNodeSimulation;
use redis_sim::simulator::VirtualTime;
use serde::{Deserialize, Serialize};
use serde_json::{json, Value};
use std::cell::RefCell;
use std::collections::{BTreeMap, BTreeSet, HashMap};
use std::sync::atomic::{AtomicU64, Ordering};
use std::sync::Arc;

// ---------------------------------------------------------------- case description (the witness format)

#[derive(Clone, Debug, PartialEq, Serialize, Deserialize)]
enum Cmd {
    Set { v: String, ex: Option<i64>, px: Option<i64>, nx: bool, xx: bool, get: bool, keepttl: bool },
    /// DEL of the listed keys (the op's own key is the first of them)
    Del(Vec<u8>),
    Incr,
    Decr,
    IncrBy(i64),
    DecrBy(i64),
    Append(String),
    GetSet(String),
    HSet(Vec<(String, String)>),
    HDel(Vec<String>),
    HIncrBy(String, i64),
}

#[derive(Clone, Debug, PartialEq, Serialize, Deserialize)]
enum Step {
    Op { id: usize, at: usize, key: u8, cmd: Cmd },
    /// hand the delta(s) that op `op` returned to replica `to` (a no-op when the op returned none)
    Deliver { op: usize, to: usize },
    /// all clocks advance (never far enough for a TTL to run out before the final check)
    Tick(u64),
    // simulator subject only
    Gossip,
    Part(usize, usize),
    Heal(usize, usize),
    Loss(u32),
    AntiEntropy,
}

#[derive(Clone, Debug, Serialize, Deserialize)]
struct Case {
    /// "actor" | "state" | "sim"
    subject: String,
    causal: bool,
    rids: Vec<u64>,
    steps: Vec<Step>,
    /// order of the first quiescence round (completed by the runner; the second round is its reverse)
    fin: Vec<(usize, usize)>,
    #[serde(default)]
    sim_seed: u64,
    #[serde(default)]
    auto_ae: bool,
    /// exactly-once network: no delta is handed to a replica twice (duplicate Deliver steps are skipped and the
    /// forced quiescence hands over only what a replica has never received, in one round). Re-delivery can repair
    /// what an incomplete delta left out, so convergence must also be shown without it.
    #[serde(default)]
    once: bool,
    /// late mode: after the history every TTL runs out and every replica's TTL sweep runs; only then is the rest
    /// delivered (late, reordered), followed by another sweep. Only what replicas *serve* is compared afterwards.
    #[serde(default)]
    late: bool,
}

/// Odd keys carry a Redis-Cluster style hash tag: every routing decision of a node (client command, remote delta, recovered
/// delta) has to treat the name as one opaque key, or all of them have to honour the tag alike.
fn kname(k: u8) -> String {
    if k % 2 == 1 {
        format!("k{}{{t{}}}", k, k)
    } else {
        format!("k{}", k)
    }
}
fn kidx(name: &str) -> u8 {
    name[1..].chars().take_while(|c| c.is_ascii_digit()).collect::<String>().parse().unwrap_or(0)
}
fn sds(s: &str) -> SDS {
    SDS::from_str(s)
}

fn label(c: &Cmd) -> String {
    match c {
        Cmd::Set { ex, px, nx, xx, get, keepttl, .. } => {
            let mut s = String::from("SET");
            if *nx { s.push_str(".NX") }
            if *xx { s.push_str(".XX") }
            if *get { s.push_str(".GET") }
            if *keepttl { s.push_str(".KEEPTTL") }
            match (ex, px) {
                (Some(e), _) if *e <= 0 => s.push_str(".EXbad"),
                (Some(_), _) => s.push_str(".EX"),
                (_, Some(p)) if *p < 1000 => s.push_str(".PXsub"),
                (_, Some(_)) => s.push_str(".PX"),
                _ => {}
            }
            s
        }
        Cmd::Del(ks) => if ks.len() > 1 { "DEL.multi".into() } else { "DEL".into() },
        Cmd::Incr => "INCR".into(),
        Cmd::Decr => "DECR".into(),
        Cmd::IncrBy(_) => "INCRBY".into(),
        Cmd::DecrBy(_) => "DECRBY".into(),
        Cmd::Append(_) => "APPEND".into(),
        Cmd::GetSet(_) => "GETSET".into(),
        Cmd::HSet(_) => "HSET".into(),
        Cmd::HDel(_) => "HDEL".into(),
        Cmd::HIncrBy(..) => "HINCRBY".into(),
    }
}

fn base(c: &Cmd) -> &'static str {
    match c {
        Cmd::Set { .. } => "SET",
        Cmd::Del(_) => "DEL",
        Cmd::Incr | Cmd::Decr | Cmd::IncrBy(_) | Cmd::DecrBy(_) => "INCR*",
        Cmd::Append(_) => "APPEND",
        Cmd::GetSet(_) => "GETSET",
        Cmd::HSet(_) => "HSET",
        Cmd::HDel(_) => "HDEL",
        Cmd::HIncrBy(..) => "HINCRBY",
    }
}

fn to_command(key: u8, c: &Cmd) -> Command {
    let k = kname(key);
    match c {
        Cmd::Set { v, ex, px, nx, xx, get, keepttl } => Command::Set { key: k, value: sds(v), ex: *ex, px: *px, exat: None, pxat: None, nx: *nx, xx: *xx, get: *get, keepttl: *keepttl },
        Cmd::Del(ks) => Command::Del(ks.iter().map(|k| kname(*k)).collect()),
        Cmd::Incr => Command::Incr(k),
        Cmd::Decr => Command::Decr(k),
        Cmd::IncrBy(n) => Command::IncrBy(k, *n),
        Cmd::DecrBy(n) => Command::DecrBy(k, *n),
        Cmd::Append(v) => Command::Append(k, sds(v)),
        Cmd::GetSet(v) => Command::GetSet(k, sds(v)),
        Cmd::HSet(p) => Command::HSet(k, p.iter().map(|(f, v)| (sds(f), sds(v))).collect()),
        Cmd::HDel(f) => Command::HDel(k, f.iter().map(|f| sds(f)).collect()),
        Cmd::HIncrBy(f, n) => Command::HIncrBy(k, sds(f), *n),
    }
}

fn touched(key: u8, c: &Cmd) -> Vec<u8> {
    match c {
        Cmd::Del(ks) => ks.iter().copied().collect::<BTreeSet<_>>().into_iter().collect(),
        _ => vec![key],
    }
}

// ---------------------------------------------------------------- what a client sees / what the state says

/// Client-visible answer for one key (GET, HGETALL sorted, EXISTS, TYPE, TTL as a class).
#[derive(Clone, Debug, PartialEq, Eq, Hash, Serialize, Default)]
struct View {
    kind: String,
    exists: bool,
    val: Option<String>,
    fields: Vec<(String, String)>,
    ttl: String,
}

impl View {
    fn absent() -> View {
        View { kind: "none".into(), exists: false, val: None, fields: vec![], ttl: "absent".into() }
    }
    /// prior-state class used in signatures
    fn class(&self) -> String {
        let t = if self.ttl == "some" { "+ttl" } else { "" };
        match self.kind.as_str() {
            "none" => "none".into(),
            k => format!("{}{}", k, t),
        }
    }
    fn content(&self) -> (String, bool, Option<String>, Vec<(String, String)>) {
        (self.kind.clone(), self.exists, self.val.clone(), self.fields.clone())
    }
}

/// First component in which two views differ.
fn diff(a: &View, b: &View) -> Option<&'static str> {
    if a.content() != b.content() {
        Some("content")
    } else if a.ttl != b.ttl {
        Some("ttl")
    } else {
        None
    }
}

fn text(r: &RespValue) -> String {
    match r {
        RespValue::SimpleString(s) => s.to_string(),
        RespValue::Error(s) => format!("-{}", s),
        RespValue::Integer(n) => n.to_string(),
        RespValue::BulkString(Some(b)) => lossy(b),
        RespValue::BulkString(None) => "(nil)".into(),
        RespValue::Array(Some(a)) => format!("[{}]", a.iter().map(text).collect::<Vec<_>>().join(",")),
        RespValue::Array(None) => "(nil-array)".into(),
    }
}

fn read_cmds(key: &str) -> [Command; 5] {
    [Command::TypeOf(key.into()), Command::Exists(vec![key.into()]), Command::Get(key.into()), Command::HGetAll(key.into()), Command::Ttl(key.into())]
}

fn served_view(r: &[RespValue]) -> View {
    let mut fields = vec![];
    if let RespValue::Array(Some(a)) = &r[3] {
        for p in a.chunks(2) {
            if p.len() == 2 {
                fields.push((text(&p[0]), text(&p[1])));
            }
        }
    }
    fields.sort();
    View {
        kind: text(&r[0]),
        exists: matches!(r[1], RespValue::Integer(n) if n > 0),
        val: if let RespValue::BulkString(Some(b)) = &r[2] { Some(lossy(b)) } else { None },
        fields,
        ttl: match r[4] {
            RespValue::Integer(-2) => "absent".into(),
            RespValue::Integer(-1) => "none".into(),
            RespValue::Integer(n) if n >= 0 => "some".into(),
            _ => format!("?{}", text(&r[4])),
        },
    }
}

/// pi: what a replicated value claims a client should see.
fn project(rv: Option<&ReplicatedValue>) -> View {
    let Some(rv) = rv else { return View::absent() };
    let ttl = if rv.expiry_ms.is_some() { "some" } else { "none" };
    match &rv.crdt {
        CrdtValue::Lww(l) => match l.get() {
            Some(v) => View { kind: "string".into(), exists: true, val: Some(lossy(v.as_bytes())), fields: vec![], ttl: ttl.into() },
            None => View::absent(),
        },
        CrdtValue::Hash(h) => {
            let mut fields: Vec<(String, String)> = h.iter().filter_map(|(f, l)| l.get().map(|v| (f.clone(), lossy(v.as_bytes())))).collect();
            fields.sort();
            if fields.is_empty() {
                View::absent()
            } else {
                View { kind: "hash".into(), exists: true, val: None, fields, ttl: ttl.into() }
            }
        }
        other => View { kind: format!("crdt:{}", other.type_name()), exists: true, val: None, fields: vec![], ttl: ttl.into() },
    }
}

type Stamp = (u64, u64);
fn stamp(rv: &ReplicatedValue) -> Stamp {
    (rv.timestamp.time, rv.timestamp.replica_id.0)
}
/// kind of a delta / state value for signature classes
fn rv_class(rv: &ReplicatedValue) -> String {
    let t = match rv.expiry_ms {
        Some(e) if e < 1000 => "+ttl<1s",
        Some(_) => "+ttl",
        None => "",
    };
    match &rv.crdt {
        CrdtValue::Lww(l) if l.tombstone => "tomb".into(),
        CrdtValue::Lww(l) if l.value.is_none() => "empty".into(),
        CrdtValue::Lww(_) => format!("string{}", t),
        CrdtValue::Hash(h) if h.values().all(|l| l.get().is_none()) => format!("hash0{}", t),
        CrdtValue::Hash(_) => format!("hash{}", t),
        o => o.type_name().into(),
    }
}

struct Look {
    served: View,
    state: View,
    stamp: Option<Stamp>,
    rvc: String,
}

#[derive(Clone, Debug)]
struct Finding {
    sig: String,
    detail: String,
    obs: Value,
}

/// The step that made a (replica, key) incoherent, kept as the classes a signature is built from.
#[derive(Clone, Debug, Default)]
struct Culprit {
    /// command family plus its condition flag (SET.NX, INCR*, apply, sim.SET ...)
    label: String,
    /// the command family alone (names TTL divergences) and the full label (names unshipped updates)
    family: String,
    full: String,
    /// what the replica served for the key before the step, outcome of the command (ok / noop / err), kind of the merged state
    prior: String,
    outcome: String,
    merged: String,
    pfx: String,
    /// the step turned a coherent key incoherent (as opposed to changing the kind of an existing incoherence)
    direct: bool,
}

fn no_ttl(s: &str) -> String {
    if s.ends_with("+ttl") { s[..s.len() - 4].to_string() } else { s.to_string() }
}

impl Culprit {
    fn op(pfx: &str, c: &Cmd, prior: &str, outcome: &str) -> Culprit {
        let (full, family) = (format!("{}{}", pfx, label(c)), format!("{}{}", pfx, base(c)));
        let mut lab = family.clone();
        if let Cmd::Set { nx, xx, .. } = c {
            lab.push_str(if *nx { ".NX" } else if *xx { ".XX" } else { "" });
        }
        // "noop" (accepted but changed nothing) only tells something for the conditional command
        let outcome = if outcome == "noop" && !matches!(c, Cmd::Set { .. }) { "ok" } else { outcome };
        Culprit { label: lab, family, full, prior: prior.into(), outcome: outcome.into(), pfx: pfx.into(), ..Default::default() }
    }
    fn apply(pfx: &str, prior: &str, merged: &str) -> Culprit {
        Culprit { label: format!("{}apply", pfx), full: format!("{}apply", pfx), prior: prior.into(), merged: merged.into(), pfx: pfx.into(), ..Default::default() }
    }
    /// Content divergences name the step and its input class; TTL divergences name the step only when a client
    /// command broke a coherent key, otherwise just the shape (expiry_ms is carried along by merges and type changes).
    fn sig(&self, comp: &str, l: &Look) -> String {
        let is_apply = self.label.ends_with("apply");
        if comp == "ttl" {
            let shape = format!("{}:state={},served={}", l.state.kind, l.state.ttl, l.served.ttl);
            if self.direct && !is_apply {
                format!("C06|{}|served_ne_state:ttl|{},{}", self.family, shape, self.outcome)
            } else {
                format!("C06|{}state|served_ne_state:ttl|{}", self.pfx, shape)
            }
        } else if is_apply {
            let m = if self.merged.starts_with("hash") { "hash".to_string() } else { no_ttl(&self.merged) };
            format!("C06|{}|served_ne_state:{}|served={},merged={}", self.label, comp, no_ttl(&self.prior), m)
        } else {
            format!("C06|{}|served_ne_state:{}|prior={},{}", self.label, comp, no_ttl(&self.prior), self.outcome)
        }
    }
}

/// Per-run attribution state.
#[derive(Default)]
struct Track {
    /// (replica, key) -> the step class that made served != state (absent = coherent)
    culprit: BTreeMap<(usize, u8), (String, Culprit)>,
    /// (replica, key) -> op class whose state change carried a stamp that no returned delta carried
    unshipped: BTreeMap<(usize, u8), Culprit>,
    last: BTreeMap<(usize, u8), View>,
    stamp: BTreeMap<(usize, u8), Option<Stamp>>,
    /// (replica, key): the replica has held a whole-key non-hash state of the key (tombstone, string) at some point
    saw_whole_key_change: BTreeSet<(usize, u8)>,
    /// keys for which some replica issued a hash update after it had held such a state (a new incarnation of the hash)
    recreated: BTreeSet<u8>,
}

impl Track {
    fn prior(&self, r: usize, k: u8) -> String {
        self.last.get(&(r, k)).map(|v| v.class()).unwrap_or_else(|| "none".into())
    }
    fn observe(&mut self, r: usize, k: u8, l: &Look, mut c: Culprit) {
        if l.rvc.starts_with("tomb") || l.rvc.starts_with("string") || l.rvc.starts_with("empty") {
            self.saw_whole_key_change.insert((r, k));
        }
        // the culprit is the latest step after which the kind of incoherence changed
        match diff(&l.served, &l.state) {
            None => {
                self.culprit.remove(&(r, k));
            }
            Some(comp) => {
                let shape = if comp == "ttl" { format!("ttl:{}/{}", l.state.ttl, l.served.ttl) } else { comp.to_string() };
                let was = self.culprit.get(&(r, k)).map(|(was, _)| was.clone());
                if was.as_ref() != Some(&shape) {
                    c.direct = was.is_none();
                    self.culprit.insert((r, k), (shape, c));
                }
            }
        }
        self.last.insert((r, k), l.served.clone());
        self.stamp.insert((r, k), l.stamp);
    }
}

/// Ground truth from the stamps of the deltas that were produced: expected (kind, val, fields) of the agreed value,
/// or None when the greatest stamp does not determine it (ambiguous tie, hash winner among mixed kinds).
fn expected(truth: &[ReplicatedValue]) -> Option<View> {
    let max = truth.iter().map(stamp).max()?;
    let winners: Vec<&ReplicatedValue> = truth.iter().filter(|v| stamp(v) == max).collect();
    let w = *winners.last()?;
    if winners.iter().any(|v| project(Some(v)).content() != project(Some(w)).content()) {
        return None;
    }
    match &w.crdt {
        CrdtValue::Lww(_) => Some(project(Some(w))),
        CrdtValue::Hash(_) => {
            if !truth.iter().all(|v| v.is_hash()) {
                return None;
            }
            let mut best: BTreeMap<String, redis_sim::replication::lattice::LwwRegister<SDS>> = BTreeMap::new();
            for v in truth {
                for (f, reg) in v.get_hash().into_iter().flatten() {
                    match best.get(f) {
                        Some(b) if b.timestamp >= reg.timestamp => {}
                        _ => {
                            best.insert(f.clone(), reg.clone());
                        }
                    }
                }
            }
            let fields: Vec<(String, String)> = best.iter().filter_map(|(f, l)| l.get().map(|v| (f.clone(), lossy(v.as_bytes())))).collect();
            Some(if fields.is_empty() { View::absent() } else { View { kind: "hash".into(), exists: true, val: None, fields, ttl: String::new() } })
        }
        _ => None,
    }
}

/// Logical time: a write accepted by a replica must be stamped after every update of that key the replica has
/// already merged (otherwise "greatest stamp wins" silently discards the newer write).
fn clock_check(pfx: &str, r: usize, k: u8, before: Option<Stamp>, after: Option<Stamp>) -> Option<Finding> {
    match (before, after) {
        (Some(b), Some(a)) if a < b => Some(Finding {
            sig: format!("C06|{}clock|write_stamped_below_observed_update|local-write-after-merge", pfx),
            detail: format!("replica #{} held {} at stamp {:?} and then stamped its own write {:?}", r, kname(k), b, a),
            obs: json!({"key": kname(k), "replica": r, "before": [b.0, b.1], "after": [a.0, a.1]}),
        }),
        _ => None,
    }
}

/// The three clauses of the property for one key at quiescence.
fn judge_key(pfx: &str, k: u8, looks: &[Look], truth: &[ReplicatedValue], tr: &Track, rep: &mut Report, out: &mut Vec<Finding>) {
    let obs = || {
        json!({"key": kname(k),
               "served": looks.iter().map(|l| json!(l.served)).collect::<Vec<_>>(),
               "state": looks.iter().map(|l| json!(l.state)).collect::<Vec<_>>(),
               "delta_stamps": truth.iter().map(|v| json!([stamp(v).0, stamp(v).1, rv_class(v)])).collect::<Vec<_>>()})
    };
    rep.count("keys_judged");
    let mut coherent = true;
    for (r, l) in looks.iter().enumerate() {
        if let Some(comp) = diff(&l.served, &l.state) {
            coherent = false;
            rep.count("raw:served_ne_state");
            let sig = tr.culprit.get(&(r, k)).map(|(_, c)| c.sig(comp, l)).unwrap_or_else(|| format!("C06|{}untouched|served_ne_state:{}|-", pfx, comp));
            out.push(Finding {
                sig,
                detail: format!("replica #{} serves {:?} for {} but its replication state says {:?}", r, l.served, kname(k), l.state),
                obs: obs(),
            });
        }
    }
    let differ = looks.windows(2).find_map(|w| diff(&w[0].served, &w[1].served));
    if differ.is_some() {
        rep.count("raw:replicas_differ");
    }
    if !coherent {
        return;
    }
    let unshipped = |out: &mut Vec<Finding>| -> bool {
        let Some(((r, _), c)) = tr.unshipped.iter().find(|((_, kk), _)| *kk == k) else { return false };
        out.push(Finding {
            sig: format!("C06|{}|update_not_shipped|{}", c.full, if c.full.ends_with("multi") { "key-not-last" } else { "single-key" }),
            detail: format!("replica #{} changed {} under a stamp that no delta returned by execute() carried, so no peer can ever learn it", r, kname(k)),
            obs: obs(),
        });
        true
    };
    if let Some(comp) = differ {
        if !unshipped(out) {
            // did the key change type along the way (deltas of both kinds), or is this a plain same-type merge?
            let hashes = truth.iter().filter(|v| v.is_hash()).count();
            // Facets of a type-change history. With a single hash writer that never starts a new incarnation of
            // the hash (no HSET after that replica held a DEL tombstone or a string for the key) every hash delta
            // is a complete, monotone snapshot of that writer's hash, and whole-key writes of other replicas are
            // decided by the outer stamp alone: that class must converge. Several hash writers, or a re-created
            // hash, are where the missing incarnation of the hash/hash merge shows (listed finding).
            let writers: BTreeSet<u64> = truth.iter().filter(|v| v.is_hash()).map(|v| stamp(v).1).collect();
            let what = if comp == "ttl" {
                "".to_string()
            } else if hashes == 0 || hashes == truth.len() {
                ",history=one-type".to_string()
            } else {
                format!(",history=type-changes,hash-writers={},{}", if writers.len() <= 1 { "one" } else { "many" }, if tr.recreated.contains(&k) { "hash-recreated-after-delete" } else { "hash-never-recreated" })
            };
            let kinds: BTreeSet<String> = looks.iter().map(|l| if comp == "ttl" { l.rvc.replace("<1s", "") } else { no_ttl(&l.rvc.replace("<1s", "").replace("hash0", "hash")) }).collect();
            out.push(Finding {
                sig: format!("C06|{}merge|replicas_differ:{}|states={}{}", pfx, comp, kinds.into_iter().collect::<Vec<_>>().join(","), what),
                detail: format!("every delta reached every replica and each replica serves its own state, yet replicas answer differently for {}", kname(k)),
                obs: obs(),
            });
        }
        return;
    }
    rep.count("keys_agreed");
    match expected(truth) {
        None => rep.count(if truth.is_empty() { "truth:no_delta" } else { "truth:undetermined" }),
        Some(e) => {
            rep.count("truth:checked");
            if e.content() != looks[0].served.content() && !unshipped(out) {
                out.push(Finding {
                    sig: format!("C06|{}lww|agreed_ne_greatest_stamp|winner={},agreed={}", pfx, no_ttl(&e.class()), no_ttl(&looks[0].served.class())),
                    detail: format!("all replicas agree on {:?} for {} but the write with the greatest stamp says {:?}", looks[0].served, kname(k), e),
                    obs: obs(),
                });
            }
        }
    }
}

// ---------------------------------------------------------------- production glue: nodes the harness networks

#[derive(Clone)]
struct FakeTime(Arc<AtomicU64>);
impl TimeSource for FakeTime {
    fn now_millis(&self) -> u64 {
        self.0.load(Ordering::Relaxed)
    }
}

enum Node {
    Actor(ReplicatedShardHandle),
    State(ReplicatedShardedState<FakeTime>, FakeTime),
    /// the same node, but the deltas that go on the wire are the ones the shards' bounded outboxes hand out
    /// (collect_pending_deltas, the path the delta-pulling loops of the maelstrom node and the simulator use), drained after
    /// every command so that the outbox never overflows
    Outbox(ReplicatedShardedState<FakeTime>, FakeTime),
}

impl Node {
    fn spawn(subject: &str, rid: u64, causal: bool) -> Node {
        let level = if causal { ConsistencyLevel::Causal } else { ConsistencyLevel::Eventual };
        if subject == "state" || subject == "outbox" {
            let mut cfg = ReplicationConfig::new_cluster(rid, vec![]);
            cfg.consistency_level = level;
            let t = FakeTime(Arc::new(AtomicU64::new(0)));
            let st = ReplicatedShardedState::with_time_source(cfg, t.clone());
            if subject == "outbox" { Node::Outbox(st, t) } else { Node::State(st, t) }
        } else {
            Node::Actor(ReplicatedShardActor::spawn(ReplicaId::new(rid), level, 0))
        }
    }
    async fn exec(&self, cmd: Command) -> (RespValue, Vec<ReplicationDelta>) {
        match self {
            Node::Actor(h) => {
                let (r, d) = h.execute(cmd).await;
                (r, d.into_iter().collect())
            }
            Node::State(s, _) => {
                let r = s.execute(cmd).await;
                let msgs = s.get_gossip_state().map(|g| g.write().drain_outbound()).unwrap_or_default();
                (r, msgs.into_iter().filter_map(|m| m.message.into_deltas()).flatten().collect())
            }
            Node::Outbox(s, _) => {
                let r = s.execute(cmd).await;
                if let Some(g) = s.get_gossip_state() {
                    g.write().drain_outbound();
                }
                (r, s.collect_pending_deltas().await)
            }
        }
    }
    fn apply(&self, d: ReplicationDelta) {
        match self {
            Node::Actor(h) => h.apply_remote_delta(d),
            Node::State(s, _) | Node::Outbox(s, _) => s.apply_remote_deltas(vec![d]),
        }
    }
    async fn snapshot(&self) -> HashMap<String, ReplicatedValue> {
        match self {
            Node::Actor(h) => h.get_snapshot().await,
            Node::State(s, _) | Node::Outbox(s, _) => s.snapshot_state().await,
        }
    }
    async fn tick(&self, now: u64) {
        match self {
            Node::Actor(h) => {
                h.evict_expired(VirtualTime::from_millis(now)).await;
            }
            Node::State(s, t) | Node::Outbox(s, t) => {
                t.0.store(now, Ordering::Relaxed);
                s.evict_expired_all_shards().await;
            }
        }
    }
    async fn look(&self, key: &str) -> Result<Look, String> {
        let mut rs = vec![];
        for c in read_cmds(key) {
            let r = self.exec(c).await.0;
            if matches!(&r, RespValue::Error(e) if e.starts_with("ERR shard")) {
                return Err(text(&r));
            }
            rs.push(r);
        }
        let snap = self.snapshot().await;
        let rv = snap.get(key);
        Ok(Look { served: served_view(&rs), state: project(rv), stamp: rv.map(stamp), rvc: rv.map(rv_class).unwrap_or_else(|| "absent".into()) })
    }
}

thread_local! { static LAST_PANIC: RefCell<Option<String>> = const { RefCell::new(None) }; }

struct Run<'a> {
    case: &'a Case,
    nodes: Vec<Node>,
    produced: BTreeMap<usize, (usize, Vec<ReplicationDelta>)>,
    truth: BTreeMap<u8, Vec<ReplicatedValue>>,
    tr: Track,
    seq: Vec<Vec<usize>>,
    seen: BTreeSet<(usize, usize)>,
    out: Vec<Finding>,
}

impl<'a> Run<'a> {
    fn died(&mut self, lab: &str, class: &str, what: String) {
        let p = LAST_PANIC.with(|p| p.borrow_mut().take()).unwrap_or(what);
        // class of the panic: source file and assertion text, without line numbers, paths or values
        let head: Vec<&str> = p.lines().take(2).collect();
        let site = head.first().and_then(|l| l.split("src/").last()).unwrap_or("").split(':').next().unwrap_or("");
        let what = head.get(1).map(|l| l.rsplit("failed: ").next().unwrap_or(l)).unwrap_or("");
        self.out.push(Finding { sig: format!("C06|{}|actor_panicked|{}: {}", lab, site, panic_class(what)), detail: format!("the shard actor died ({}): {}", class, p), obs: json!({}) });
    }
    async fn deliver(&mut self, op: usize, to: usize, rep: &mut Report, quiesce: bool) -> bool {
        let Some((from, ds)) = self.produced.get(&op).cloned() else { return true };
        if from == to || to >= self.nodes.len() {
            return true;
        }
        if self.case.once && self.seen.contains(&(op, to)) {
            rep.count("duplicate_deliveries_suppressed(exactly-once)");
            return true;
        }
        for d in ds {
            let key: u8 = kidx(&d.key);
            let prior = self.tr.prior(to, key);
            self.nodes[to].apply(d.clone());
            rep.count("deliveries");
            if !self.seen.insert((op, to)) {
                rep.count("duplicate_deliveries");
            } else if quiesce {
                rep.count("first_delivery_at_quiescence");
            }
            self.seq[to].push(op);
            match self.nodes[to].look(&d.key).await {
                Ok(l) => {
                    let c = Culprit::apply("", &prior, &l.rvc);
                    self.tr.observe(to, key, &l, c);
                }
                Err(e) => {
                    self.died("apply", &format!("prior={},delta={}", prior, rv_class(&d.value)), e);
                    return false;
                }
            }
        }
        true
    }
}

async fn run_nodes(case: &Case, rep: &mut Report) -> Vec<Finding> {
    let n = case.rids.len();
    let mut run = Run { case, nodes: case.rids.iter().map(|r| Node::spawn(&case.subject, *r, case.causal)).collect(), produced: BTreeMap::new(), truth: BTreeMap::new(), tr: Track::default(), seq: vec![vec![]; n], seen: BTreeSet::new(), out: vec![] };
    let mut keys: BTreeSet<u8> = BTreeSet::new();
    let mut now = 0u64;
    // Every fifth history starts in a cluster that has been running for a long time next to these (fresh) nodes: a replica that
    // no longer takes part (id 77) wrote every key of the history at logical time 5 000 000 and all nodes have received that
    // write. Whatever a node writes afterwards has to be stamped above it - however far ahead of the node's own clock it was.
    let touched_keys: BTreeSet<u8> = run.case.steps.iter().filter_map(|s| if let Step::Op { key, cmd, .. } = s { Some(touched(*key, cmd)) } else { None }).flatten().collect();
    // (random histories only - they carry a delivery plan; the exhaustive matrix keeps its designed prior states)
    if n >= 2 && !run.case.fin.is_empty() && (run.case.steps.len() + run.case.rids[0] as usize) % 5 == 0 {
        rep.count("runs_next_to_a_far_ahead_clock");
        for k in &touched_keys {
            let old = ReplicaId::new(77);
            let v = ReplicatedValue::with_value(sds("written-long-ago-by-a-far-ahead-node"), redis_sim::replication::lattice::LamportClock { time: 5_000_000 + *k as u64, replica_id: old });
            let d = ReplicationDelta::new(kname(*k), v.clone(), old);
            run.truth.entry(*k).or_default().push(v);
            for r in 0..n {
                run.nodes[r].apply(d.clone());
                if let Ok(l) = run.nodes[r].look(&kname(*k)).await {
                    let prior = run.tr.prior(r, *k);
                    let c = Culprit::apply("", &prior, &l.rvc);
                    run.tr.observe(r, *k, &l, c);
                }
            }
            keys.insert(*k);
        }
    }
    for st in &run.case.steps {
        match st {
            Step::Op { id, at, key, cmd } if *at < n => {
                let (lab, ks) = (label(cmd), touched(*key, cmd));
                let priors: Vec<String> = ks.iter().map(|k| run.tr.prior(*at, *k)).collect();
                let (resp, ds) = run.nodes[*at].exec(to_command(*key, cmd)).await;
                for d in &ds {
                    let dk: u8 = kidx(&d.key);
                    if d.value.is_hash() && run.tr.saw_whole_key_change.contains(&(*at, dk)) {
                        run.tr.recreated.insert(dk);
                    }
                }
                let err = match &resp {
                    RespValue::Error(e) if e.starts_with("ERR shard") => {
                        run.died(&lab, &format!("prior={}", priors[0]), text(&resp));
                        return run.out;
                    }
                    RespValue::Error(_) => true,
                    _ => false,
                };
                rep.count("ops");
                rep.add("deltas", ds.len() as u64);
                if err {
                    rep.count("failing_commands");
                    if !ds.is_empty() {
                        rep.count("failing_commands_that_returned_a_delta");
                    }
                }
                for d in &ds {
                    run.truth.entry(kidx(&d.key)).or_default().push(d.value.clone());
                }
                for (i, (k, prior)) in ks.iter().zip(&priors).enumerate() {
                    keys.insert(*k);
                    let before = run.tr.stamp.get(&(*at, *k)).copied().flatten();
                    let was = run.tr.last.get(&(*at, *k)).cloned().unwrap_or_else(View::absent);
                    match run.nodes[*at].look(&kname(*k)).await {
                        Ok(l) => {
                            let outcome = if err { "err" } else if was.content() == l.served.content() { "noop" } else { "ok" };
                            if i == 0 {
                                rep.count(&format!("cell:{}/{}/{}", base(cmd), prior, outcome));
                                rep.distinct(&("cell", &lab, prior, outcome));
                            }
                            let c = Culprit::op("", cmd, prior, outcome);
                            if let Some(f) = clock_check("", *at, *k, before, l.stamp) {
                                run.out.push(f);
                            }
                            // an update that never left this replica stays in the causal past of the key for good
                            if l.stamp != before && l.stamp.is_some() && !ds.iter().any(|d| d.key == kname(*k) && Some(stamp(&d.value)) == l.stamp) {
                                run.tr.unshipped.entry((*at, *k)).or_insert_with(|| c.clone());
                            }
                            if prior != "none" && l.served.kind != "none" && !prior.starts_with(l.served.kind.as_str()) {
                                rep.count("type_changes");
                            }
                            run.tr.observe(*at, *k, &l, c);
                        }
                        Err(e) => {
                            run.died(&lab, &format!("prior={}", prior), e);
                            return run.out;
                        }
                    }
                }
                run.produced.insert(*id, (*at, ds));
            }
            Step::Deliver { op, to } => {
                if !run.deliver(*op, *to, rep, false).await {
                    return run.out;
                }
            }
            Step::Tick(ms) => {
                now += ms;
                for nd in &run.nodes {
                    nd.tick(now).await;
                }
                rep.count("ticks");
            }
            _ => {}
        }
    }
    if run.case.late {
        // every TTL runs out, every replica sweeps; the rest of the deltas arrive only afterwards
        now += 5_000_000_000;
        for nd in &run.nodes {
            nd.tick(now).await;
        }
        rep.count("runs_late_delivery_after_expiry");
    }
    // quiescence: everything outstanding to everyone, twice, in two different orders
    let mut fin: Vec<(usize, usize)> = run.case.fin.iter().copied().filter(|(o, t)| run.produced.get(o).map_or(false, |(f, d)| f != t && !d.is_empty()) && *t < n).collect();
    for (id, (from, ds)) in &run.produced {
        for to in 0..n {
            if to != *from && !ds.is_empty() && !fin.contains(&(*id, to)) {
                fin.push((*id, to));
            }
        }
    }
    if run.case.once {
        rep.count("runs_exactly_once_network");
    }
    for round in 0..if run.case.once { 1 } else { 2 } {
        let order: Vec<(usize, usize)> = if round == 0 { fin.clone() } else { fin.iter().rev().copied().collect() };
        for (op, to) in order {
            if !run.deliver(op, to, rep, true).await {
                return run.out;
            }
        }
    }
    // evidence about the schedule
    let mut inv = 0u64;
    for s in &run.seq {
        for i in 0..s.len() {
            inv += s[i + 1..].iter().filter(|&&b| b < s[i]).count() as u64;
        }
    }
    rep.max("reorder_inversions_in_one_run", inv);
    if inv > 0 {
        rep.count("runs_with_reordering");
    }
    let labels: BTreeMap<usize, String> = run.case.steps.iter().filter_map(|s| if let Step::Op { id, at, key, cmd } = s { Some((*id, format!("{}@{}:{}", label(cmd), at, key))) } else { None }).collect();
    if run.seq.iter().any(|s| !s.is_empty()) {
        rep.distinct(&("order", &run.case.subject, n, run.seq.iter().map(|s| s.iter().map(|o| labels.get(o).cloned().unwrap_or_default()).collect::<Vec<_>>()).collect::<Vec<_>>()));
    }
    if run.case.late {
        now += 5_000_000_000;
        for nd in &run.nodes {
            nd.tick(now).await;
        }
        // everything that carried a TTL is gone by now; replicas must serve the same for every key
        for k in &keys {
            let mut served = vec![];
            for nd in &run.nodes {
                match nd.look(&kname(*k)).await {
                    Ok(l) => served.push(l.served),
                    Err(e) => {
                        run.died("read", "after-expiry", e);
                        return run.out;
                    }
                }
            }
            rep.count("keys_judged_after_expiry_and_late_delivery");
            if let Some(comp) = served.windows(2).find_map(|w| diff(&w[0], &w[1])) {
                // an update that never left its replica (the listed multi-key DEL finding) explains a difference here too
                if let Some(((r, _), c)) = run.tr.unshipped.iter().find(|((_, kk), _)| kk == k) {
                    run.out.push(Finding {
                        sig: format!("C06|{}|update_not_shipped|{}", c.full, if c.full.ends_with("multi") { "key-not-last" } else { "single-key" }),
                        detail: format!("replica #{} changed {} under a stamp that no delta returned by execute() carried, so no peer can ever learn it", r, kname(*k)),
                        obs: json!({"key": kname(*k), "served": served.iter().map(|l| json!(l)).collect::<Vec<_>>()}),
                    });
                    continue;
                }
                let kinds: BTreeSet<String> = served.iter().map(|v| v.kind.to_string()).collect();
                run.out.push(Finding {
                    sig: format!("C06|expire|replicas_differ_after_expiry_and_late_delivery:{}|served={}", comp, kinds.into_iter().collect::<Vec<_>>().join(",")),
                    detail: format!("every TTL ran out and every replica swept before the remaining deltas arrived; afterwards replicas serve {} differently: {:?}", kname(*k), served),
                    obs: json!({"key": kname(*k), "served": served.iter().map(|l| json!(l)).collect::<Vec<_>>()}),
                });
            }
        }
        return run.out;
    }
    // judge
    let mut clean: Vec<u8> = vec![];
    for k in &keys {
        let mut looks = vec![];
        for nd in &run.nodes {
            match nd.look(&kname(*k)).await {
                Ok(l) => looks.push(l),
                Err(e) => {
                    run.died("read", "quiescence", e);
                    return run.out;
                }
            }
        }
        let before = run.out.len();
        judge_key("", *k, &looks, run.truth.get(k).map(|v| v.as_slice()).unwrap_or(&[]), &run.tr, rep, &mut run.out);
        if run.out.len() == before {
            clean.push(*k);
            rep.count(&format!("agreed_ttl_class:{}", looks[0].served.ttl));
        }
    }
    // far future: every TTL has run out; replicas that agreed before must still agree
    now += 100_000_000_000;
    for nd in &run.nodes {
        nd.tick(now).await;
    }
    for k in clean {
        let mut ex = vec![];
        for nd in &run.nodes {
            ex.push(text(&nd.exec(Command::Exists(vec![kname(k)])).await.0));
        }
        if ex.iter().any(|e| e == "0") {
            rep.count("keys_gone_after_far_tick");
        }
        if ex.windows(2).any(|w| w[0] != w[1]) {
            run.out.push(Finding { sig: "C06|expire|replicas_differ_after_expiry|agreed_before".into(), detail: format!("replicas agreed on {} (incl. TTL class) but EXISTS differs once every TTL has run out: {:?}", kname(k), ex), obs: json!({"key": kname(k), "exists": ex}) });
        }
    }
    run.out
}

// ---------------------------------------------------------------- simulator glue

fn sim_look(sim: &mut MultiNodeSimulation, node: usize, key: &str) -> Look {
    let rs: Vec<RespValue> = read_cmds(key).iter().map(|c| sim.nodes[node].executor.execute(c)).collect();
    let rv = sim.nodes[node].replica_state.replicated_keys.get(key);
    Look { served: served_view(&rs), state: project(rv), stamp: rv.map(stamp), rvc: rv.map(rv_class).unwrap_or_else(|| "absent".into()) }
}

fn run_sim(case: &Case, rep: &mut Report) -> Vec<Finding> {
    let n = case.rids.len();
    let mut sim = MultiNodeSimulation::new(n, case.sim_seed).with_auto_anti_entropy(case.auto_ae);
    let mut tr = Track::default();
    let mut truth: BTreeMap<u8, Vec<ReplicatedValue>> = BTreeMap::new();
    let mut keys: BTreeSet<u8> = BTreeSet::new();
    let mut out = vec![];
    fn sweep(sim: &mut MultiNodeSimulation, keys: &BTreeSet<u8>, tr: &mut Track) {
        for r in 0..sim.nodes.len() {
            for k in keys {
                let prior = tr.prior(r, *k);
                let l = sim_look(sim, r, &kname(*k));
                tr.observe(r, *k, &l, Culprit::apply("sim.", &prior, &l.rvc));
            }
        }
    }
    for st in &case.steps {
        match st {
            Step::Op { at, key, cmd, .. } if *at < n => {
                let (lab, ks) = (format!("sim.{}", label(cmd)), touched(*key, cmd));
                let priors: Vec<String> = ks.iter().map(|k| tr.prior(*at, *k)).collect();
                let resp = sim.execute(0, *at, to_command(*key, cmd));
                let err = matches!(resp, RespValue::Error(_));
                rep.count("sim:ops");
                for (i, (k, prior)) in ks.iter().zip(&priors).enumerate() {
                    keys.insert(*k);
                    let before = tr.stamp.get(&(*at, *k)).copied().flatten();
                    let was = tr.last.get(&(*at, *k)).cloned().unwrap_or_else(View::absent);
                    let l = sim_look(&mut sim, *at, &kname(*k));
                    let outcome = if err { "err" } else if was.content() == l.served.content() { "noop" } else { "ok" };
                    if i == 0 {
                        rep.count(&format!("sim:cell:{}/{}/{}", label(cmd), prior, outcome));
                        rep.distinct(&("sim-cell", &lab, prior, outcome));
                    }
                    out.extend(clock_check("sim.", *at, *k, before, l.stamp));
                    if l.stamp != before {
                        if let Some(rv) = sim.nodes[*at].replica_state.replicated_keys.get(&kname(*k)) {
                            truth.entry(*k).or_default().push(rv.clone());
                        }
                    }
                    tr.observe(*at, *k, &l, Culprit::op("sim.", cmd, prior, outcome));
                }
            }
            Step::Gossip => {
                sim.gossip_round();
                rep.count("sim:gossip_rounds");
                sweep(&mut sim, &keys, &mut tr);
            }
            Step::Tick(ms) => sim.advance_time_ms(*ms),
            Step::Part(a, b) if a != b && *a < n && *b < n => {
                sim.partition(*a, *b);
                rep.count("sim:partitions");
            }
            Step::Heal(a, b) if a != b && *a < n && *b < n => {
                sim.heal_partition(*a, *b);
                sweep(&mut sim, &keys, &mut tr);
            }
            Step::Loss(pm) => {
                sim.packet_loss_rate = *pm as f64 / 1000.0;
                rep.count("sim:loss_changes");
            }
            Step::AntiEntropy => {
                sim.run_full_anti_entropy();
                sweep(&mut sim, &keys, &mut tr);
            }
            _ => {}
        }
    }
    // quiescence: heal, stop losing, flush the queue, then anti-entropy until nothing can be missing
    let parts: Vec<(usize, usize)> = { let mut p: Vec<_> = sim.partitions.iter().copied().collect(); p.sort(); p };
    sim.packet_loss_rate = 0.0;
    for (a, b) in parts {
        sim.heal_partition(a, b);
    }
    for _ in 0..3 {
        sim.advance_time_ms(50);
        sim.gossip_round();
    }
    for _ in 0..n + 1 {
        sim.run_full_anti_entropy();
    }
    sweep(&mut sim, &keys, &mut tr);
    rep.add("sim:anti_entropy_syncs", sim.anti_entropy_syncs);
    rep.add("sim:undelivered_at_end", sim.message_queue.len() as u64);
    for k in &keys {
        let looks: Vec<Look> = (0..n).map(|r| sim_look(&mut sim, r, &kname(*k))).collect();
        judge_key("sim.", *k, &looks, truth.get(k).map(|v| v.as_slice()).unwrap_or(&[]), &tr, rep, &mut out);
    }
    out
}

// ---------------------------------------------------------------- running, shrinking, reporting

fn run_case(case: &Case, rep: &mut Report) -> Vec<Finding> {
    let r = guard(|| {
        if case.subject == "sim" {
            run_sim(case, rep)
        } else {
            let rt = tokio::runtime::Builder::new_current_thread().enable_all().start_paused(true).build().expect("runtime");
            rt.block_on(run_nodes(case, rep))
        }
    });
    match r {
        Ok(f) => f,
        Err(p) => vec![Finding { sig: format!("C06|{}|panic|{}", case.subject, panic_class(&p)), detail: p, obs: json!({}) }],
    }
}

/// Signature without the facets that shrinking is allowed to change (they are recomputed on the minimal witness).
fn coarse(sig: &str) -> String {
    sig.replace(",hash-recreated-after-delete", "").replace(",hash-never-recreated", "").replace(",hash-writers=one", "").replace(",hash-writers=many", "")
}

fn has_sig(case: &Case, sig: &str) -> bool {
    let want = coarse(sig);
    run_case(case, &mut Report::new("C06", "scratch")).iter().any(|f| coarse(&f.sig) == want)
}

/// Greedy minimisation: drop steps (then replicas' worth of noise: fin order, causal flag) while the signature stays.
fn shrink(case: &Case, sig: &str) -> Case {
    let mut cur = case.clone();
    for _ in 0..3 {
        let before = cur.steps.len();
        let mut i = cur.steps.len();
        while i > 0 {
            i -= 1;
            let mut t = cur.clone();
            t.steps.remove(i);
            if has_sig(&t, sig) {
                cur = t;
            }
        }
        if cur.steps.len() == before {
            break;
        }
    }
    for f in [|c: &mut Case| c.fin.clear(), |c: &mut Case| c.causal = false, |c: &mut Case| { c.rids.pop(); }] {
        let mut t = cur.clone();
        f(&mut t);
        if t.rids.len() >= 2 && has_sig(&t, sig) {
            cur = t;
        }
    }
    cur
}

fn do_case(rep: &mut Report, case: &Case, part: &str) {
    rep.evaluations += 1;
    rep.count(&format!("runs:{}", part));
    rep.count(&format!("runs:subject:{}", case.subject));
    rep.count(&format!("runs:replicas:{}", case.rids.len()));
    let findings = run_case(case, rep);
    if !findings.is_empty() {
        rep.count("runs_with_findings");
    }
    for f in findings {
        if rep.has_sig(&f.sig) {
            rep.count("violations_raw");
            continue;
        }
        // the same raw signature may shrink to a witness of another class: try a few times, not for ever
        let tries = rep.counters.get(&format!("shrunk:{}", f.sig)).copied().unwrap_or(0);
        if tries >= 4 {
            rep.count("violations_raw");
            continue;
        }
        rep.count(&format!("shrunk:{}", f.sig));
        let small = shrink(case, &f.sig);
        let again = run_case(&small, &mut Report::new("C06", "scratch")).into_iter().find(|g| coarse(&g.sig) == coarse(&f.sig));
        let (wcase, wf) = match again { Some(g) => (small, g), None => (case.clone(), f) };
        let ops: Vec<String> = wcase.steps.iter().map(|s| match s { Step::Op { at, key, cmd, .. } => format!("#{} {} {}", at, label(cmd), kname(*key)), Step::Deliver { op, to } => format!("deliver op{}->#{}", op, to), o => format!("{:?}", o) }).collect();
        rep.violation(wf.sig.clone(), format!("{} | minimal history ({}): {}", wf.detail, wcase.subject, ops.join("; ")), json!({"case": wcase, "observed": wf.obs, "found_in": part}));
    }
}

// ---------------------------------------------------------------- generators

const VALS: &[&str] = &["a", "b", "5", "-3", "12", "x y", ""];
const FIELDS: &[&str] = &["f", "g", "h"];

fn set(v: &str) -> Cmd {
    Cmd::Set { v: v.into(), ex: None, px: None, nx: false, xx: false, get: false, keepttl: false }
}
fn set_with(v: &str, f: impl Fn(&mut Option<i64>, &mut Option<i64>, &mut bool, &mut bool, &mut bool, &mut bool)) -> Cmd {
    let mut c = set(v);
    if let Cmd::Set { ex, px, nx, xx, get, keepttl, .. } = &mut c {
        f(ex, px, nx, xx, get, keepttl);
    }
    c
}

/// The command alphabet of the exhaustive matrix; `v` distinguishes the two concurrent writers, `other` is a key nobody else uses.
fn alphabet(v: &str, key: u8, other: u8) -> Vec<Cmd> {
    vec![
        set(v),
        set_with(v, |_, _, nx, _, _, _| *nx = true),
        set_with(v, |_, _, _, xx, _, _| *xx = true),
        set_with(v, |_, _, _, _, get, _| *get = true),
        set_with(v, |_, _, nx, _, get, _| { *nx = true; *get = true }),
        set_with(v, |_, _, _, xx, get, _| { *xx = true; *get = true }),
        set_with(v, |ex, _, _, _, _, _| *ex = Some(100)),
        set_with(v, |_, px, _, _, _, _| *px = Some(150_000)),
        set_with(v, |_, px, _, _, _, _| *px = Some(500)),
        set_with(v, |ex, _, _, _, _, _| *ex = Some(0)),
        set_with(v, |_, _, _, _, _, k| *k = true),
        set_with(v, |ex, _, nx, _, _, _| { *ex = Some(100); *nx = true }),
        Cmd::Del(vec![key]),
        Cmd::Del(vec![key, other]),
        Cmd::Incr,
        Cmd::Decr,
        Cmd::IncrBy(5),
        Cmd::DecrBy(2),
        Cmd::Append(format!("+{}", v)),
        Cmd::GetSet(format!("gs-{}", v)),
        Cmd::HSet(vec![("f".into(), format!("9{}", v))]),
        Cmd::HSet(vec![("f".into(), "1".into()), ("h".into(), v.into())]),
        Cmd::HDel(vec!["f".into()]),
        Cmd::HDel(vec!["f".into(), "g".into()]),
        Cmd::HDel(vec!["zz".into()]),
        Cmd::HIncrBy("f".into(), 2),
        Cmd::HIncrBy("g".into(), 1),
    ]
}

/// Prior states of the key (built at replica 0 and delivered everywhere before the commands under test).
fn priors() -> Vec<(&'static str, Vec<Cmd>)> {
    vec![
        ("none", vec![]),
        ("int", vec![set("5")]),
        ("text", vec![set("ab")]),
        ("int+ttl", vec![set_with("5", |ex, _, _, _, _, _| *ex = Some(100))]),
        ("hash", vec![Cmd::HSet(vec![("f".into(), "1".into()), ("g".into(), "x".into())])]),
        ("deleted", vec![set("ab"), Cmd::Del(vec![0])]),
        ("hash-emptied", vec![Cmd::HSet(vec![("f".into(), "1".into())]), Cmd::HDel(vec!["f".into()])]),
        // the value the commands under test write (a conditional SET that fails then changes nothing but the TTL)
        ("same", vec![set("a")]),
        ("same+ttl", vec![set_with("a", |ex, _, _, _, _, _| *ex = Some(100))]),
    ]
}

/// Exhaustive matrix: prior x command (E1: at the replica that built the prior, or at a peer) and
/// prior x command@A x command@B issued concurrently, two observers receiving the two deltas in opposite orders (E2).
fn matrix_cases() -> Vec<(&'static str, Case)> {
    let mut out = vec![];
    let prefix = |steps: &mut Vec<Step>, pr: &[Cmd], n: usize| {
        for (i, c) in pr.iter().enumerate() {
            steps.push(Step::Op { id: i, at: 0, key: 0, cmd: c.clone() });
            for to in 1..n {
                steps.push(Step::Deliver { op: i, to });
            }
        }
    };
    for subject in ["actor", "state", "outbox"] {
        for (_, pr) in priors() {
            for c in alphabet("a", 0, 3) {
                for at in 0..2usize {
                    let mut steps = vec![];
                    prefix(&mut steps, &pr, 2);
                    steps.push(Step::Op { id: pr.len(), at, key: 0, cmd: c.clone() });
                    steps.push(Step::Deliver { op: pr.len(), to: 1 - at });
                    out.push(("E1", Case { subject: subject.into(), causal: false, rids: vec![1, 2], steps, fin: vec![], sim_seed: 0, auto_ae: false, once: false, late: false }));
                }
            }
        }
    }
    for (_, pr) in priors().into_iter().take(7) {
        for c1 in alphabet("a", 0, 3) {
            for c2 in alphabet("b", 0, 3) {
                let (mut steps, p) = (vec![], pr.len());
                prefix(&mut steps, &pr, 4);
                steps.push(Step::Op { id: p, at: 0, key: 0, cmd: c1.clone() });
                steps.push(Step::Op { id: p + 1, at: 1, key: 0, cmd: c2.clone() });
                for (op, to) in [(p, 2), (p + 1, 2), (p + 1, 3), (p, 3), (p, 1), (p + 1, 0)] {
                    steps.push(Step::Deliver { op, to });
                }
                out.push(("E2", Case { subject: "actor".into(), causal: false, rids: vec![1, 2, 3, 4], steps, fin: vec![], sim_seed: 0, auto_ae: false, once: false, late: false }));
            }
        }
    }
    // E3: every triple of type-/TTL-changing commands at one replica, delivered in order to a peer; the quiescence
    // rounds then re-deliver all three (stale ones included) in order and in reverse.
    let a = alphabet("a", 0, 3);
    let small: Vec<Cmd> = [0usize, 1, 6, 8, 12, 14, 18, 20, 21, 22, 25].iter().map(|i| a[*i].clone()).collect();
    for c1 in &small {
        for c2 in &small {
            for c3 in &small {
                let mut steps = vec![];
                for (i, c) in [c1, c2, c3].into_iter().enumerate() {
                    steps.push(Step::Op { id: i, at: 0, key: 0, cmd: c.clone() });
                    steps.push(Step::Deliver { op: i, to: 1 });
                }
                out.push(("E3", Case { subject: "actor".into(), causal: false, rids: vec![2, 1], steps, fin: vec![], sim_seed: 0, auto_ae: false, once: false, late: false }));
            }
        }
    }
    // E4: every quadruple of the six commands that create, replace and remove a key across types
    let tiny: Vec<Cmd> = [0usize, 6, 12, 20, 21, 22].iter().map(|i| a[*i].clone()).collect();
    for i in 0..tiny.len().pow(4) {
        let mut steps = vec![];
        for j in 0..4 {
            steps.push(Step::Op { id: j, at: 0, key: 0, cmd: tiny[i / tiny.len().pow(j as u32) % tiny.len()].clone() });
            steps.push(Step::Deliver { op: j, to: 1 });
        }
        out.push(("E4", Case { subject: "actor".into(), causal: false, rids: vec![2, 1], steps, fin: vec![], sim_seed: 0, auto_ae: false, once: false, late: false }));
    }
    // ES: the simulator's SET/DEL alphabet on every prior, at the node that wrote the prior and at a peer
    let nx = |v: &str| set_with(v, |_, _, nx, _, _, _| *nx = true);
    let ex = |v: &str| set_with(v, |ex, _, _, _, _, _| *ex = Some(100));
    for pr in [vec![], vec![set("a")], vec![ex("a")], vec![set("b")], vec![ex("b")]] {
        for c in [set("a"), ex("a"), nx("a"), set_with("a", |_, _, _, xx, _, _| *xx = true), Cmd::Del(vec![0]), Cmd::Del(vec![0, 3])] {
            for (at, lossy) in [(0usize, false), (1, false), (0, true), (1, true)] {
                // lossy: the prior's gossip is lost, peers learn it only from anti-entropy at quiescence
                let mut steps: Vec<Step> = vec![Step::Loss(if lossy { 1000 } else { 0 })];
                steps.extend(pr.iter().map(|c| Step::Op { id: 0, at: 0, key: 0, cmd: c.clone() }));
                steps.extend([Step::Gossip, Step::Tick(20), Step::Gossip, Step::Loss(0), Step::Op { id: 1, at, key: 0, cmd: c.clone() }, Step::Gossip, Step::Tick(20), Step::Gossip]);
                out.push(("ES", Case { subject: "sim".into(), causal: false, rids: vec![1, 2, 3], steps, fin: vec![], sim_seed: 7, auto_ae: true, once: false, late: false }));
            }
        }
    }
    out
}

fn gen_cmd(rng: &mut Rng, key: u8, nkeys: u8) -> Cmd {
    let v = *VALS.choose(rng).unwrap();
    let fld = |rng: &mut Rng| (*FIELDS.choose(rng).unwrap()).to_string();
    match rng.gen_range(0..100) {
        0..=27 => {
            let ttl = rng.gen_range(0..10);
            let cond = rng.gen_range(0..10);
            let (get, keep) = (rng.gen_bool(0.15), ttl == 9);
            set_with(v, |ex, px, nx, xx, g, k| {
                match ttl {
                    0 | 1 => *ex = Some([100, 250, 1000][cond % 3]),
                    2 => *px = Some(150_000),
                    3 => *px = Some(500),
                    4 if cond == 0 => *ex = Some(0),
                    _ => {}
                }
                *nx = cond == 1 || cond == 2;
                *xx = cond == 3 || cond == 4;
                *g = get;
                *k = keep && ex.is_none() && px.is_none();
            })
        }
        28..=39 => {
            if nkeys > 1 && rng.gen_bool(0.25) {
                let mut ks = vec![key];
                for _ in 0..rng.gen_range(1..3) {
                    ks.push(rng.gen_range(0..nkeys));
                }
                Cmd::Del(ks)
            } else {
                Cmd::Del(vec![key])
            }
        }
        40..=45 => Cmd::Incr,
        46..=48 => Cmd::Decr,
        49..=52 => Cmd::IncrBy(rng.gen_range(-5..50)),
        53..=54 => Cmd::DecrBy(rng.gen_range(-5..50)),
        55..=61 => Cmd::Append(v.into()),
        62..=66 => Cmd::GetSet(v.into()),
        67..=81 => Cmd::HSet((0..rng.gen_range(1..3)).map(|_| (fld(rng), (*VALS.choose(rng).unwrap()).to_string())).collect()),
        82..=91 => Cmd::HDel((0..rng.gen_range(1..3)).map(|_| fld(rng)).collect()),
        _ => Cmd::HIncrBy(fld(rng), rng.gen_range(-3..9)),
    }
}

/// A hostile history for the production glue: the delivery plan is drawn per (delta, destination).
fn gen_random(rng: &mut Rng, rep: &mut Report) -> Case {
    let n = rng.gen_range(2..=5usize);
    let mut pool = vec![1u64, 2, 3, 4, 5, 7, 9];
    pool.shuffle(rng);
    let nkeys = *[1u8, 1, 2, 2, 3, 4].choose(rng).unwrap();
    let nops = if rng.gen_bool(0.5) { rng.gen_range(2..=6usize) } else { rng.gen_range(7..=24usize) };
    let parts: Vec<(u64, u64, u32)> = (0..rng.gen_range(0..3)).map(|_| { let s = rng.gen_range(0..nops as u64); (s, s + rng.gen_range(1..=nops as u64), rng.gen_range(1..(1u32 << n) - 1)) }).collect();
    rep.add("partition_windows", parts.len() as u64);
    let mut ev: Vec<(u64, u64, Step)> = vec![];
    let mut fin = vec![];
    for i in 0..nops {
        let (at, key) = (rng.gen_range(0..n), rng.gen_range(0..nkeys));
        ev.push((i as u64 * 100, 0, Step::Op { id: i, at, key, cmd: gen_cmd(rng, key, nkeys) }));
        if rng.gen_bool(0.1) {
            ev.push((i as u64 * 100 + 50, rng.gen(), Step::Tick(rng.gen_range(1..5))));
        }
        for to in (0..n).filter(|t| *t != at) {
            fin.push((i, to));
            let copies = match rng.gen_range(0..100) { 0..=14 => 0, 15..=69 => 1, 70..=91 => 2, _ => 3 };
            if copies == 0 {
                rep.count("planned_drops_until_quiescence");
            }
            for _ in 0..copies {
                let mut t = i as u64 * 100 + 1 + match rng.gen_range(0..4) { 0 => rng.gen_range(0..50), 1 | 2 => rng.gen_range(0..400), _ => rng.gen_range(0..2500) };
                for (s, e, mask) in &parts {
                    if (mask >> at) & 1 != (mask >> to) & 1 && t >= s * 100 && t < e * 100 {
                        t = e * 100 + rng.gen_range(0..150);
                        rep.count("deliveries_held_by_partition");
                    }
                }
                ev.push((t, rng.gen(), Step::Deliver { op: i, to }));
            }
        }
    }
    ev.sort_by_key(|e| (e.0, e.1));
    fin.shuffle(rng);
    Case { subject: match rng.gen_range(0..10) { 0..=2 => "state".into(), 3 | 4 => "outbox".into(), _ => "actor".into() }, causal: rng.gen_bool(0.25), rids: pool[..n].to_vec(), steps: ev.into_iter().map(|e| e.2).collect(), fin, sim_seed: 0, auto_ae: false, once: rng.gen_bool(0.25), late: false }
}

/// One replica is the only hash writer of the key and never learns of the other replicas' whole-key writes (DEL,
/// SET) before quiescence, so it never starts a new incarnation of the hash; the others overwrite / delete the key
/// after having received some of its hash updates. Every hash update a peer can adopt must therefore be as complete
/// as the writer's own state: this class has to converge (it is outside the listed hash-incarnation finding).
fn gen_single_hash_writer(rng: &mut Rng) -> Case {
    let n = rng.gen_range(2..=4usize);
    let mut pool = vec![1u64, 2, 3, 4, 5, 7, 9];
    pool.shuffle(rng);
    let nh = rng.gen_range(3..=8usize);
    let fields = ["f", "g", "h", "i", "j"];
    let mut ev: Vec<(u64, u64, Step)> = vec![];
    let mut fin = vec![];
    let mut id = 0usize;
    for i in 0..nh {
        let f = fields[rng.gen_range(0..fields.len())].to_string();
        let cmd = match rng.gen_range(0..10) {
            0..=5 => Cmd::HSet(vec![(f, VALS.choose(rng).unwrap().to_string())]),
            6 => Cmd::HSet(vec![(f, "1".into()), (fields[rng.gen_range(0..fields.len())].to_string(), "2".into())]),
            7 | 8 => Cmd::HIncrBy(f, rng.gen_range(-3..9)),
            _ => Cmd::HDel(vec![f]),
        };
        let t = i as u64 * 100;
        ev.push((t, 0, Step::Op { id, at: 0, key: 0, cmd }));
        for to in 1..n {
            fin.push((id, to));
            if rng.gen_bool(0.7) {
                ev.push((t + 1 + rng.gen_range(0..300), rng.gen(), Step::Deliver { op: id, to }));
            }
        }
        id += 1;
    }
    // whole-key writes by the other replicas, somewhere in the middle; delivered among the others, never to the writer
    for _ in 0..rng.gen_range(1..=3usize) {
        let at = rng.gen_range(1..n);
        let t = rng.gen_range(50..(nh as u64) * 100);
        let cmd = match rng.gen_range(0..4) {
            0 | 1 => Cmd::Del(vec![0]),
            2 => set(VALS.choose(rng).unwrap()),
            _ => set_with(VALS.choose(rng).unwrap(), |_, _, _, xx, _, _| *xx = true),
        };
        ev.push((t, 1, Step::Op { id, at, key: 0, cmd }));
        for to in 0..n {
            if to != at {
                fin.push((id, to));
                if to != 0 && rng.gen_bool(0.6) {
                    ev.push((t + 1 + rng.gen_range(0..200), rng.gen(), Step::Deliver { op: id, to }));
                }
            }
        }
        id += 1;
    }
    ev.sort_by_key(|e| (e.0, e.1));
    fin.shuffle(rng);
    Case { subject: match rng.gen_range(0..10) { 0..=2 => "state".into(), 3 | 4 => "outbox".into(), _ => "actor".into() }, causal: false, rids: pool[..n].to_vec(), steps: ev.into_iter().map(|e| e.2).collect(), fin, sim_seed: 0, auto_ae: false, once: rng.gen_bool(0.6), late: false }
}

/// A history for MultiNodeSimulation: SET/DEL mixes with gossip rounds, loss, partitions and anti-entropy.
fn gen_sim(rng: &mut Rng) -> Case {
    let n = rng.gen_range(2..=5usize);
    let burst = rng.gen_bool(0.06);
    let nkeys: u8 = if burst { 140 } else { *[1u8, 2, 2, 3, 4].choose(rng).unwrap() };
    let len = if burst { 260 } else if rng.gen_bool(0.5) { rng.gen_range(3..=10) } else { rng.gen_range(10..=60) };
    let mut steps = vec![];
    for i in 0..len {
        let (a, b) = (rng.gen_range(0..n), rng.gen_range(0..n));
        let key = rng.gen_range(0..nkeys);
        let v = *VALS.choose(rng).unwrap();
        steps.push(match rng.gen_range(0..100) {
            _ if burst && i < 150 => Step::Op { id: i, at: 0, key: i as u8 % nkeys, cmd: set(v) },
            0..=29 => Step::Op { id: i, at: a, key, cmd: set(v) },
            30..=34 => Step::Op { id: i, at: a, key, cmd: set_with(v, |ex, _, _, _, _, _| *ex = Some(100)) },
            35..=38 => Step::Op { id: i, at: a, key, cmd: set_with(v, |_, _, nx, _, _, _| *nx = true) },
            39..=41 => Step::Op { id: i, at: a, key, cmd: set_with(v, |_, _, _, xx, _, _| *xx = true) },
            42..=56 => Step::Op { id: i, at: a, key, cmd: Cmd::Del(vec![key]) },
            57..=59 => Step::Op { id: i, at: a, key, cmd: Cmd::Del(vec![key, rng.gen_range(0..nkeys)]) },
            60..=77 => Step::Gossip,
            78..=85 => Step::Tick(rng.gen_range(1..30)),
            86..=90 => Step::Part(a, b),
            91..=94 => Step::Heal(a, b),
            95..=97 => Step::Loss(*[0u32, 200, 500, 1000].choose(rng).unwrap()),
            _ => Step::AntiEntropy,
        });
    }
    Case { subject: "sim".into(), causal: false, rids: (1..=n as u64).collect(), steps, fin: vec![], sim_seed: rng.gen_range(0..1000), auto_ae: rng.gen_bool(0.5), once: false, late: false }
}

// ---------------------------------------------------------------- the leg

pub fn converge_leg(args: &Args) {
    let mut rep = Report::new("C06", "converge");
    let prev = std::panic::take_hook();
    std::panic::set_hook(Box::new(move |info| {
        LAST_PANIC.with(|p| *p.borrow_mut() = Some(info.to_string()));
        prev(info);
    }));
    if let Some(path) = &args.replay {
        let w: Value = serde_json::from_str(&std::fs::read_to_string(path).expect("replay file")).expect("json");
        let case: Case = serde_json::from_value(w["witness"]["case"].clone()).expect("case");
        rep.evaluations += 1;
        for f in run_case(&case, &mut rep) {
            rep.violation(f.sig, f.detail, json!({"case": case, "observed": f.obs}));
        }
        rep.finish(args);
        return;
    }
    let t = args.thorough();
    let only = args.get_str("only").unwrap_or("");
    let want = |p: &str| only.is_empty() || only.split(',').any(|o| o == p);
    // E: exhaustive over the small space (seed-independent; shards partition it)
    let matrix = matrix_cases();
    let total = matrix.len();
    for (i, (part, case)) in matrix.into_iter().enumerate() {
        if i % args.shards == args.shard && want(part) {
            do_case(&mut rep, &case, part);
            if part == "E2" && rep.samples.is_empty() {
                rep.sample(json!({"part": part, "case": case}));
            }
        }
    }
    // R: random hostile histories on the production glue
    let mut rng = args.rng(60);
    let n_r = args.get_u64("random", if t { 6000 } else { 3000 });
    for i in 0..n_r {
        if !want("R") {
            break;
        }
        let case = gen_random(&mut rng, &mut rep);
        do_case(&mut rep, &case, "R");
        if i == 0 {
            rep.sample(json!({"part": "R", "case": case}));
        }
    }
    // H: single hash writer against whole-key writes of the others
    let mut rng = args.rng(62);
    for i in 0..args.get_u64("single-writer", if t { 6000 } else { 800 }) {
        if !want("H") {
            break;
        }
        let case = gen_single_hash_writer(&mut rng);
        do_case(&mut rep, &case, "H");
        if i == 0 {
            rep.sample(json!({"part": "H", "case": case}));
        }
    }
    // L: TTL-bearing histories whose remaining deltas arrive after every TTL ran out and every replica swept
    let mut rng = args.rng(63);
    for i in 0..args.get_u64("late", if t { 5000 } else { 700 }) {
        if !want("L") {
            break;
        }
        let mut case = gen_random(&mut rng, &mut rep);
        case.late = true;
        case.causal = false;
        // strings only, single-key DEL only: hashes and multi-key DEL are where the two listed findings live, and this
        // part is about deadlines, sweeps and late deliveries
        for st in case.steps.iter_mut() {
            if let Step::Op { key, cmd, .. } = st {
                let replace = matches!(cmd, Cmd::HSet(_) | Cmd::HDel(_) | Cmd::HIncrBy(..)) || matches!(cmd, Cmd::Del(ks) if ks.len() > 1);
                if replace {
                    let v = *VALS.choose(&mut rng).unwrap();
                    let px = [500i64, 150_000, 2_000][rng.gen_range(0..3)];
                    *cmd = if rng.gen_bool(0.7) { set_with(v, |_, p, _, _, _, _| *p = Some(px)) } else { Cmd::Del(vec![*key]) };
                }
            }
        }
        do_case(&mut rep, &case, "L");
        if i == 0 {
            rep.sample(json!({"part": "L", "case": case}));
        }
    }
    // S: the simulator's own glue
    let mut rng = args.rng(61);
    let n_s = args.get_u64("sim", if t { 4000 } else { 1500 });
    for i in 0..n_s {
        if !want("S") {
            break;
        }
        let case = gen_sim(&mut rng);
        do_case(&mut rep, &case, "S");
        if i == 0 {
            rep.sample(json!({"part": "S", "case": case}));
        }
    }
    // did the run see what it is meant to quantify over?
    let c = |k: &str| rep.counters.get(k).copied().unwrap_or(0);
    if only.is_empty() {
        let mut missing = vec![];
        for k in ["duplicate_deliveries", "first_delivery_at_quiescence", "runs_with_reordering", "deliveries_held_by_partition", "failing_commands", "type_changes", "ticks", "keys_agreed", "truth:checked", "keys_gone_after_far_tick", "runs:subject:actor", "runs:subject:state", "runs:subject:outbox", "runs:subject:sim", "sim:anti_entropy_syncs", "sim:partitions", "sim:loss_changes", "sim:gossip_rounds"] {
            if c(k) == 0 {
                missing.push(k.to_string());
            }
        }
        for b in ["SET", "DEL", "INCR*", "APPEND", "GETSET", "HSET", "HDEL", "HINCRBY"] {
            for p in ["none", "string", "hash"] {
                if !rep.counters.keys().any(|k| k.starts_with(&format!("cell:{}/{}", b, p))) {
                    missing.push(format!("cell:{}/{}", b, p));
                }
            }
        }
        for r in 2..=5 {
            if c(&format!("runs:replicas:{}", r)) == 0 {
                missing.push(format!("runs with {} replicas", r));
            }
        }
        if !missing.is_empty() {
            rep.inconclusive(format!("never observed: {}", missing.join(", ")));
        }
    }
    rep.exhaustive = false;
    rep.note(format!("matrix of {} cases (9 prior key states x 27 commands; 7 priors x all concurrent pairs; all triples of 11 and quadruples of 6 type-/TTL-changing commands at one replica) is enumerated completely across the shards; longer histories and schedules are sampled", total));
    rep.note("TTL is compared as a class (absent / none / some); exact remaining time is not compared");
    rep.finish(args);
}
