//! C16 — a command means the same via every entry path (both parsers, Lua redis.call).
//!
//! `c16-parsers`: differential of `Command::from_resp` (frames decoded by `RespParser`) against
//! `Command::from_resp_zero_copy` (same bytes decoded by `RespCodec`): Ok/Err agreement, identical
//! `Debug` rendering, identical error text, no panic.
//! `c16-script`: the same argv sent directly and through `EVAL "return redis.call(ARGV[1],..)"` /
//! `redis.pcall` on twin executors; reply compared modulo the RESP->Lua->RESP conversion, plus
//! the visible keyspace.
//! Command names and option keywords are scraped at run time from the string literals of the
//! three hand-written grammars (`--repo`, default /repo) and are used for INPUT GENERATION only.
use crate::common::*;
use crate::myresp::{self, Tree};
use bytes::BytesMut;
use rand::Rng as _;
use redis_sim::redis::{Command, CommandExecutor, RespCodec, RespParser, RespValue, Value};
use redis_sim::simulator::VirtualTime;
use serde_json::json;
use std::collections::{BTreeMap, BTreeSet};

// ------------------------------------------------------------------ vocabulary scraping

struct Vocab {
    /// every literal that heads a top-level match arm in one of the three grammars (sorted)
    names: Vec<String>,
    /// per name: upper-case literals found inside its arm block(s) (sub-commands, options)
    kw: BTreeMap<String, Vec<String>>,
    /// every keyword of every command (used to classify tokens)
    all_kw: BTreeSet<String>,
}

/// Upper-case "WORD" literals of one source line (error texts contain spaces / lower case).
fn upper_literals(line: &str) -> Vec<String> {
    let b = line.as_bytes();
    let (mut out, mut i) = (vec![], 0);
    while i < b.len() {
        if b[i] != b'"' {
            i += 1;
            continue;
        }
        let mut j = i + 1;
        while j < b.len() && b[j] != b'"' {
            j += if b[j] == b'\\' { 2 } else { 1 };
        }
        if j >= b.len() {
            break;
        }
        let lit = &line[i + 1..j];
        let ok = lit.len() >= 2
            && lit.as_bytes()[0].is_ascii_uppercase()
            && lit.bytes().all(|c| c.is_ascii_uppercase() || c.is_ascii_digit() || c == b'-');
        if ok {
            out.push(lit.to_string());
        }
        i = j + 1;
    }
    out
}

/// (arm names, literals inside the arm's block) for every top-level `"NAME" [| "ALIAS"] =>` arm.
fn scrape_file(text: &str) -> Vec<(Vec<String>, BTreeSet<String>)> {
    let lines: Vec<&str> = text.lines().collect();
    let indent = |l: &str| l.len() - l.trim_start().len();
    let arm_names = |l: &str| -> Option<Vec<String>> {
        let t = l.trim_start();
        if !t.starts_with('"') {
            return None;
        }
        let head = &t[..t.find("=>")?];
        let names = upper_literals(head);
        let only_literals = head.chars().filter(|&c| c == '"').count() == 2 * names.len()
            && head.chars().all(|c| c == '"' || c == '|' || c == ' ' || c == '-' || c.is_ascii_uppercase() || c.is_ascii_digit());
        if names.is_empty() || !only_literals {
            return None;
        }
        Some(names)
    };
    let arms: Vec<(usize, Vec<String>)> = lines.iter().enumerate().filter_map(|(i, l)| arm_names(l).map(|n| (i, n))).collect();
    let top = arms.iter().map(|(i, _)| indent(lines[*i])).min().unwrap_or(0);
    let mut out = vec![];
    for (i, names) in arms.iter().filter(|(i, _)| indent(lines[*i]) == top) {
        let mut lits = BTreeSet::new();
        let after = &lines[*i][lines[*i].find("=>").unwrap()..];
        lits.extend(upper_literals(after));
        for l in &lines[i + 1..] {
            if !l.trim().is_empty() && indent(l) <= top {
                break;
            }
            if !l.trim_start().starts_with("//") {
                lits.extend(upper_literals(l));
            }
        }
        out.push((names.clone(), lits));
    }
    out
}

fn scrape(args: &Args, rep: &mut Report) -> Vocab {
    let repo = args.get_str("repo").unwrap_or("/repo").to_string();
    let mut kw: BTreeMap<String, BTreeSet<String>> = BTreeMap::new();
    for f in ["src/redis/parser.rs", "src/redis/commands.rs", "src/redis/executor/script_ops.rs"] {
        let path = format!("{}/{}", repo, f);
        let text = std::fs::read_to_string(&path).unwrap_or_default();
        let arms = scrape_file(&text);
        rep.max(&format!("names_scraped:{}", f.rsplit('/').next().unwrap()), arms.iter().map(|a| a.0.len()).sum::<usize>() as u64);
        if arms.len() < 20 && !f.ends_with("script_ops.rs") {
            rep.inconclusive(format!("only {} command arms scraped from {}", arms.len(), path));
        }
        for (names, lits) in arms {
            for n in names {
                kw.entry(n).or_default().extend(lits.iter().cloned());
            }
        }
    }
    let all_kw: BTreeSet<String> = kw.values().flatten().cloned().collect();
    let names: Vec<String> = kw.keys().cloned().collect();
    rep.max("names_total", names.len() as u64);
    rep.max("keywords_total", all_kw.len() as u64);
    Vocab { names, kw: kw.into_iter().map(|(k, v)| (k, v.into_iter().collect())).collect(), all_kw }
}

// ------------------------------------------------------------------ tokens, classes, generators

const KEYS: [&str; 7] = ["s", "n", "l", "st", "h", "z", "missing"];
const PLAIN: [&str; 5] = ["a", "b", "c", "*", "field"];
const NUM_SMALL: [&str; 10] = ["0", "1", "-1", "2", "3", "-2", "-3", "-4", "10", "100"];
const NUM_EDGE: [&str; 8] = [
    "9223372036854775807",
    "9223372036854775808",
    "-9223372036854775808",
    "-9223372036854775809",
    "18446744073709551615",
    "18446744073709551616",
    "-18446744073709551615",
    "99999999999999999999999",
];
/// 32-bit boundaries: parser leg only (a SETBIT/SETRANGE at 2^32 would allocate 512 MB when executed)
const NUM_MID: [&str; 6] = ["2147483647", "2147483648", "-2147483648", "-2147483649", "4294967295", "4294967296"];
const NUM_ODD: [&str; 24] = ["1.5", "-0.5", "1e2", "inf", "-inf", "nan", "+1", "01", " 1", "1 ", "-0", "0x10", "1_0", "(1", "-01", "-007", "-00", "+0", "00", "--1", "-", "+", "1.0", "-1 "];
/// spellings substituted for every integer-looking argument of frames both parsers accept
const INT_SPELLINGS: [&str; 30] = [
    "0", "7", "-7", "+7", "07", "-07", "-007", "007", "-0", "+0", "00", "-00", " 7", "7 ", "7\n", "0x7", "7e0", "7.0", "-", "+", "", "--7", "1_0",
    "9223372036854775807", "9223372036854775808", "-9223372036854775808", "-9223372036854775809", "09223372036854775807", "-09223372036854775808", "18446744073709551616",
];

fn bulk(s: &str) -> Tree {
    Tree::Bulk(Some(s.as_bytes().to_vec()))
}

fn tok_class(t: &Tree, v: &Vocab) -> String {
    let num = |n: i128, p: &str| -> String {
        let m = if n < 0 { "negint" } else { "int" };
        if n > i64::MAX as i128 || n < i64::MIN as i128 {
            format!("{}big{}", p, m)
        } else if n > i32::MAX as i128 || n < i32::MIN as i128 {
            format!("{}{}64", p, m)
        } else {
            format!("{}{}", p, m)
        }
    };
    match t {
        Tree::Int(n) => num(*n as i128, ":"),
        Tree::Bulk(None) => "nil".into(),
        Tree::Arr(_) => "array".into(),
        Tree::Simple(_) => "simple".into(),
        Tree::Error(_) => "error".into(),
        Tree::Bulk(Some(b)) => match std::str::from_utf8(b) {
            Err(_) => "nonutf8".into(),
            Ok("") => "empty".into(),
            Ok(s) => {
                let up = s.to_uppercase();
                if v.all_kw.contains(&up) {
                    format!("kw{}:{}", if up == s { "" } else { "~case" }, up)
                } else if let Ok(n) = s.parse::<i128>() {
                    num(n, "")
                } else if s.parse::<f64>().is_ok() {
                    "float".into()
                } else {
                    "str".into()
                }
            }
        },
    }
}

fn class_of(args: &[Tree], v: &Vocab) -> String {
    format!("[{}]", args.iter().map(|t| tok_class(t, v)).collect::<Vec<_>>().join(","))
}

fn random_case(rng: &mut Rng, s: &str) -> String {
    match rng.gen_range(0..4) {
        0 => s.to_string(),
        1 => s.to_lowercase(),
        _ => s.chars().map(|c| if rng.gen_bool(0.5) { c.to_ascii_lowercase() } else { c.to_ascii_uppercase() }).collect(),
    }
}

fn pick<'a>(rng: &mut Rng, xs: &'a [&'a str]) -> &'a str {
    xs[rng.gen_range(0..xs.len())]
}

/// One argument. `wire` allows non-bulk RESP elements (parser leg); the script leg passes strings only.
fn gen_tok(rng: &mut Rng, kws: &[String], v: &Vocab, wire: bool) -> Tree {
    let r = rng.gen_range(0..100);
    if r < 34 {
        if kws.is_empty() || rng.gen_range(0..12) == 0 {
            let k = rng.gen_range(0..v.all_kw.len());
            return bulk(&random_case(rng, v.all_kw.iter().nth(k).unwrap()));
        }
        let k = rng.gen_range(0..kws.len());
        return bulk(&random_case(rng, &kws[k]));
    }
    match r {
        34..=48 => bulk(pick(rng, &KEYS)),
        49..=58 => bulk(pick(rng, &PLAIN)),
        59..=74 => bulk(pick(rng, &NUM_SMALL)),
        75..=80 => bulk(pick(rng, &NUM_EDGE)),
        81..=83 if wire => bulk(pick(rng, &NUM_MID)),
        81..=87 => bulk(pick(rng, &NUM_ODD)),
        88..=89 => bulk(""),
        90..=91 => Tree::Bulk(Some(vec![0xff, 0xfe, b'k'])),
        92..=93 => bulk("k\r\nv"),
        _ if !wire => bulk(pick(rng, &NUM_SMALL)),
        94..=95 => Tree::Int(*[0i64, 1, -1, 2, -3, i64::MAX, i64::MIN].get(rng.gen_range(0..7)).unwrap()),
        96 => Tree::Bulk(None),
        97 => Tree::Arr(Some(vec![bulk("a"), Tree::Int(1)])),
        98 => Tree::Arr(None),
        _ => Tree::Simple(b"OK".to_vec()),
    }
}

/// Greedy, deterministic minimisation of the argument list while `same` keeps holding.
/// Ranks make replacements strictly decreasing, so the loop terminates at a fixpoint.
fn shrink(mut args: Vec<Tree>, v: &Vocab, mut same: impl FnMut(&[Tree]) -> bool) -> Vec<Tree> {
    let rank = |t: &Tree| -> u8 {
        match t {
            Tree::Bulk(Some(b)) if b == b"a" => 0,
            Tree::Bulk(Some(b)) if b == b"1" => 1,
            Tree::Bulk(Some(b)) if b == b"-1" => 2,
            Tree::Bulk(Some(b)) => match std::str::from_utf8(b) {
                Ok(s) if v.all_kw.contains(s) || s.parse::<i128>().map_or(false, |n| n.to_string() == s) => 3,
                _ => 4,
            },
            _ => 5,
        }
    };
    loop {
        let mut changed = false;
        while !args.is_empty() && same(&args[..args.len() - 1]) {
            args.pop();
            changed = true;
        }
        // drop any window of 1, 2 or 3 consecutive arguments (options come as `KEYWORD value [value]`)
        for w in 1..=3usize {
            let mut i = args.len().saturating_sub(w) as isize;
            while i >= 0 {
                let at = i as usize;
                if at + w <= args.len() {
                    let mut t = args.clone();
                    t.drain(at..at + w);
                    if same(&t) {
                        args = t;
                        changed = true;
                    }
                }
                i -= 1;
            }
        }
        for i in 0..args.len() {
            let mut cands = vec![bulk("a"), bulk("1"), bulk("-1")];
            match &args[i] {
                Tree::Int(n) => cands.push(bulk(&n.to_string())),
                Tree::Bulk(Some(b)) => {
                    if let Ok(s) = std::str::from_utf8(b) {
                        cands.push(bulk(&s.to_uppercase()));
                    }
                }
                _ => {}
            }
            for c in cands {
                if rank(&c) < rank(&args[i]) {
                    let mut t = args.clone();
                    t[i] = c;
                    if same(&t) {
                        args = t;
                        changed = true;
                        break;
                    }
                }
            }
        }
        if !changed {
            return args;
        }
    }
}

fn sig_name(name: &Tree, v: &Vocab) -> String {
    match name {
        Tree::Bulk(Some(b)) => {
            let up = String::from_utf8_lossy(b).to_uppercase();
            if v.names.contains(&up) {
                up
            } else {
                "<unknown-name>".into()
            }
        }
        _ => "<no-name>".into(),
    }
}

// ------------------------------------------------------------------ leg 1: the two parsers

#[derive(Clone, Debug, PartialEq)]
enum P {
    Ok(String),
    Err(String),
    Panic(String),
}

/// Decode the same bytes with both decoders, then run both command parsers.
fn parse_pair(bytes: &[u8]) -> Result<(P, P), String> {
    let (rv, n) = RespParser::parse(bytes).map_err(|e| format!("RespParser: {}", e))?;
    let mut buf = BytesMut::from(bytes);
    let zc = RespCodec::parse(&mut buf)?.ok_or("RespCodec: incomplete")?;
    if n != bytes.len() || !buf.is_empty() || myresp::from_resp(&rv) != myresp::from_zc(&zc) {
        return Err("decoders disagree on the frame".into());
    }
    let a = match guard(|| Command::from_resp(&rv)) {
        Err(p) => P::Panic(p),
        Ok(Ok(c)) => P::Ok(format!("{:?}", c)),
        Ok(Err(e)) => P::Err(e),
    };
    let b = match guard(|| Command::from_resp_zero_copy(&zc)) {
        Err(p) => P::Panic(p),
        Ok(Ok(c)) => P::Ok(format!("{:?}", c)),
        Ok(Err(e)) => P::Err(e),
    };
    Ok((a, b))
}

/// (kind, who) of a disagreement; None = the parsers agree.
fn verdict(a: &P, b: &P) -> Option<(&'static str, &'static str)> {
    match (a, b) {
        (P::Panic(_), P::Panic(_)) => Some(("panic", "both:")),
        (P::Panic(_), _) => Some(("panic", "from_resp:")),
        (_, P::Panic(_)) => Some(("panic", "zero_copy:")),
        (P::Ok(_), P::Err(_)) => Some(("ok-vs-err", "from_resp-ok:")),
        (P::Err(_), P::Ok(_)) => Some(("ok-vs-err", "zero_copy-ok:")),
        (P::Ok(x), P::Ok(y)) if x != y => Some(("debug-differs", "")),
        (P::Err(x), P::Err(y)) if x != y => Some(("err-text", "")),
        _ => None,
    }
}

fn frame_bytes(elems: &[Tree]) -> Vec<u8> {
    let mut out = vec![];
    myresp::encode(&Tree::Arr(Some(elems.to_vec())), &mut out);
    out
}

struct PStats {
    frames_per_name: BTreeMap<String, u64>,
    ok_names: BTreeSet<String>,
    /// up to 2 frames per (name, length, keyword skeleton) that both parsers accepted identically
    accepted: BTreeMap<(String, usize, Vec<String>), Vec<Vec<Tree>>>,
}

/// Evaluate one frame (element 0 = command name) with all oracles of leg 1.
fn check_frame(rep: &mut Report, v: &Vocab, st: &mut PStats, elems: &[Tree]) {
    rep.evaluations += 1;
    let bytes = frame_bytes(elems);
    let (a, b) = match parse_pair(&bytes) {
        Ok(x) => x,
        Err(e) => {
            rep.count("skipped:decoders_disagree");
            rep.note(format!("frame skipped (C15 territory): {} on {}", e, lossy(&bytes)));
            return;
        }
    };
    let name = elems.first().map(|n| sig_name(n, v)).unwrap_or_else(|| "<no-name>".into());
    *st.frames_per_name.entry(name.clone()).or_insert(0) += 1;
    if matches!(a, P::Ok(_)) && matches!(b, P::Ok(_)) {
        st.ok_names.insert(name.clone());
        if a == b && elems.len() > 1 && elems.iter().all(|t| matches!(t, Tree::Bulk(Some(_)))) {
            let skel: Vec<String> = elems[1..].iter().map(|t| { let c = tok_class(t, v); if c.starts_with("kw") { c } else { "_".into() } }).collect();
            let e = st.accepted.entry((name.clone(), elems.len(), skel)).or_default();
            if e.len() < 2 {
                e.push(elems.to_vec());
            }
        }
    }
    let args = if elems.is_empty() { &elems[..] } else { &elems[1..] };
    let opts: BTreeSet<String> = args.iter().map(|t| tok_class(t, v)).filter(|c| c.starts_with("kw")).collect();
    let kind = |p: &P| if let P::Ok(_) = p { "ok" } else if let P::Err(_) = p { "err" } else { "panic" };
    rep.distinct(&(&name, args.len().min(9), &opts, kind(&a), kind(&b)));
    let Some(target) = verdict(&a, &b) else {
        rep.count(if matches!(a, P::Ok(_)) { "agree:both_ok_same" } else { "agree:both_err_same" });
        return;
    };
    rep.count(&format!("DISAGREE:{}", target.0));
    if elems.is_empty() {
        return;
    }
    // canonical name, then minimal argument list showing the same (kind, who)
    let still = |els: &[Tree]| parse_pair(&frame_bytes(els)).ok().and_then(|(x, y)| verdict(&x, &y)) == Some(target);
    let mut head = elems[0].clone();
    if name != "<unknown-name>" && name != "<no-name>" && still(&[vec![bulk(&name)], args.to_vec()].concat()) {
        head = bulk(&name);
    }
    let small = shrink(args.to_vec(), v, |xs| still(&[vec![head.clone()], xs.to_vec()].concat()));
    let full = [vec![head], small.clone()].concat();
    let fb = frame_bytes(&full);
    let (sa, sb) = parse_pair(&fb).expect("shrunk frame decodes");
    rep.violation(
        format!("C16|parsers|{}|{}|{}{}", name, target.0, target.1, class_of(&small, v)),
        format!("from_resp -> {:?} ; from_resp_zero_copy -> {:?}", sa, sb),
        json!({"frame": lossy(&fb)}),
    );
}

/// Longest list length L with |palette|^L <= budget (at most `cap`).
fn depth_for(palette: usize, budget: usize, cap: usize) -> usize {
    (1..=cap).take_while(|l| palette.checked_pow(*l as u32).map_or(false, |n| n <= budget)).last().unwrap_or(1)
}

/// All argument lists of length 0..=max_len over `palette`, shortest first; `f` returns false to stop.
fn enumerate(palette: &[Tree], max_len: usize, mut f: impl FnMut(&[Tree]) -> bool) {
    for len in 0..=max_len {
        for n in 0..palette.len().pow(len as u32) {
            // last position varies fastest, so the first lists of a shape differ in their trailing values
            let (mut x, mut argv) = (n, vec![Tree::Bulk(None); len]);
            for slot in argv.iter_mut().rev() {
                *slot = palette[x % palette.len()].clone();
                x /= palette.len();
            }
            if !f(&argv) {
                return;
            }
        }
    }
}

pub fn parsers_leg(args: &Args) {
    let mut rep = Report::new("C16", "parsers");
    let v = scrape(args, &mut rep);
    let mut st = PStats { frames_per_name: BTreeMap::new(), ok_names: BTreeSet::new(), accepted: BTreeMap::new() };
    if let Some(p) = &args.replay {
        let w: serde_json::Value = serde_json::from_str(&std::fs::read_to_string(p).expect("replay file")).expect("json");
        let bytes = unlossy(w["witness"]["frame"].as_str().unwrap_or(""));
        let elems = if let myresp::Outcome::Value(Tree::Arr(Some(e)), _) = myresp::decode(&bytes) { e } else { vec![] };
        check_frame(&mut rep, &v, &mut st, &elems);
        rep.finish(args);
        return;
    }
    if v.names.len() < 50 {
        rep.inconclusive(format!("only {} command names scraped (wrong --repo?)", v.names.len()));
        rep.finish(args);
        return;
    }
    let mut idx: u64 = 0;
    let mine = |idx: &mut u64| {
        *idx += 1;
        *idx % args.shards as u64 == args.shard as u64
    };
    // (1) frames that are not commands at all, and names no grammar knows
    let odd_heads: Vec<Vec<Tree>> = vec![
        vec![],
        vec![Tree::Bulk(None)],
        vec![Tree::Int(1)],
        vec![Tree::Simple(b"PING".to_vec())],
        vec![Tree::Arr(Some(vec![bulk("GET"), bulk("a")]))],
        vec![bulk("")],
        vec![bulk("NOSUCHCMD"), bulk("a")],
        vec![Tree::Bulk(Some(vec![0xff, b'G', b'E', b'T'])), bulk("a")],
        vec![bulk("get\u{0131}"), bulk("a")],
    ];
    for f in &odd_heads {
        check_frame(&mut rep, &v, &mut st, f);
        rep.count("gen:odd_heads");
    }
    // (2) bounded-exhaustive: every name x every argument list over {a, 1, -1} + its keywords, as deep as the budget allows
    for name in &v.names {
        let mut palette = vec![bulk("a"), bulk("1"), bulk("-1")];
        palette.extend(v.kw[name].iter().map(|k| bulk(k)));
        enumerate(&palette, depth_for(palette.len(), if args.thorough() { 1_000_000 } else { 60_000 }, 7), |argv| {
            if mine(&mut idx) {
                check_frame(&mut rep, &v, &mut st, &[vec![bulk(name)], argv.to_vec()].concat());
                rep.count("gen:enumerated");
            }
            true
        });
    }
    // (3) seeded random frames: random case, arity 0..=8, hostile tokens; budget weighted by option count
    let mut rng = args.rng(161);
    let budget = args.get_u64("random", if args.thorough() { 2_500_000 } else { 400_000 });
    let weights: Vec<u64> = v.names.iter().map(|n| 2 + v.kw[n].len() as u64).collect();
    let wsum: u64 = weights.iter().sum();
    for (name, w) in v.names.iter().zip(&weights) {
        for i in 0..(budget * w / wsum).max(50) {
            let arity = if i % 3 == 0 { rng.gen_range(0..=4) } else { rng.gen_range(0..=8) };
            let mut f = vec![bulk(&random_case(&mut rng, name))];
            f.extend((0..arity).map(|_| gen_tok(&mut rng, &v.kw[name], &v, true)));
            check_frame(&mut rep, &v, &mut st, &f);
            rep.count("gen:random");
            if i == 7 && rep.samples.len() < 4 {
                let (a, b) = parse_pair(&frame_bytes(&f)).unwrap_or((P::Err("-".into()), P::Err("-".into())));
                rep.sample(json!({"frame": lossy(&frame_bytes(&f)), "from_resp": format!("{:?}", a), "from_resp_zero_copy": format!("{:?}", b)}));
            }
        }
    }
    // (4) option-unit sequences: 0-3 plain arguments, then 1-3 units `KEYWORD [value]` with repetition allowed
    //     (a repeated or conflicting option, an option before its operands, a dangling keyword)
    for name in &v.names {
        let kws = &v.kw[name];
        if kws.is_empty() {
            continue;
        }
        let mut units: Vec<Vec<Tree>> = vec![];
        for k in kws.iter() {
            units.push(vec![bulk(k)]);
            units.push(vec![bulk(k), bulk("7")]);
        }
        let max_units = if units.len() <= 16 { 3 } else if units.len() <= 40 { 2 } else { 1 };
        for prefix in 0..=3usize {
            let pre: Vec<Tree> = [bulk("a"), bulk("1"), bulk("b")][..prefix].to_vec();
            for nu in 1..=max_units {
                for n in 0..units.len().pow(nu as u32) {
                    if !mine(&mut idx) {
                        continue;
                    }
                    let (mut x, mut f) = (n, vec![bulk(name)]);
                    f.extend(pre.iter().cloned());
                    let mut chosen = vec![];
                    for _ in 0..nu {
                        chosen.push(x % units.len());
                        x /= units.len();
                    }
                    for c in chosen {
                        f.extend(units[c].iter().cloned());
                    }
                    check_frame(&mut rep, &v, &mut st, &f);
                    rep.count("gen:option_units");
                }
            }
        }
    }
    // (5) integer spellings: in frames both parsers accepted, every argument that reads as an integer is
    //     replaced in turn by each non-canonical / boundary spelling
    let accepted: Vec<Vec<Tree>> = st.accepted.values().flatten().cloned().collect();
    for f in &accepted {
        for pos in 1..f.len() {
            let is_int = matches!(&f[pos], Tree::Bulk(Some(b)) if std::str::from_utf8(b).ok().and_then(|s| s.parse::<i128>().ok()).is_some());
            if !is_int {
                continue;
            }
            for sp in INT_SPELLINGS.iter() {
                let mut g = f.clone();
                g[pos] = bulk(&sp.replace("\\n", "\n"));
                check_frame(&mut rep, &v, &mut st, &g);
                rep.count("gen:int_spelling");
            }
        }
    }
    if rep.counters.get("gen:int_spelling").copied().unwrap_or(0) == 0 || rep.counters.get("gen:option_units").copied().unwrap_or(0) == 0 {
        rep.inconclusive("no integer-spelling substitution or no option-unit sequence was generated");
    }
    // observed enough?
    let unseen: Vec<&String> = v.names.iter().filter(|n| !st.frames_per_name.contains_key(*n)).collect();
    if !unseen.is_empty() {
        rep.inconclusive(format!("names never generated: {:?}", unseen));
    }
    let never_ok: Vec<&String> = v.names.iter().filter(|n| !st.ok_names.contains(*n)).collect();
    rep.max("names_accepted_by_both_at_least_once", st.ok_names.len() as u64);
    if !never_ok.is_empty() {
        rep.note(format!("names for which no generated frame was accepted by both parsers: {:?}", never_ok));
    }
    if never_ok.len() * 10 > v.names.len() {
        rep.inconclusive(format!("{} of {} names never produced an accepted frame", never_ok.len(), v.names.len()));
    }
    if rep.counters.get("agree:both_ok_same").copied().unwrap_or(0) == 0 || rep.counters.get("agree:both_err_same").copied().unwrap_or(0) == 0 {
        rep.inconclusive("agreement histogram has an empty class (both-ok or both-err never observed)");
    }
    rep.note("enumerated part is exhaustive per name for argument lists over {a,1,-1}+keywords of the command up to the largest length L<=7 with |palette|^L <= 60k (quick) / 1M (thorough); random part is sampled");
    rep.finish(args);
}

// ------------------------------------------------------------------ leg 2: direct vs redis.call / redis.pcall

/// Not invocable from a script by nature (connection / transaction / scripting control): excluded.
const NOSCRIPT: [&str; 14] =
    ["MULTI", "EXEC", "DISCARD", "WATCH", "UNWATCH", "EVAL", "EVALSHA", "SCRIPT", "FUNCTION", "AUTH", "ACL", "CLIENT", "WAIT", "DEBUG"];
/// Replies whose element order is unspecified (hash-map iteration): compared as multisets.
const UNORDERED: [&str; 9] = ["SMEMBERS", "HGETALL", "HKEYS", "HVALS", "KEYS", "SCAN", "HSCAN", "ZSCAN", "CONFIG"];
/// Replies that legitimately differ between two executors in the same state.
const NONDET: [&str; 3] = ["SPOP", "RANDOMKEY", "INFO"];

fn run_frame(ex: &mut CommandExecutor, argv: &[Vec<u8>]) -> RespValue {
    let bytes = myresp::frame_v(argv);
    match RespParser::parse(&bytes).map(|(v, _)| Command::from_resp(&v)) {
        Ok(Ok(cmd)) => ex.execute(&cmd),
        Ok(Err(e)) | Err(e) => RespValue::err(e),
    }
}

fn s(x: &str) -> Vec<u8> {
    x.as_bytes().to_vec()
}

/// Three keyspace states over the key pool KEYS: empty / one value of each type / types rotated + TTLs.
fn make_state(state: u64) -> CommandExecutor {
    let mut ex = CommandExecutor::new();
    ex.set_time(VirtualTime::from_millis(1_000));
    let setup: Vec<Vec<&str>> = match state {
        0 => vec![],
        1 => vec![
            vec!["SET", "s", "hello"],
            vec!["SET", "n", "10"],
            vec!["RPUSH", "l", "a", "b", "c", "1", "-1"],
            vec!["SADD", "st", "a", "b", "1", "-1"],
            vec!["HSET", "h", "a", "1", "1", "a", "-1", "x", "field", "v"],
            vec!["ZADD", "z", "1", "a", "2", "b", "3", "c", "4", "1", "5", "-1"],
        ],
        _ => vec![
            vec!["RPUSH", "s", "a"],
            vec!["SET", "n", "abc", "EX", "100"],
            vec!["SADD", "l", "a", "c"],
            vec!["HSET", "st", "a", "9223372036854775807"],
            vec!["ZADD", "h", "1.5", "a", "1.5", "b"],
            vec!["SET", "z", "9223372036854775807"],
            vec!["EXPIRE", "z", "50"],
        ],
    };
    for c in setup {
        let r = run_frame(&mut ex, &c.iter().map(|x| s(x)).collect::<Vec<_>>());
        assert!(!matches!(r, RespValue::Error(_)), "state setup failed: {:?} -> {:?}", c, r);
    }
    ex
}

/// Visible keyspace: sorted keys with TTL and a canonical rendering of the value.
fn snapshot(ex: &mut CommandExecutor) -> Vec<String> {
    let mut keys: Vec<String> = ex.get_data().keys().cloned().collect();
    keys.sort();
    let mut out = vec![];
    for k in keys {
        if ex.execute(&Command::Exists(vec![k.clone()])) != RespValue::Integer(1) {
            continue;
        }
        let ttl = ex.execute(&Command::Pttl(k.clone()));
        let sorted = |mut x: Vec<String>| {
            x.sort();
            x
        };
        let val = match ex.get_data().get(&k) {
            Some(Value::String(x)) => format!("string {}", lossy(x.as_bytes())),
            Some(Value::List(l)) => format!("list {:?}", l.range(0, -1).iter().map(|x| lossy(x.as_bytes())).collect::<Vec<_>>()),
            Some(Value::Set(x)) => format!("set {:?}", sorted(x.members().iter().map(|m| lossy(m.as_bytes())).collect())),
            Some(Value::Hash(h)) => {
                format!("hash {:?}", sorted(h.get_all().iter().map(|(f, x)| format!("{}={}", lossy(f.as_bytes()), lossy(x.as_bytes()))).collect()))
            }
            Some(Value::SortedSet(z)) => format!("zset {:?}", z.range(0, -1).iter().map(|(m, sc)| format!("{}:{}", lossy(m.as_bytes()), sc)).collect::<Vec<_>>()),
            Some(Value::Null) => "null".into(),
            None => "gone".into(),
        };
        out.push(format!("{} ttl={:?} {}", lossy(k.as_bytes()), ttl, val));
    }
    out
}

/// The documented RESP -> Lua -> RESP conversion applied to a direct reply (the Redis EVAL conversion table): a nil reply
/// becomes the Lua boolean false and false becomes nil again, so nil elements stay where they are; a null array comes back
/// as a nil bulk.
fn convert(r: &RespValue) -> RespValue {
    match r {
        RespValue::Array(None) => RespValue::BulkString(None),
        RespValue::Array(Some(v)) => RespValue::Array(Some(v.iter().map(convert).collect())),
        other => other.clone(),
    }
}

/// What a conversion that hands nil replies to Lua as `nil` (instead of `false`) makes of a reply: every table ends at its
/// first nil element. Used only to *name* that one deviation, never to accept anything.
fn convert_nil_as_lua_nil(r: &RespValue) -> RespValue {
    match r {
        RespValue::Array(None) => RespValue::BulkString(None),
        RespValue::Array(Some(v)) => {
            let mut out = vec![];
            for e in v {
                let c = convert_nil_as_lua_nil(e);
                if c == RespValue::BulkString(None) {
                    break;
                }
                out.push(c);
            }
            RespValue::Array(Some(out))
        }
        other => other.clone(),
    }
}

const NIL_TRUNCATES: &str = "nil-element-arrives-as-lua-nil:reply-ends-there";

fn multiset(r: &RespValue) -> Vec<String> {
    fn flat(r: &RespValue, out: &mut Vec<String>) {
        match r {
            RespValue::Array(Some(v)) => v.iter().for_each(|e| flat(e, out)),
            other => out.push(format!("{:?}", other)),
        }
    }
    let mut out = vec![];
    flat(r, &mut out);
    out.sort();
    out
}

struct PairOut {
    direct: RespValue,
    scripted: RespValue,
    ks_direct: Vec<String>,
    ks_script: Vec<String>,
}

fn run_twins(state: u64, argv: &[Vec<u8>], mode: &str) -> Result<PairOut, String> {
    let (mut a, mut b) = (make_state(state), make_state(state));
    let direct = guard(|| run_frame(&mut a, argv)).map_err(|p| format!("direct path panicked: {}", p))?;
    let script = format!("return redis.{}({})", mode, (1..=argv.len()).map(|i| format!("ARGV[{}]", i)).collect::<Vec<_>>().join(","));
    let mut eval = vec![s("EVAL"), s(&script), s("0")];
    eval.extend(argv.iter().cloned());
    let scripted = guard(|| run_frame(&mut b, &eval)).map_err(|p| format!("scripted path panicked: {}", p))?;
    Ok(PairOut { direct, scripted, ks_direct: snapshot(&mut a), ks_script: snapshot(&mut b) })
}

/// (kind, fixed class or "" when the class comes from the shrunk arguments)
fn script_verdict(name: &str, o: &PairOut) -> Option<(&'static str, &'static str)> {
    let nondet = NONDET.contains(&name);
    let reply = match (&o.direct, &o.scripted) {
        (RespValue::Error(_), RespValue::Error(_)) => None,
        (_, RespValue::Error(e)) if e.contains("Unknown Redis command") => Some(("ok-vs-err", "lua-unknown-command")),
        (_, RespValue::Error(_)) => Some(("ok-vs-err", "")),
        (RespValue::Error(_), _) => Some(("err-vs-ok", "")),
        (d, sc) => {
            let want = convert(d);
            let same = &want == sc || (UNORDERED.contains(&name) && multiset(&want) == multiset(sc));
            let cut = convert_nil_as_lua_nil(d);
            if same || nondet {
                None
            } else if cut != want && (&cut == sc || (UNORDERED.contains(&name) && multiset(&cut) == multiset(sc))) {
                // exactly the direct reply cut at its first nil element: one root cause, whatever the command
                Some(("reply-differs", NIL_TRUNCATES))
            } else {
                Some(("reply-differs", ""))
            }
        }
    };
    reply.or(if o.ks_direct != o.ks_script && !nondet { Some(("keyspace-differs", "")) } else { None })
}

fn to_argv(name: &Tree, xs: &[Tree]) -> Vec<Vec<u8>> {
    std::iter::once(name).chain(xs).map(|t| if let Tree::Bulk(Some(b)) = t { b.clone() } else { vec![] }).collect()
}

/// (keywords used, length, keyword skeleton) -> token-class vector -> one argument list
type Shapes = BTreeMap<(usize, usize, String), BTreeMap<String, Vec<Tree>>>;

struct SStats {
    both_ok: BTreeMap<String, u64>,
    shrink_cache: BTreeMap<String, String>,
}

fn check_script_case(rep: &mut Report, v: &Vocab, st: &mut SStats, name: &str, argv: &[Vec<u8>], state: u64, mode: &str) {
    rep.evaluations += 1;
    let o = match run_twins(state, argv, mode) {
        Ok(o) => o,
        Err(p) => {
            rep.count("skipped:executor_panic");
            rep.note(format!("{}: {} (parser panics are reported by c16-parsers, executor panics are not a C16 subject)", name, panic_class(&p)));
            return;
        }
    };
    let args: Vec<Tree> = argv[1..].iter().map(|b| Tree::Bulk(Some(b.clone()))).collect();
    let cls = class_of(&args, v);
    let d_err = matches!(o.direct, RespValue::Error(_));
    let s_err = matches!(o.scripted, RespValue::Error(_));
    rep.distinct(&(name, &cls, state, mode, d_err, s_err));
    if o.direct != convert(&o.direct) {
        rep.count("conversion:reply_changed_by_lua_roundtrip");
    }
    let wit = |a: &[Vec<u8>]| json!({"argv": a.iter().map(|x| lossy(x)).collect::<Vec<_>>(), "state": state, "mode": mode});
    if rep.samples.len() < 5 && !d_err && !s_err && rep.evaluations % 97 == 0 {
        rep.sample(json!({"case": wit(argv), "direct": format!("{:?}", o.direct), "scripted": format!("{:?}", o.scripted), "keyspace": o.ks_script}));
    }
    let Some(target) = script_verdict(name, &o) else {
        match (d_err, s_err) {
            (true, true) => {
                rep.count("agree:both_error");
                if o.direct != o.scripted {
                    rep.count("agree:both_error_text_differs(not compared)");
                }
            }
            _ => {
                rep.count("agree:same_reply_and_keyspace");
                *st.both_ok.entry(name.to_string()).or_insert(0) += 1;
            }
        }
        return;
    };
    rep.count(&format!("DISAGREE:{}", target.0));
    let head = bulk(name);
    let (small, class) = if !target.1.is_empty() {
        (args.clone(), target.1.to_string())
    } else {
        let key = format!("{}|{}|{}|{}|{}", name, target.0, state, mode, cls);
        if let Some(sig) = st.shrink_cache.get(&key) {
            rep.violation(sig.clone(), "", json!({}));
            return;
        }
        let small = shrink(args.clone(), v, |xs| run_twins(state, &to_argv(&head, xs), mode).ok().and_then(|o| script_verdict(name, &o)) == Some(target));
        let class = class_of(&small, v);
        st.shrink_cache.insert(key, format!("C16|script|{}|{}|{}", name, target.0, class));
        (small, class)
    };
    let sa = to_argv(&head, &small);
    let so = run_twins(state, &sa, mode).expect("shrunk case runs");
    if class == NIL_TRUNCATES {
        rep.count(&format!("nil_element_truncation_seen:{}", name));
    }
    rep.violation(
        if class == NIL_TRUNCATES { format!("C16|script|conversion|{}", NIL_TRUNCATES) } else { format!("C16|script|{}|{}|{}", name, target.0, class) },
        format!("direct -> {:?} ; redis.{} -> {:?} ; keyspace direct {:?} ; keyspace scripted {:?}", so.direct, mode, so.scripted, so.ks_direct, so.ks_script),
        wit(&sa),
    );
}

/// Several redis.pcall invocations in ONE script against the same commands sent one after the other by a client: a script
/// run is a sequence of ordinary commands, and each call means what its own arguments say - whatever an earlier call in the
/// same run looked like (argument lists that differ only in where the boundaries between arguments fall, the same
/// words under another command name, the same call repeated).
fn multi_call_cases(rep: &mut Report) {
    let w = |xs: &[&str]| -> Vec<Vec<u8>> { xs.iter().map(|x| s(x)).collect() };
    let groups: Vec<Vec<Vec<Vec<u8>>>> = vec![
        vec![w(&["RPUSH", "q", "a b"]), w(&["RPUSH", "q", "a", "b"]), w(&["LRANGE", "q", "0", "-1"])],
        vec![w(&["RPUSH", "q", "a", "b"]), w(&["RPUSH", "q", "a b"]), w(&["LLEN", "q"])],
        vec![w(&["SADD", "s", "m n"]), w(&["SADD", "s", "m", "n"]), w(&["SCARD", "s"])],
        vec![w(&["SET", "k", "v x"]), w(&["SET", "k", "v", "x"]), w(&["GET", "k"])],
        vec![w(&["DEL", "a b"]), w(&["SET", "a", "1"]), w(&["SET", "b", "2"]), w(&["DEL", "a", "b"]), w(&["EXISTS", "a", "b"])],
        vec![w(&["HSET", "h", "f", "v w"]), w(&["HSET", "h", "f", "v", "w"]), w(&["HGETALL", "h"])],
        vec![w(&["APPEND", "k", "x y"]), w(&["APPEND", "k x", "y"]), w(&["GET", "k"]), w(&["GET", "k x"])],
        vec![w(&["INCR", "n"]), w(&["INCR", "n"]), w(&["INCRBY", "n", "5"]), w(&["INCRBY", "n", "5"]), w(&["GET", "n"])],
        vec![w(&["LPUSH", "l", "1 2"]), w(&["LPUSH", "l", "1", "2"]), w(&["RPOP", "l"]), w(&["RPOP", "l"]), w(&["RPOP", "l"])],
        vec![w(&["MSET", "a b", "c"]), w(&["MSET", "a", "b c"]), w(&["MGET", "a b", "a"])],
        vec![w(&["ZADD", "z", "1", "m 2 n"]), w(&["ZADD", "z", "1", "m", "2", "n"]), w(&["ZCARD", "z"])],
        vec![w(&["SET", "k", "1"]), w(&["GET", "k"]), w(&["SET", "k", "2"]), w(&["GET", "k"])],
    ];
    // Any command first, then writes and reads in the same run: what a call did or returned must not change what the later
    // calls of the run mean. `skip` = a reply that legitimately differs between two executors (hash order, clock) - its
    // command still runs on both sides and everything after it is compared.
    let mut groups: Vec<(Vec<Vec<Vec<u8>>>, Option<usize>)> = groups.into_iter().map(|g| (g, None)).collect();
    let setup = [w(&["SET", "k", "v"]), w(&["SADD", "s1", "only"]), w(&["HSET", "h", "f", "v"]), w(&["ZADD", "z", "1", "m"]), w(&["RPUSH", "q", "a"])];
    let tail = [w(&["SET", "w", "1"]), w(&["INCR", "w"]), w(&["APPEND", "k", "+"]), w(&["HSET", "h", "g", "2"]), w(&["LPUSH", "q", "b"]), w(&["DEL", "z"]), w(&["EXPIRE", "w", "100"]), w(&["GET", "w"]), w(&["GET", "k"]), w(&["LRANGE", "q", "0", "-1"]), w(&["EXISTS", "z", "h"])];
    let firsts: Vec<(Vec<Vec<u8>>, bool)> = vec![
        (w(&["TIME"]), true), (w(&["RANDOMKEY"]), true), (w(&["SCAN", "0"]), true), (w(&["SCAN", "0", "MATCH", "k*", "COUNT", "100"]), true), (w(&["KEYS", "*"]), false),
        (w(&["SPOP", "s1"]), false), (w(&["SRANDMEMBER", "s1"]), false), (w(&["HSCAN", "h", "0"]), false), (w(&["ZSCAN", "z", "0"]), false), (w(&["SSCAN", "s1", "0"]), false),
        (w(&["DBSIZE"]), false), (w(&["TTL", "k"]), false), (w(&["PTTL", "k"]), false), (w(&["TYPE", "h"]), false), (w(&["EXISTS", "k"]), false), (w(&["GET", "k"]), false), (w(&["GET", "h"]), false),
        (w(&["LRANGE", "q", "0", "-1"]), false), (w(&["SMEMBERS", "s1"]), false), (w(&["HGETALL", "h"]), false), (w(&["ZRANGE", "z", "0", "-1", "WITHSCORES"]), false), (w(&["ECHO", "x"]), false),
        (w(&["PING"]), false), (w(&["INFO"]), true), (w(&["OBJECT", "ENCODING", "k"]), false), (w(&["STRLEN", "k"]), false), (w(&["GETRANGE", "k", "0", "-1"]), false), (w(&["INCR", "k"]), false),
        (w(&["LPOP", "nolist"]), false), (w(&["NOSUCHCOMMAND"]), false), (w(&["SET", "k"]), false), (w(&["EXPIRE", "k", "100"]), false), (w(&["PERSIST", "k"]), false), (w(&["FLUSHDB"]), false),
        (w(&["SETEX", "e", "100", "v"]), false), (w(&["GETDEL", "k"]), false), (w(&["RENAME", "k", "k2"]), false), (w(&["SORT", "q"]), false), (w(&["LINDEX", "q", "0"]), false), (w(&["ZSCORE", "z", "m"]), false),
    ];
    for (f, skip) in firsts {
        let mut g: Vec<Vec<Vec<u8>>> = setup.to_vec();
        let at = g.len();
        g.push(f);
        g.extend(tail.iter().cloned());
        groups.push((g, skip.then_some(at)));
    }
    for (gi, (cmds, skip)) in groups.iter().enumerate() {
        for mode in ["call", "pcall"] {
            rep.evaluations += 1;
            rep.count("multi_call_scripts");
            let (mut a, mut b) = (make_state(0), make_state(0));
            let mut direct: Vec<RespValue> = vec![];
            let mut panicked = false;
            for c in cmds {
                match guard(|| run_frame(&mut a, c)) {
                    Ok(r) => direct.push(r),
                    Err(_) => {
                        panicked = true;
                        break;
                    }
                }
            }
            if panicked {
                continue;
            }
            // with redis.call a failing command ends the script: compare up to the first error; pcall returns errors as values
            let mut idx = 1;
            let mut calls = vec![];
            let mut argv_all: Vec<Vec<u8>> = vec![];
            for c in cmds {
                calls.push(format!("redis.pcall({})", (0..c.len()).map(|j| format!("ARGV[{}]", idx + j)).collect::<Vec<_>>().join(",")));
                idx += c.len();
                argv_all.extend(c.iter().cloned());
            }
            let _ = mode;
            let script = format!("local r = {{}}; {} return r", calls.iter().enumerate().map(|(i, c)| format!("local v{} = {}; if type(v{}) == 'table' and v{}.err then r[{}] = 'ERR:' .. v{}.err elseif type(v{}) == 'table' and v{}.ok then r[{}] = 'OK:' .. v{}.ok elseif v{} == false or v{} == nil then r[{}] = 'NIL' else r[{}] = v{} end;", i, c, i, i, i + 1, i, i, i, i + 1, i, i, i, i + 1, i + 1, i)).collect::<Vec<_>>().join(" "));
            let mut eval = vec![s("EVAL"), s(&script), s("0")];
            eval.extend(argv_all);
            let scripted = match guard(|| run_frame(&mut b, &eval)) {
                Ok(r) => r,
                Err(_) => continue,
            };
            // expected rendering of the direct replies under the same encoding
            let enc = |r: &RespValue| -> RespValue {
                match r {
                    RespValue::Error(e) => RespValue::BulkString(Some(format!("ERR:{}", e).into_bytes())),
                    RespValue::SimpleString(t) => RespValue::BulkString(Some(format!("OK:{}", t).into_bytes())),
                    RespValue::BulkString(None) | RespValue::Array(None) => RespValue::BulkString(Some(b"NIL".to_vec())),
                    other => convert(other),
                }
            };
            let want: Vec<RespValue> = direct.iter().map(enc).collect();
            let got: Vec<RespValue> = match &scripted {
                RespValue::Array(Some(v)) => v.clone(),
                other => vec![other.clone()],
            };
            let same_reply = want.len() == got.len()
                && want.iter().zip(&got).enumerate().all(|(i, (x, y))| Some(i) == *skip || match (x, y) {
                    (RespValue::BulkString(Some(p)), RespValue::BulkString(Some(q))) if p.starts_with(b"ERR:") && q.starts_with(b"ERR:") => true,
                    (RespValue::Array(Some(p)), RespValue::Array(Some(q))) => multiset(&RespValue::Array(Some(p.clone()))) == multiset(&RespValue::Array(Some(q.clone()))),
                    _ => x == y,
                });
            let (ka, kb) = (snapshot(&mut a), snapshot(&mut b));
            rep.distinct(&("multi-call", gi, mode));
            if !same_reply || ka != kb {
                let first = String::from_utf8_lossy(&cmds[if gi >= 12 { 5 } else { 0 }][0]).to_string();
                rep.violation(
                    format!("C16|script|{}|calls-of-one-script-run-interfere|{}", first, if !same_reply { "reply-differs" } else { "keyspace-differs" }),
                    format!("commands {:?}: sent one by one -> {:?}, keyspace {:?}; as redis.pcall calls of one script -> {:?}, keyspace {:?}", cmds.iter().map(|c| c.iter().map(|x| lossy(x)).collect::<Vec<_>>()).collect::<Vec<_>>(), want, ka, got, kb),
                    json!({"multi_call": cmds.iter().map(|c| c.iter().map(|x| lossy(x)).collect::<Vec<_>>()).collect::<Vec<_>>()}),
                );
            }
        }
    }
}

/// The RESP -> Lua side of the conversion table, observed from inside a script: the Lua type each kind of reply arrives as.
fn conversion_probes(rep: &mut Report) {
    let probes: [(&str, &str, &[&str], &str, &str); 8] = [
        ("nil-bulk", "local v = redis.call('GET','missing'); return {type(v), tostring(v == false)}", &[], "boolean", "true"),
        ("nil-bulk-in-array", "local v = redis.call('MGET','k','missing'); return {type(v[2]), tostring(v[2] == false)}", &[], "boolean", "true"),
        ("nil-from-conditional-set", "local v = redis.call('SET','k','x','NX'); return {type(v), tostring(v == false)}", &[], "boolean", "true"),
        ("status", "local v = redis.call('SET','w','1'); return {type(v), tostring(v.ok)}", &[], "table", "OK"),
        ("error", "local v = redis.pcall('INCR','k'); return {type(v), tostring(v.err ~= nil)}", &[], "table", "true"),
        ("integer", "local v = redis.call('STRLEN','k'); return {type(v), tostring(v)}", &[], "number", "1"),
        ("bulk", "local v = redis.call('GET','k'); return {type(v), v}", &[], "string", "v"),
        ("array", "local v = redis.call('MGET','k','k'); return {type(v), tostring(#v)}", &[], "table", "2"),
    ];
    for (what, script, _, ty, val) in probes {
        rep.evaluations += 1;
        rep.count("conversion_probes");
        let mut ex = make_state(0);
        let _ = run_frame(&mut ex, &[s("SET"), s("k"), s("v")]);
        let got = match guard(|| run_frame(&mut ex, &[s("EVAL"), s(script), s("0")])) {
            Ok(r) => r,
            Err(_) => continue,
        };
        let want = RespValue::Array(Some(vec![RespValue::BulkString(Some(ty.as_bytes().to_vec())), RespValue::BulkString(Some(val.as_bytes().to_vec()))]));
        rep.distinct(&("conversion-probe", what));
        if got != want {
            let lua_nil = matches!(&got, RespValue::Array(Some(v)) if v.first() == Some(&RespValue::BulkString(Some(b"nil".to_vec()))));
            rep.violation(
                if what.starts_with("nil-") && lua_nil { "C16|script|conversion|nil-reply-arrives-as-lua-nil-not-false".to_string() } else { format!("C16|script|conversion|{}-arrives-as-something-else", what) },
                format!("{}: `{}` -> {:?}, the conversion table says {:?} (a nil reply is the Lua boolean false, so `== false` holds and tables keep their length)", what, script, got, want),
                json!({"probe": what, "script": script}),
            );
        }
    }
}

pub fn script_leg(args: &Args) {
    let mut rep = Report::new("C16", "script");
    let v = scrape(args, &mut rep);
    let mut st = SStats { both_ok: BTreeMap::new(), shrink_cache: BTreeMap::new() };
    if let Some(p) = &args.replay {
        let w: serde_json::Value = serde_json::from_str(&std::fs::read_to_string(p).expect("replay file")).expect("json");
        let w = &w["witness"];
        let argv: Vec<Vec<u8>> = w["argv"].as_array().map(|a| a.iter().map(|x| unlossy(x.as_str().unwrap_or(""))).collect()).unwrap_or_default();
        if !argv.is_empty() {
            let name = String::from_utf8_lossy(&argv[0]).to_uppercase();
            check_script_case(&mut rep, &v, &mut st, &name, &argv, w["state"].as_u64().unwrap_or(0), w["mode"].as_str().unwrap_or("call"));
        }
        rep.finish(args);
        return;
    }
    // is Lua there at all, and which names does the redis.call translator know? (steers the budget only)
    let probe = |name: &str| -> RespValue {
        let mut ex = CommandExecutor::new();
        run_frame(&mut ex, &[s("EVAL"), s("return redis.pcall(ARGV[1])"), s("0"), s(name)])
    };
    if matches!(probe("PING"), RespValue::Error(ref e) if e.contains("not compiled in")) || v.names.len() < 50 {
        rep.inconclusive(format!("Lua scripting not available or too few names scraped ({})", v.names.len()));
        rep.finish(args);
        return;
    }
    // Control commands that a script may not invoke: the refusal must not depend on the letter case of the name, and
    // a refused call must leave the executor exactly as it was (the next plain command of any client behaves normally:
    // never QUEUED, keyspace unchanged). Oracle = the upper-case spelling's outcome on a twin executor.
    for name in NOSCRIPT.iter() {
        for extra in [vec![], vec![s("k")], vec![s("k"), s("1")]] {
            for mode in ["call", "pcall"] {
                // explicit argument lists (Lua 5.4 has no global unpack)
                let script = format!("return redis.{}({})", mode, (1..=extra.len() + 1).map(|i| format!("ARGV[{}]", i)).collect::<Vec<_>>().join(", "));
                let run = |spelling: String| -> (RespValue, RespValue, RespValue, RespValue) {
                    let mut ex = CommandExecutor::new();
                    let _ = run_frame(&mut ex, &[s("SET"), s("probe"), s("0")]);
                    let mut f = vec![s("EVAL"), s(&script), s("0"), spelling.into_bytes()];
                    f.extend(extra.iter().cloned());
                    let r = run_frame(&mut ex, &f);
                    // what an ordinary client sees next on the same executor
                    (r, run_frame(&mut ex, &[s("INCR"), s("probe")]), run_frame(&mut ex, &[s("GET"), s("probe")]), run_frame(&mut ex, &[s("DBSIZE")]))
                };
                let upper = run(name.to_string());
                for spelling in [name.to_lowercase(), random_case(&mut args.rng(1620 + name.len() as u64), name), format!("{}{}", &name[..1].to_lowercase(), &name[1..])] {
                    rep.evaluations += 1;
                    rep.count("noscript_case_variants");
                    let got = run(spelling.clone());
                    let class = |r: &RespValue| matches!(r, RespValue::Error(_));
                    if class(&got.0) != class(&upper.0) || got.1 != upper.1 || got.2 != upper.2 || got.3 != upper.3 {
                        rep.violation(
                            format!("C16|script|{}|control-command-refusal-depends-on-letter-case|{}", name, mode),
                            format!("redis.{}('{}', ..{} args): {:?}, then INCR/GET/DBSIZE {:?} {:?} {:?}; with '{}': {:?}, then {:?} {:?} {:?}", mode, spelling, extra.len(), got.0, got.1, got.2, got.3, name, upper.0, upper.1, upper.2, upper.3),
                            json!({"noscript": name, "spelling": spelling, "mode": mode, "extra": extra.len()}),
                        );
                    }
                }
            }
        }
    }
    let names: Vec<&String> = v.names.iter().filter(|n| !NOSCRIPT.contains(&n.as_str())).collect();
    let lua_known: BTreeSet<&String> =
        names.iter().copied().filter(|n| !matches!(probe(n), RespValue::Error(ref e) if e.contains("Unknown Redis command"))).collect();
    rep.max("names_in_scope", names.len() as u64);
    if args.shard == 0 {
        multi_call_cases(&mut rep);
        conversion_probes(&mut rep);
    }
    rep.max("names_known_to_redis_call", lua_known.len() as u64);
    rep.note(format!("names the redis.call translator knows: {:?}; excluded as not script-invocable: {:?}", lua_known, NOSCRIPT));
    let mut rng = args.rng(162);
    let tries = args.get_u64("tries", if args.thorough() { 20_000 } else { 600 });
    let (n_short, n_deep, per_skeleton) = if args.thorough() { (3_000, 3_000, 6) } else { (300, 100, 3) };
    let accepts = |argv: &[Vec<u8>]| -> bool {
        let parsed = RespParser::parse(&myresp::frame_v(argv)).ok().and_then(|(rv, _)| guard(|| Command::from_resp(&rv)).ok());
        matches!(parsed, Some(Ok(ref cmd)) if !matches!(cmd, Command::Unknown(_)))
    };
    // "a" in key position stands for every key of the pool (typed in states 1 and 2, absent in state 0)
    let with_keys = |t: &[Tree], state: u64| -> Vec<Vec<Tree>> {
        if state == 0 || t.first() != Some(&bulk("a")) {
            return vec![t.to_vec()];
        }
        KEYS[..6].iter().map(|k| [vec![bulk(k)], t[1..].to_vec()].concat()).collect()
    };
    let mut case_idx: u64 = 0;
    let mut no_accept = vec![];
    for name in &names {
        let kws = &v.kw[*name];
        let head = bulk(name);
        let mut palette = vec![bulk("a"), bulk("1"), bulk("-1")];
        palette.extend(kws.iter().map(|k| bulk(k)));
        if !lua_known.contains(name) {
            // the translator rejects the name whatever follows: run accepted frames (every shard) until
            // the direct path has answered without error once, i.e. until the divergence is on record
            let sig = format!("C16|script|{}|ok-vs-err|lua-unknown-command", name);
            let mut runs = 0;
            enumerate(&palette, depth_for(palette.len(), 6000, 3), |t| {
                for state in [1u64, 2, 0] {
                    for c in with_keys(t, state) {
                        let argv = to_argv(&head, &c);
                        if accepts(&argv) && runs < 120 && !rep.has_sig(&sig) {
                            runs += 1;
                            check_script_case(&mut rep, &v, &mut st, name, &argv, state, if runs % 2 == 0 { "call" } else { "pcall" });
                            rep.count("gen:name_unknown_to_redis_call");
                        }
                    }
                }
                runs < 120 && !rep.has_sig(&sig)
            });
            if runs == 0 {
                no_accept.push((*name).clone());
            }
            continue;
        }
        // (a) bounded-exhaustive shapes: every list over {a,1,-1}+keywords up to the depth the budget allows,
        let depth = depth_for(palette.len(), if args.thorough() { 2_000_000 } else { 120_000 }, 7);
        //     grouped by keyword skeleton (non-keywords collapsed), a few token-class variants per skeleton
        let put = |m: &mut Shapes, t: &[Tree]| {
            let skeleton: Vec<String> = t.iter().map(|x| Some(tok_class(x, &v)).filter(|c| c.starts_with("kw")).unwrap_or("_".into())).collect();
            let n_kw = skeleton.iter().filter(|c| c.len() > 1).count();
            let e = m.entry((n_kw, t.len(), skeleton.join(","))).or_default();
            if e.len() < 4 * per_skeleton {
                e.entry(class_of(t, &v)).or_insert_with(|| t.to_vec());
            }
        };
        let (mut acc, mut edge) = (Shapes::new(), Shapes::new());
        enumerate(&palette, depth, |t| {
            if accepts(&to_argv(&head, t)) {
                put(&mut acc, t);
            }
            true
        });
        // the boundary of the accepted language: rejected lists one token (appended, deleted, replaced) away
        // from an accepted list of length <= 3 -- where a laxer redis.call translator would show
        for t in acc.iter().filter(|(k, _)| k.1 <= 3).flat_map(|(_, reps)| reps.values()) {
            let mut near: Vec<Vec<Tree>> = (0..t.len()).map(|i| [&t[..i], &t[i + 1..]].concat()).collect();
            for tok in &palette {
                near.push([&t[..], &[tok.clone()]].concat());
                near.extend((0..t.len()).map(|i| [&t[..i], &[tok.clone()], &t[i + 1..]].concat()));
            }
            for n in near.iter().filter(|n| !accepts(&to_argv(&head, n))) {
                put(&mut edge, n);
            }
        }
        rep.max("enumeration_depth", depth as u64);
        rep.add("skeletons:accepted_by_direct_parser", acc.len() as u64);
        rep.add("skeletons:rejected_one_token_from_accepted", edge.len() as u64);
        if acc.is_empty() {
            no_accept.push((*name).clone());
        }
        let spaced = |m: &Shapes, short: usize, deep: usize| -> Vec<Vec<Tree>> {
            let step = (m.len().saturating_sub(short) / deep.max(1)).max(1);
            // of the (up to 4n) class variants collected per skeleton, n evenly spaced ones
            let some = |reps: &BTreeMap<String, Vec<Tree>>| reps.values().step_by((reps.len() / per_skeleton).max(1)).take(per_skeleton).cloned().collect::<Vec<_>>();
            m.values().take(short).chain(m.values().skip(short).step_by(step)).flat_map(some).collect()
        };
        let mut plan: Vec<(Vec<Tree>, u64, bool)> = vec![]; // (args, state, both modes?)
        for t in spaced(&acc, n_short, n_deep) {
            for state in 0..3u64 {
                plan.extend(with_keys(&t, state).into_iter().map(|c| (c, state, state == 1)));
            }
        }
        plan.extend(spaced(&edge, n_short * 5, n_deep * 5).into_iter().map(|t| (t, 1, false)));
        // (b) seeded random lists with hostile tokens and keys anywhere, one per (verdict, class, keys used)
        let mut seen = BTreeSet::new();
        for _ in 0..tries {
            let arity = rng.gen_range(1..=7);
            let c: Vec<Tree> =
                (0..arity).map(|i| if i == 0 && rng.gen_bool(0.75) { bulk(pick(&mut rng, &KEYS)) } else { gen_tok(&mut rng, kws, &v, false) }).collect();
            let ok = accepts(&to_argv(&head, &c));
            let keys: Vec<usize> = c.iter().filter_map(|t| KEYS.iter().position(|k| &bulk(k) == t)).collect();
            if (ok || c.len() <= 4) && seen.insert((ok, class_of(&c, &v), if ok { keys } else { vec![] })) {
                let states: &[u64] = if ok { &[0, 1, 2] } else { &[1] };
                plan.extend(states.iter().map(|st| (c.clone(), *st, false)));
                rep.count("gen:random_kept");
            }
        }
        for (c, state, both) in plan {
            case_idx += 1;
            if case_idx % args.shards as u64 != args.shard as u64 {
                continue;
            }
            let argv = to_argv(&bulk(&random_case(&mut rng, name)), &c);
            let modes: &[&str] = if both { &["call", "pcall"] } else if case_idx % 2 == 0 { &["call"] } else { &["pcall"] };
            for mode in modes {
                check_script_case(&mut rep, &v, &mut st, name, &argv, state, mode);
                rep.count("gen:name_known_to_redis_call");
            }
        }
    }
    if !no_accept.is_empty() {
        rep.note(format!("names with no generated frame accepted by the direct parser: {:?}", no_accept));
    }
    let silent: Vec<&&String> = lua_known.iter().filter(|n| st.both_ok.get(n.as_str()).copied().unwrap_or(0) == 0).collect();
    rep.max("known_names_with_an_agreeing_non_error_case", (lua_known.len() - silent.len()) as u64);
    if lua_known.is_empty() || silent.len() * 4 > lua_known.len() || no_accept.len() * 10 > names.len() {
        rep.inconclusive(format!("too little observed: {} names known to redis.call, never agreeing without error: {:?}", lua_known.len(), silent));
    } else if !silent.is_empty() {
        rep.note(format!("names known to redis.call with no agreeing non-error case in this shard: {:?}", silent));
    }
    rep.note("both-error pairs are counted as agreement without comparing texts (real Redis also words script-side arity errors differently)");
    rep.finish(args);
}
