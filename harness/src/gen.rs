//! Seeded generator of client commands (argv) over a tiny keyspace, with boundary-value pools.
#![allow(dead_code)]

use crate::common::Rng;
use rand::Rng as _;

pub type Argv = Vec<Vec<u8>>;

fn b(s: &str) -> Vec<u8> {
    s.as_bytes().to_vec()
}

pub fn pick<'a>(rng: &mut Rng, pool: &[&'a str]) -> Vec<u8> {
    b(pool[rng.gen_range(0..pool.len())])
}

pub const KEYS: [&str; 4] = ["k1", "k2", "k3", "k4"];
const INTS: [&str; 22] = [
    "0", "1", "-1", "2", "5", "10", "-10", "100", "9223372036854775807", "-9223372036854775808", "9223372036854775806",
    "9223372036854775808", "-9223372036854775809", "abc", "", "1.5", " 1", "+1", "01", "1e3", "-0", "3",
];
const IDX: [&str; 16] = ["0", "1", "-1", "2", "-2", "3", "5", "-5", "-100", "100", "9223372036854775807", "-9223372036854775808", "x", "", "1.0", "-3"];
const VALS: [&str; 16] = ["", "a", "b", "10", "-5", "3.5", "hello world", "9223372036854775807", " 12", "1e2", "inf", "nan", "0", "007", "x\r\ny", "abcdefghij"];
const FLOATS: [&str; 22] = [
    "0", "1", "-1", "1.5", "2.5e0", "inf", "-inf", "+inf", "nan", "1e400", "abc", "", "3.0000000000000001", "-0", "1e308", "0.1", "0.2", "10", "-2.5", "1e-3", " 1", "5",
];
const MEMBERS: [&str; 6] = ["a", "b", "c", "d", "", "e f"];
const FIELDS: [&str; 4] = ["f1", "f2", "f3", ""];
const SECS: [&str; 12] = ["0", "1", "-1", "2", "10", "100", "9223372036854775807", "9223372036854776", "abc", "", "1.5", "-100"];
const MS: [&str; 12] = ["0", "1", "-1", "2", "10", "100", "1000", "1500", "9223372036854775807", "abc", "999", "2000"];
const SCORE_BOUNDS: [&str; 16] = ["-inf", "+inf", "inf", "0", "1", "(1", "2", "(2", "5", "-1", "(0", "abc", "(", "", "1.5", "(-inf"];
const TIE_SCORES: [&str; 6] = ["1", "5", "5", "5", "9", "-0"];
/// scores one or two ulps apart (Redis compares doubles exactly: a changed score is stored, counted by CH and re-ranked)
const NEAR_SCORES: [&str; 12] = ["0.3", "0.30000000000000004", "0.1", "0.10000000000000002", "0", "5e-17", "1e-16", "1", "1.0000000000000002", "0.9999999999999999", "-5e-17", "2"];
const NEAR_BOUNDS: [&str; 10] = ["0.3", "(0.3", "0.30000000000000004", "(0.30000000000000004", "0", "(0", "(5e-17", "1", "(1", "1.0000000000000002"];
const TIE_BOUNDS: [&str; 10] = ["(5", "5", "(1", "1", "(9", "9", "-inf", "+inf", "(0", "0"];
const PATTERNS: [&str; 10] = ["*", "k*", "k?", "k[12]", "k[^1]", "?1", "nomatch", "k\\1", "*1*", "k[1-3]"];

pub fn key(rng: &mut Rng) -> Vec<u8> {
    // skewed: two hot keys so that type changes / overwrites / TTL interactions are frequent
    let i = match rng.gen_range(0..10) {
        0..=4 => 0,
        5..=7 => 1,
        8 => 2,
        _ => 3,
    };
    b(KEYS[i])
}

fn maybe_bad_arity(rng: &mut Rng, mut a: Argv) -> Argv {
    match rng.gen_range(0..60) {
        0 if a.len() > 1 => {
            a.pop();
        }
        1 => a.push(b("extra")),
        _ => {}
    }
    a
}

#[derive(Clone, Copy, PartialEq, Eq, Debug)]
pub enum Family {
    Str,
    Key,
    List,
    Set,
    Hash,
    ZSet,
}

pub const ALL_FAMILIES: [Family; 6] = [Family::Str, Family::Key, Family::List, Family::Set, Family::Hash, Family::ZSet];

fn rel_now(rng: &mut Rng, now_ms: i64, secs: bool) -> Vec<u8> {
    // absolute timestamps around "now"
    let d: i64 = [-5000, -1000, -1, 0, 1, 1000, 1500, 2000, 10_000, 100_000][rng.gen_range(0..10)];
    let t = now_ms + d;
    if secs {
        (t / 1000).to_string().into_bytes()
    } else {
        t.to_string().into_bytes()
    }
}

pub fn gen_cmd(rng: &mut Rng, fams: &[Family], now_ms: i64) -> Argv {
    let fam = fams[rng.gen_range(0..fams.len())];
    let k = key(rng);
    let a: Argv = match fam {
        Family::Str => match rng.gen_range(0..27) {
            0 | 1 => vec![b("GET"), k],
            2 | 3 => vec![b("SET"), k, pick(rng, &VALS)],
            4 | 5 => {
                let mut a = vec![b("SET"), k, pick(rng, &VALS)];
                for _ in 0..rng.gen_range(1..4) {
                    match rng.gen_range(0..9) {
                        0 => a.push(b("NX")),
                        1 => a.push(b("XX")),
                        2 => a.push(b("GET")),
                        3 => a.push(b("KEEPTTL")),
                        4 => {
                            a.push(b("EX"));
                            a.push(pick(rng, &SECS));
                        }
                        5 => {
                            a.push(b("PX"));
                            a.push(pick(rng, &MS));
                        }
                        6 => {
                            a.push(b("EXAT"));
                            a.push(rel_now(rng, now_ms, true));
                        }
                        7 => {
                            a.push(b("PXAT"));
                            a.push(rel_now(rng, now_ms, false));
                        }
                        _ => a.push(b("xx")),
                    }
                }
                a
            }
            6 => vec![b("SETNX"), k, pick(rng, &VALS)],
            7 => vec![b("SETEX"), k, pick(rng, &SECS), pick(rng, &VALS)],
            8 => vec![b("PSETEX"), k, pick(rng, &MS), pick(rng, &VALS)],
            9 => vec![b("GETSET"), k, pick(rng, &VALS)],
            10 => vec![b("APPEND"), k, pick(rng, &VALS)],
            11 => vec![b("STRLEN"), k],
            12 => vec![b("INCR"), k],
            13 => vec![b("DECR"), k],
            14 => vec![b("INCRBY"), k, pick(rng, &INTS)],
            15 => vec![b("DECRBY"), k, pick(rng, &INTS)],
            16 => vec![b("INCRBYFLOAT"), k, pick(rng, &FLOATS)],
            17 => vec![b("MGET"), k, key(rng), key(rng)],
            18 => vec![b("MSET"), k, pick(rng, &VALS), key(rng), pick(rng, &VALS)],
            19 => vec![b("MSETNX"), k, pick(rng, &VALS), key(rng), pick(rng, &VALS)],
            20 => vec![b(if rng.gen_bool(0.8) { "GETRANGE" } else { "SUBSTR" }), k, pick(rng, &IDX), pick(rng, &IDX)],
            21 => vec![b("SETRANGE"), k, pick(rng, &["0", "1", "3", "10", "-1", "abc", "536870911", "536870912", "20"]), pick(rng, &VALS)],
            22 => vec![b("GETDEL"), k],
            23 | 24 => {
                let mut a = vec![b("GETEX"), k];
                match rng.gen_range(0..7) {
                    0 => a.push(b("PERSIST")),
                    1 => {
                        a.push(b("EX"));
                        a.push(pick(rng, &SECS));
                    }
                    2 => {
                        a.push(b("PX"));
                        a.push(pick(rng, &MS));
                    }
                    3 => {
                        a.push(b("EXAT"));
                        a.push(rel_now(rng, now_ms, true));
                    }
                    4 => {
                        a.push(b("PXAT"));
                        a.push(rel_now(rng, now_ms, false));
                    }
                    5 => {
                        a.push(b("PERSIST"));
                        a.push(b("EX"));
                        a.push(b("10"));
                    }
                    _ => {}
                }
                a
            }
            25 => vec![b("get"), k],
            _ => vec![b("SeT"), k, pick(rng, &VALS)],
        },
        Family::Key => match rng.gen_range(0..24) {
            0 => vec![b("DEL"), k, key(rng)],
            1 => vec![b("UNLINK"), k],
            2 => vec![b("EXISTS"), k, key(rng), key(rng)],
            3 => vec![b("TYPE"), k],
            4 => vec![b("KEYS"), pick(rng, &PATTERNS)],
            5 => vec![b("DBSIZE")],
            6 => {
                if rng.gen_bool(0.2) {
                    vec![b("FLUSHDB")]
                } else {
                    vec![b("TYPE"), k]
                }
            }
            7 => vec![b("RANDOMKEY")],
            8 => vec![b("RENAME"), k, key(rng)],
            9 => vec![b("RENAMENX"), k, key(rng)],
            10 | 11 => {
                let mut a = vec![b("EXPIRE"), k, pick(rng, &SECS)];
                for _ in 0..rng.gen_range(0..3) {
                    a.push(pick(rng, &["NX", "XX", "GT", "LT", "nx", "ZZ"]));
                }
                a
            }
            12 | 13 => {
                let mut a = vec![b("PEXPIRE"), k, pick(rng, &MS)];
                for _ in 0..rng.gen_range(0..3) {
                    a.push(pick(rng, &["NX", "XX", "GT", "LT"]));
                }
                a
            }
            14 => vec![b("EXPIREAT"), k, rel_now(rng, now_ms, true)],
            15 => vec![b("PEXPIREAT"), k, rel_now(rng, now_ms, false)],
            16 | 17 => vec![b("TTL"), k],
            18 | 19 => vec![b("PTTL"), k],
            20 => vec![b("EXPIRETIME"), k],
            21 => vec![b("PEXPIRETIME"), k],
            _ => vec![b("PERSIST"), k],
        },
        Family::List => match rng.gen_range(0..14) {
            0 | 1 => vec![b("LPUSH"), k, pick(rng, &VALS), pick(rng, &VALS)],
            2 | 3 => vec![b("RPUSH"), k, pick(rng, &VALS)],
            4 => vec![b("LPOP"), k],
            5 => vec![b("RPOP"), k],
            6 => vec![b("LLEN"), k],
            7 => vec![b("LINDEX"), k, pick(rng, &IDX)],
            8 | 9 => vec![b("LRANGE"), k, pick(rng, &IDX), pick(rng, &IDX)],
            10 => vec![b("LSET"), k, pick(rng, &IDX), pick(rng, &VALS)],
            11 => vec![b("LTRIM"), k, pick(rng, &IDX), pick(rng, &IDX)],
            12 => vec![b("RPOPLPUSH"), k, key(rng)],
            _ => vec![b("LMOVE"), k, key(rng), pick(rng, &["LEFT", "RIGHT", "left", "UP"]), pick(rng, &["LEFT", "RIGHT", "right"])],
        },
        Family::Set => match rng.gen_range(0..9) {
            0 | 1 | 2 => vec![b("SADD"), k, pick(rng, &MEMBERS), pick(rng, &MEMBERS)],
            3 => vec![b("SREM"), k, pick(rng, &MEMBERS), pick(rng, &MEMBERS)],
            4 => vec![b("SMEMBERS"), k],
            5 => vec![b("SISMEMBER"), k, pick(rng, &MEMBERS)],
            6 => vec![b("SCARD"), k],
            7 => vec![b("SPOP"), k],
            _ => vec![b("SPOP"), k, pick(rng, &["0", "1", "2", "10", "-1", "abc"])],
        },
        Family::Hash => match rng.gen_range(0..12) {
            0 | 1 | 2 => vec![b("HSET"), k, pick(rng, &FIELDS), pick(rng, &VALS)],
            3 => vec![b("HSET"), k, pick(rng, &FIELDS), pick(rng, &VALS), pick(rng, &FIELDS), pick(rng, &VALS)],
            4 => vec![b("HGET"), k, pick(rng, &FIELDS)],
            5 => vec![b("HDEL"), k, pick(rng, &FIELDS), pick(rng, &FIELDS)],
            6 => vec![b("HGETALL"), k],
            7 => vec![b("HKEYS"), k],
            8 => vec![b("HVALS"), k],
            9 => vec![b("HLEN"), k],
            10 => vec![b("HEXISTS"), k, pick(rng, &FIELDS)],
            _ => vec![b("HINCRBY"), k, pick(rng, &FIELDS), pick(rng, &INTS)],
        },
        Family::ZSet => match rng.gen_range(0..22) {
            19 => {
                let mut a = vec![b("ZADD"), k];
                if rng.gen_bool(0.6) {
                    a.push(pick(rng, &["CH", "XX", "GT", "LT", "NX"]));
                }
                if rng.gen_bool(0.3) {
                    a.push(b("CH"));
                }
                for _ in 0..rng.gen_range(1..4) {
                    a.push(pick(rng, &NEAR_SCORES));
                    a.push(pick(rng, &MEMBERS[..3]));
                }
                a
            }
            20 => vec![b("ZCOUNT"), k, pick(rng, &NEAR_BOUNDS), pick(rng, &NEAR_BOUNDS)],
            21 => {
                if rng.gen_bool(0.5) {
                    vec![b("ZRANGE"), k, b("0"), b("-1"), b("WITHSCORES")]
                } else {
                    vec![b("ZRANGEBYSCORE"), k, pick(rng, &["-inf", "0", "(0"]), pick(rng, &["+inf", "1", "(1"]), b("WITHSCORES")]
                }
            }
            // tie-heavy sets and bounds that sit exactly on the tied scores (inclusive and exclusive, as min and as max)
            16 => {
                let mut a = vec![b("ZADD"), k];
                for _ in 0..rng.gen_range(2..5) {
                    a.push(pick(rng, &TIE_SCORES));
                    a.push(pick(rng, &MEMBERS));
                }
                a
            }
            17 => vec![b("ZCOUNT"), k, pick(rng, &TIE_BOUNDS), pick(rng, &TIE_BOUNDS)],
            18 => {
                let mut a = vec![b("ZRANGEBYSCORE"), k, pick(rng, &TIE_BOUNDS), pick(rng, &TIE_BOUNDS)];
                if rng.gen_bool(0.3) {
                    a.push(b("LIMIT"));
                    a.push(pick(rng, &["0", "1", "2"]));
                    a.push(pick(rng, &["1", "2", "-1"]));
                }
                a
            }
            0 | 1 | 2 => vec![b("ZADD"), k, pick(rng, &FLOATS), pick(rng, &MEMBERS)],
            3 | 4 => {
                let mut a = vec![b("ZADD"), k];
                for _ in 0..rng.gen_range(1..3) {
                    a.push(pick(rng, &["NX", "XX", "GT", "LT", "CH", "ch"]));
                }
                for _ in 0..rng.gen_range(1..3) {
                    a.push(pick(rng, &FLOATS));
                    a.push(pick(rng, &MEMBERS));
                }
                a
            }
            5 => vec![b("ZREM"), k, pick(rng, &MEMBERS), pick(rng, &MEMBERS)],
            6 => vec![b("ZCARD"), k],
            7 => vec![b("ZSCORE"), k, pick(rng, &MEMBERS)],
            8 => vec![b("ZRANK"), k, pick(rng, &MEMBERS)],
            9 | 10 => {
                let mut a = vec![b(if rng.gen_bool(0.6) { "ZRANGE" } else { "ZREVRANGE" }), k, pick(rng, &IDX), pick(rng, &IDX)];
                if rng.gen_bool(0.5) {
                    a.push(b(if rng.gen_bool(0.9) { "WITHSCORES" } else { "withscores" }));
                }
                a
            }
            11 => vec![b("ZCOUNT"), k, pick(rng, &SCORE_BOUNDS), pick(rng, &SCORE_BOUNDS)],
            _ => {
                let mut a = vec![b("ZRANGEBYSCORE"), k, pick(rng, &SCORE_BOUNDS), pick(rng, &SCORE_BOUNDS)];
                if rng.gen_bool(0.4) {
                    a.push(b("WITHSCORES"));
                }
                if rng.gen_bool(0.4) {
                    a.push(b("LIMIT"));
                    a.push(pick(rng, &["0", "1", "-1", "2", "x"]));
                    a.push(pick(rng, &["0", "1", "-1", "2", "10"]));
                }
                a
            }
        },
    };
    maybe_bad_arity(rng, a)
}

/// Clock advance (ms) between two commands.
pub fn gen_advance(rng: &mut Rng) -> i64 {
    match rng.gen_range(0..20) {
        0..=9 => 0,
        10 | 11 => 1,
        12 => 499,
        13 => 500,
        14 => 999,
        15 => 1000,
        16 => 1001,
        17 => 2000,
        18 => 10_000,
        _ => 86_400_000,
    }
}

/// Name plus the option keywords present (sorted), for signatures and coverage classes.
pub fn shape(a: &Argv) -> String {
    if a.is_empty() {
        return "<empty>".into();
    }
    let name = String::from_utf8_lossy(&a[0]).to_uppercase();
    let name = if name == "SUBSTR" { "GETRANGE".to_string() } else { name };
    let mut opts: Vec<String> = vec![];
    let skip = match name.as_str() {
        "SET" => 3,
        "GETEX" => 2,
        "EXPIRE" | "PEXPIRE" => 3,
        "ZADD" => 2,
        "ZRANGE" | "ZREVRANGE" | "ZRANGEBYSCORE" => 4,
        _ => usize::MAX,
    };
    if skip != usize::MAX {
        for x in a.iter().skip(skip) {
            let u = String::from_utf8_lossy(x).to_uppercase();
            if matches!(u.as_str(), "NX" | "XX" | "GT" | "LT" | "CH" | "GET" | "KEEPTTL" | "EX" | "PX" | "EXAT" | "PXAT" | "PERSIST" | "WITHSCORES" | "LIMIT") && !opts.contains(&u) {
                opts.push(u);
            }
        }
    }
    opts.sort();
    if opts.is_empty() {
        name
    } else {
        format!("{}+{}", name, opts.join("+"))
    }
}
