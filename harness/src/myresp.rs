//! Independent, strict RESP2 decoder/encoder used as an oracle (no code shared with /repo).
#![allow(dead_code)]

use redis_sim::redis::{RespValue, RespValueZeroCopy};
use serde_json::{json, Value};

#[derive(Clone, Debug, PartialEq, Eq, Hash)]
pub enum Tree {
    Simple(Vec<u8>),
    Error(Vec<u8>),
    Int(i64),
    Bulk(Option<Vec<u8>>),
    Arr(Option<Vec<Tree>>),
}

#[derive(Clone, Debug, PartialEq, Eq)]
pub enum Outcome {
    Value(Tree, usize),
    Incomplete,
    Error(String),
}

const MAX_BULK: i64 = 512 * 1024 * 1024;
const MAX_DEPTH: usize = 64;

/// Line starting at `from` (after the type byte): returns (content range end, next offset).
fn line(b: &[u8], from: usize) -> Result<Option<(usize, usize)>, String> {
    let mut i = from;
    while i < b.len() {
        match b[i] {
            b'\r' => {
                if i + 1 >= b.len() {
                    return Ok(None);
                }
                if b[i + 1] == b'\n' {
                    return Ok(Some((i, i + 2)));
                }
                return Err("CR not followed by LF".into());
            }
            b'\n' => return Err("bare LF in line".into()),
            _ => i += 1,
        }
    }
    Ok(None)
}

fn int(s: &[u8]) -> Result<i64, String> {
    if s.is_empty() {
        return Err("empty integer".into());
    }
    let (neg, d) = match s[0] {
        b'-' => (true, &s[1..]),
        b'+' => (false, &s[1..]),
        _ => (false, s),
    };
    if d.is_empty() || d.len() > 19 {
        return Err("bad integer".into());
    }
    let mut v: i128 = 0;
    for &c in d {
        if !c.is_ascii_digit() {
            return Err("non-digit in integer".into());
        }
        v = v * 10 + (c - b'0') as i128;
    }
    if neg {
        v = -v;
    }
    if v < i64::MIN as i128 || v > i64::MAX as i128 {
        return Err("integer out of range".into());
    }
    Ok(v as i64)
}

pub fn decode(b: &[u8]) -> Outcome {
    dec(b, 0, 0)
}

fn dec(b: &[u8], at: usize, depth: usize) -> Outcome {
    if depth > MAX_DEPTH {
        return Outcome::Error("nesting too deep".into());
    }
    if at >= b.len() {
        return Outcome::Incomplete;
    }
    let t = b[at];
    if !matches!(t, b'+' | b'-' | b':' | b'$' | b'*') {
        return Outcome::Error(format!("bad type byte {:#x}", t));
    }
    let (end, next) = match line(b, at + 1) {
        Err(e) => return Outcome::Error(e),
        Ok(None) => return Outcome::Incomplete,
        Ok(Some(x)) => x,
    };
    let content = &b[at + 1..end];
    match t {
        b'+' => Outcome::Value(Tree::Simple(content.to_vec()), next),
        b'-' => Outcome::Value(Tree::Error(content.to_vec()), next),
        b':' => match int(content) {
            Ok(n) => Outcome::Value(Tree::Int(n), next),
            Err(e) => Outcome::Error(e),
        },
        b'$' => {
            let n = match int(content) {
                Ok(n) => n,
                Err(e) => return Outcome::Error(e),
            };
            if n == -1 {
                return Outcome::Value(Tree::Bulk(None), next);
            }
            if n < 0 || n > MAX_BULK {
                return Outcome::Error("invalid bulk length".into());
            }
            let n = n as usize;
            if b.len() < next + n + 2 {
                // payload (or its terminator) not here yet; a wrong terminator that is present is an error
                if b.len() > next + n && b[next + n] != b'\r' {
                    return Outcome::Error("bulk not terminated by CRLF".into());
                }
                return Outcome::Incomplete;
            }
            if &b[next + n..next + n + 2] != b"\r\n" {
                return Outcome::Error("bulk not terminated by CRLF".into());
            }
            Outcome::Value(Tree::Bulk(Some(b[next..next + n].to_vec())), next + n + 2)
        }
        _ => {
            let n = match int(content) {
                Ok(n) => n,
                Err(e) => return Outcome::Error(e),
            };
            if n == -1 {
                return Outcome::Value(Tree::Arr(None), next);
            }
            if n < 0 || n > 1024 * 1024 {
                return Outcome::Error("invalid multibulk length".into());
            }
            let mut items = Vec::new();
            let mut off = next;
            for _ in 0..n {
                match dec(b, off, depth + 1) {
                    Outcome::Value(v, nx) => {
                        items.push(v);
                        off = nx;
                    }
                    other => return other,
                }
            }
            Outcome::Value(Tree::Arr(Some(items)), off)
        }
    }
}

/// Decode a whole reply stream into trees; Err((trees so far, reason)) when the tail is not a frame.
pub fn decode_all(b: &[u8]) -> Result<Vec<Tree>, (Vec<Tree>, String)> {
    let mut out = vec![];
    let mut at = 0;
    while at < b.len() {
        match dec(b, at, 0) {
            Outcome::Value(v, nx) => {
                out.push(v);
                at = nx;
            }
            Outcome::Incomplete => return Err((out, format!("incomplete frame at byte {}", at))),
            Outcome::Error(e) => return Err((out, format!("protocol error at byte {}: {}", at, e))),
        }
    }
    Ok(out)
}

pub fn encode(t: &Tree, out: &mut Vec<u8>) {
    match t {
        Tree::Simple(s) => {
            out.push(b'+');
            out.extend_from_slice(s);
            out.extend_from_slice(b"\r\n");
        }
        Tree::Error(s) => {
            out.push(b'-');
            out.extend_from_slice(s);
            out.extend_from_slice(b"\r\n");
        }
        Tree::Int(n) => {
            out.extend_from_slice(format!(":{}\r\n", n).as_bytes());
        }
        Tree::Bulk(None) => out.extend_from_slice(b"$-1\r\n"),
        Tree::Bulk(Some(d)) => {
            out.extend_from_slice(format!("${}\r\n", d.len()).as_bytes());
            out.extend_from_slice(d);
            out.extend_from_slice(b"\r\n");
        }
        Tree::Arr(None) => out.extend_from_slice(b"*-1\r\n"),
        Tree::Arr(Some(v)) => {
            out.extend_from_slice(format!("*{}\r\n", v.len()).as_bytes());
            for x in v {
                encode(x, out);
            }
        }
    }
}

/// Encode a command as an array of bulk strings.
pub fn frame(args: &[&[u8]]) -> Vec<u8> {
    let mut out = format!("*{}\r\n", args.len()).into_bytes();
    for a in args {
        out.extend_from_slice(format!("${}\r\n", a.len()).as_bytes());
        out.extend_from_slice(a);
        out.extend_from_slice(b"\r\n");
    }
    out
}

pub fn frame_v(args: &[Vec<u8>]) -> Vec<u8> {
    let r: Vec<&[u8]> = args.iter().map(|a| a.as_slice()).collect();
    frame(&r)
}

pub fn from_resp(v: &RespValue) -> Tree {
    match v {
        RespValue::SimpleString(s) => Tree::Simple(s.as_bytes().to_vec()),
        RespValue::Error(s) => Tree::Error(s.as_bytes().to_vec()),
        RespValue::Integer(n) => Tree::Int(*n),
        RespValue::BulkString(b) => Tree::Bulk(b.clone()),
        RespValue::Array(None) => Tree::Arr(None),
        RespValue::Array(Some(v)) => Tree::Arr(Some(v.iter().map(from_resp).collect())),
    }
}

pub fn from_zc(v: &RespValueZeroCopy) -> Tree {
    match v {
        RespValueZeroCopy::SimpleString(s) => Tree::Simple(s.to_vec()),
        RespValueZeroCopy::Error(s) => Tree::Error(s.to_vec()),
        RespValueZeroCopy::Integer(n) => Tree::Int(*n),
        RespValueZeroCopy::BulkString(b) => Tree::Bulk(b.as_ref().map(|x| x.to_vec())),
        RespValueZeroCopy::Array(None) => Tree::Arr(None),
        RespValueZeroCopy::Array(Some(v)) => Tree::Arr(Some(v.iter().map(from_zc).collect())),
    }
}

pub fn to_zc(t: &Tree) -> RespValueZeroCopy {
    use bytes::Bytes;
    match t {
        Tree::Simple(s) => RespValueZeroCopy::SimpleString(Bytes::copy_from_slice(s)),
        Tree::Error(s) => RespValueZeroCopy::Error(Bytes::copy_from_slice(s)),
        Tree::Int(n) => RespValueZeroCopy::Integer(*n),
        Tree::Bulk(b) => RespValueZeroCopy::BulkString(b.as_ref().map(|x| Bytes::copy_from_slice(x))),
        Tree::Arr(None) => RespValueZeroCopy::Array(None),
        Tree::Arr(Some(v)) => RespValueZeroCopy::Array(Some(v.iter().map(to_zc).collect())),
    }
}

pub fn show(t: &Tree) -> Value {
    use crate::common::lossy;
    match t {
        Tree::Simple(s) => json!({"+": lossy(s)}),
        Tree::Error(s) => json!({"-": lossy(s)}),
        Tree::Int(n) => json!(n),
        Tree::Bulk(None) => Value::Null,
        Tree::Bulk(Some(b)) => json!(lossy(b)),
        Tree::Arr(None) => json!({"nil-array": true}),
        Tree::Arr(Some(v)) => Value::Array(v.iter().map(show).collect()),
    }
}

pub fn is_error(t: &Tree) -> bool {
    matches!(t, Tree::Error(_))
}
