//! C03, connection level — the same RESP byte stream (pipelined runs, MULTI/EXEC blocks, EVAL,
//! multi-key fan-out, keyspace-wide commands) is fed through the production connection handler
//! (hook H1) to a 1-shard and an N-shard server; every reply and the final visible keyspace (read
//! through a fresh connection) must agree. Covers the paths the ShardedActorState-level twin leg
//! cannot reach: the connection's fast-path recogniser and batch collectors, and transaction replay.
use crate::common::*;
use crate::conn;
use crate::myresp::{self, Tree};
use rand::Rng as _;
use redis_sim::production::{ConnectionConfig, ShardedActorState};
use serde_json::{json, Value};

type Argv = Vec<Vec<u8>>;

fn b(s: &str) -> Vec<u8> {
    s.as_bytes().to_vec()
}
fn av(parts: &[&str]) -> Argv {
    parts.iter().map(|p| b(p)).collect()
}

const KEYS: [&str; 9] = ["a", "b", "k2", "key:1", "{t}x", "{t}y", "long-key-name-0123456789", "q", "zz9"];

fn key(rng: &mut Rng) -> String {
    KEYS[rng.gen_range(0..KEYS.len())].to_string()
}

fn val(rng: &mut Rng, ctr: &mut u32) -> String {
    *ctr += 1;
    match rng.gen_range(0..6) {
        0 => "1".into(),
        1 => "41".into(),
        2 => String::new(),
        _ => format!("v{}", ctr),
    }
}

/// Commands whose reply is a function of the keyspace only (no clock, no random choice). Two-key
/// commands whose operands may live on different shards (RENAME, RPOPLPUSH, LMOVE, MSETNX, SORT STORE,
/// multi-key EVAL) are the twin leg's listed open findings and are not generated here.
fn gen_cmd(rng: &mut Rng, ctr: &mut u32, in_multi: bool) -> Argv {
    let k = key(rng);
    let k2 = key(rng);
    let k3 = key(rng);
    let v = val(rng, ctr);
    let r = rng.gen_range(0..48);
    match r {
        0..=5 => av(&[["GET", "get", "GeT"][rng.gen_range(0..3)], &k]),
        6..=10 => av(&[["SET", "set"][rng.gen_range(0..2)], &k, &v]),
        11 => av(&["SET", &k, &v, ["NX", "XX", "KEEPTTL", "GET"][rng.gen_range(0..4)]]),
        12 => av(&["SET", &k, &v, "EX", "100000"]),
        13 => av(&["INCR", &k]),
        14 => av(&["APPEND", &k, &v]),
        15 => av(&["DEL", &k, &k2]),
        16 => av(&["DEL", &k, &k2, &k3, &k]),
        17 => av(&["EXISTS", &k, &k2, &k]),
        18 => av(&["MGET", &k, &k2, &k3]),
        19 => av(&["MSET", &k, &v, &k2, "m2", &k3, "m3"]),
        20 => av(&["LPUSH", &k, &v, "e2"]),
        21 => av(&["RPUSH", &k, &v]),
        22 => av(&["LPOP", &k]),
        23 => av(&["LRANGE", &k, "0", "-1"]),
        24 => av(&["HSET", &k, "f", &v, "g", "2"]),
        25 => av(&["HGETALL", &k]),
        26 => av(&["SADD", &k, &v, "m"]),
        27 => av(&["SMEMBERS", &k]),
        28 => av(&["ZADD", &k, "1", &v, "2", "m"]),
        29 => av(&["ZRANGE", &k, "0", "-1", "WITHSCORES"]),
        30 => av(&["TYPE", &k]),
        31 => av(&["STRLEN", &k]),
        32 => av(&["EXPIRE", &k, "100000"]),
        33 => av(&["PERSIST", &k]),
        34 => av(&["DBSIZE"]),
        35 => av(&["KEYS", ["*", "k*", "{t}*", "?"][rng.gen_range(0..4)]]),
        36 => av(&["UNLINK", &k, &k2]),
        37 => av(&["GETSET", &k, &v]),
        38 => av(&["SETNX", &k, &v]),
        39 => av(&["GETDEL", &k]),
        40 if !in_multi && cfg!(feature = "lua") => av(&["EVAL", "redis.call('SET', KEYS[1], ARGV[1]); return redis.call('GET', KEYS[1])", "1", &k, &v]),
        41 if !in_multi && cfg!(feature = "lua") => av(&["EVAL", "return redis.call('INCR', KEYS[1])", "1", &k]),
        42 => av(&["NOSUCHCMD", &k]),
        44 => av(&["FLUSHDB"]),
        45 => av(&["FLUSHALL"]),
        46 => av(&["HSCAN", &k, "0", "COUNT", "100000"]),
        47 => av(&["ZSCAN", &k, "0", "COUNT", "100000"]),
        _ => av(&["PING"]),
    }
}

#[derive(Clone, Debug)]
pub struct Item {
    /// the commands of this item, in order (a MULTI block is one item so that shrinking keeps it whole)
    cmds: Vec<Argv>,
}

fn gen_items(rng: &mut Rng, n: usize) -> Vec<Item> {
    let mut ctr = 0u32;
    let mut out = vec![];
    for _ in 0..n {
        match rng.gen_range(0..10) {
            0 | 1 => {
                // transaction block
                let mut cmds = vec![];
                if rng.gen_bool(0.3) {
                    cmds.push(av(&["WATCH", &key(rng)]));
                }
                cmds.push(av(&["MULTI"]));
                for _ in 0..rng.gen_range(0..6) {
                    cmds.push(gen_cmd(rng, &mut ctr, true));
                }
                cmds.push(av(&[if rng.gen_bool(0.85) { "EXEC" } else { "DISCARD" }]));
                out.push(Item { cmds });
            }
            2 | 3 => {
                // a run of plain GET/SET: the shape the connection's batch collectors look for
                let kind = rng.gen_range(0..3);
                let len = rng.gen_range(1..8);
                let cmds = (0..len)
                    .map(|i| {
                        let k = key(rng);
                        if kind == 0 || (kind == 2 && i % 2 == 1) {
                            av(&["GET", &k])
                        } else {
                            av(&["SET", &k, &val(rng, &mut ctr)])
                        }
                    })
                    .collect();
                out.push(Item { cmds });
            }
            _ => out.push(Item { cmds: vec![gen_cmd(rng, &mut ctr, false)] }),
        }
    }
    out
}

fn name_of(a: &Argv) -> String {
    String::from_utf8_lossy(&a[0]).to_uppercase()
}

fn normalise(name: &str, t: Tree) -> Tree {
    match (name, t) {
        ("HGETALL", Tree::Arr(Some(v))) => {
            let mut p: Vec<Tree> = v.chunks(2).map(|c| Tree::Arr(Some(c.to_vec()))).collect();
            p.sort_by_key(|x| format!("{:?}", x));
            Tree::Arr(Some(p))
        }
        ("HSCAN" | "ZSCAN", Tree::Arr(Some(v))) if v.len() == 2 => {
            let page = match &v[1] {
                Tree::Arr(Some(items)) => {
                    let mut p: Vec<Tree> = items.chunks(2).map(|c| Tree::Arr(Some(c.to_vec()))).collect();
                    p.sort_by_key(|x| format!("{:?}", x));
                    Tree::Arr(Some(p))
                }
                o => o.clone(),
            };
            Tree::Arr(Some(vec![v[0].clone(), page]))
        }
        ("KEYS" | "SMEMBERS" | "HKEYS" | "HVALS", Tree::Arr(Some(mut v))) => {
            v.sort_by_key(|x| format!("{:?}", x));
            Tree::Arr(Some(v))
        }
        (_, t) => t,
    }
}

#[derive(Clone, Debug)]
pub struct Cfg {
    shards: usize,
    read_size: usize,
    min_pipeline: usize,
    threshold: usize,
}

struct Ran {
    replies: Vec<Tree>,
    keyspace: Vec<(String, Vec<Tree>)>,
    problem: Option<String>,
}

async fn send_all(ctl: &conn::Controller, chunks: &[Vec<u8>]) -> Result<Vec<u8>, String> {
    for c in chunks {
        ctl.send(c);
        if ctl.wait_idle(conn::STEP_BUDGET).await.is_err() {
            return Err("hang".into());
        }
        if ctl.server_closed() {
            return Err("connection died".into());
        }
    }
    Ok(ctl.take_output())
}

async fn one(ctl: &conn::Controller, a: &Argv) -> Tree {
    match send_all(ctl, &[myresp::frame_v(a)]).await {
        Ok(out) => match myresp::decode_all(&out) {
            Ok(t) if t.len() == 1 => t[0].clone(),
            _ => Tree::Error(b("snapshot: not exactly one reply")),
        },
        Err(e) => Tree::Error(e.into_bytes()),
    }
}

async fn run_on(cfg: &Cfg, items: &[Item], cuts: &[usize]) -> Ran {
    let state = ShardedActorState::with_shards(cfg.shards);
    let ccfg = ConnectionConfig { max_buffer_size: 1 << 24, read_buffer_size: cfg.read_size, min_pipeline_buffer: cfg.min_pipeline, batch_threshold: cfg.threshold };
    let (ctl, h) = conn::spawn_conn(state.clone(), ccfg);
    let mut stream = vec![];
    let mut ncmds = 0;
    for it in items {
        for c in &it.cmds {
            stream.extend_from_slice(&myresp::frame_v(c));
            ncmds += 1;
        }
    }
    let mut chunks = vec![];
    let mut prev = 0;
    for &p in cuts {
        let p = p % stream.len().max(1);
        if p > prev {
            chunks.push(stream[prev..p].to_vec());
            prev = p;
        }
    }
    chunks.push(stream[prev..].to_vec());
    let mut problem = None;
    let replies = match send_all(&ctl, &chunks).await {
        Ok(out) => match myresp::decode_all(&out) {
            Ok(t) => t,
            Err((t, e)) => {
                problem = Some(format!("undecodable output: {}", e));
                t
            }
        },
        Err(e) => {
            problem = Some(e);
            vec![]
        }
    };
    if problem.is_none() && replies.len() != ncmds {
        problem = Some(format!("{} replies for {} commands", replies.len(), ncmds));
    }
    ctl.close();
    let _ = ctl.wait_idle(conn::STEP_BUDGET).await;
    if problem.is_none() {
        let _ = h.await;
    } else {
        h.abort();
    }
    // final visible keyspace through a fresh connection with default configuration
    let (c2, h2) = conn::spawn_conn(state, ConnectionConfig::default());
    let mut keyspace = vec![];
    let mut names: Vec<String> = match one(&c2, &av(&["KEYS", "*"])).await {
        Tree::Arr(Some(v)) => v.into_iter().filter_map(|t| if let Tree::Bulk(Some(x)) = t { Some(lossy(&x)) } else { None }).collect(),
        _ => vec!["<KEYS failed>".into()],
    };
    names.sort();
    for k in names {
        let ty = one(&c2, &av(&["TYPE", &k])).await;
        let read = match &ty {
            Tree::Simple(s) if s == b"string" => Some(("GET", av(&["GET", &k]))),
            Tree::Simple(s) if s == b"list" => Some(("LRANGE", av(&["LRANGE", &k, "0", "-1"]))),
            Tree::Simple(s) if s == b"set" => Some(("SMEMBERS", av(&["SMEMBERS", &k]))),
            Tree::Simple(s) if s == b"hash" => Some(("HGETALL", av(&["HGETALL", &k]))),
            Tree::Simple(s) if s == b"zset" => Some(("ZRANGE", av(&["ZRANGE", &k, "0", "-1", "WITHSCORES"]))),
            _ => None,
        };
        let mut facets = vec![ty];
        if let Some((n, r)) = read {
            facets.push(normalise(n, one(&c2, &r).await));
        }
        // TTL as a class (production clock): none / some
        facets.push(match one(&c2, &av(&["TTL", &k])).await {
            Tree::Int(n) if n >= 0 => Tree::Simple(b("ttl:some")),
            o => o,
        });
        keyspace.push((k, facets));
    }
    keyspace.push(("<DBSIZE>".into(), vec![one(&c2, &av(&["DBSIZE"])).await]));
    c2.close();
    let _ = c2.wait_idle(conn::STEP_BUDGET).await;
    let _ = h2.await;
    Ran { replies, keyspace, problem }
}

struct Found {
    sig: String,
    detail: String,
}

/// Compare the N-shard run with the 1-shard run of the same stream.
async fn compare(items: &[Item], n: usize, base: &Cfg, cuts: &[usize]) -> Option<Found> {
    let c1 = Cfg { shards: 1, ..base.clone() };
    let cn = Cfg { shards: n, ..base.clone() };
    let r1 = run_on(&c1, items, cuts).await;
    let rn = run_on(&cn, items, cuts).await;
    // flat command list with transaction context
    let mut flat: Vec<(Argv, bool)> = vec![];
    for it in items {
        let mut in_multi = false;
        for c in &it.cmds {
            let nme = name_of(c);
            flat.push((c.clone(), in_multi));
            if nme == "MULTI" {
                in_multi = true;
            }
            if nme == "EXEC" || nme == "DISCARD" {
                in_multi = false;
            }
        }
    }
    if r1.problem.is_some() != rn.problem.is_some() {
        let (which, p) = if let Some(p) = &rn.problem { ("N", p.clone()) } else { ("1", r1.problem.clone().unwrap()) };
        return Some(Found { sig: format!("C03|conn|stream-problem-only-on-{}-shards|{}", which, p.split(|c: char| c.is_ascii_digit()).next().unwrap_or("").trim()), detail: p });
    }
    // queued commands of the transaction that an EXEC belongs to, for normalising its elements
    let mut block: Vec<String> = vec![];
    for (i, (cmd, in_multi)) in flat.iter().enumerate() {
        let nme = name_of(cmd);
        let (a, bb) = match (r1.replies.get(i), rn.replies.get(i)) {
            (Some(a), Some(bb)) => (a.clone(), bb.clone()),
            _ => break,
        };
        let (a, bb) = if nme == "EXEC" {
            let norm_exec = |t: Tree, block: &Vec<String>| match t {
                Tree::Arr(Some(v)) => Tree::Arr(Some(v.into_iter().enumerate().map(|(j, e)| normalise(block.get(j).map(|s| s.as_str()).unwrap_or(""), e)).collect())),
                o => o,
            };
            (norm_exec(a, &block), norm_exec(bb, &block))
        } else {
            (normalise(&nme, a), normalise(&nme, bb))
        };
        if a != bb {
            let inside = if nme == "EXEC" { block.join(",") } else { String::new() };
            return Some(Found {
                sig: format!("C03|conn|reply|cmd={}|queued={}|body={}", nme, in_multi, if inside.len() > 40 { "long".into() } else { inside }),
                detail: format!("command #{} {:?}: 1 shard replied {}, {} shards replied {}", i, cmd.iter().map(|x| lossy(x)).collect::<Vec<_>>(), myresp::show(&a), n, myresp::show(&bb)),
            });
        }
        if nme == "MULTI" {
            block.clear();
        } else if *in_multi && nme != "EXEC" && nme != "DISCARD" {
            // only commands that were accepted into the queue have an EXEC element
            if matches!(&r1.replies[i], Tree::Simple(s) if s == b"QUEUED") {
                block.push(nme.clone());
            }
        }
    }
    if r1.keyspace != rn.keyspace {
        let k = r1
            .keyspace
            .iter()
            .map(|x| &x.0)
            .chain(rn.keyspace.iter().map(|x| &x.0))
            .find(|k| r1.keyspace.iter().find(|x| &x.0 == *k) != rn.keyspace.iter().find(|x| &x.0 == *k))
            .cloned()
            .unwrap_or_default();
        let show = |ks: &Vec<(String, Vec<Tree>)>| ks.iter().find(|x| x.0 == k).map(|x| x.1.iter().map(myresp::show).collect::<Vec<_>>());
        // which command kinds touched that key
        let mut touched: Vec<String> = flat.iter().filter(|(c, _)| c.iter().skip(1).any(|a| a == k.as_bytes())).map(|(c, q)| format!("{}{}", name_of(c), if *q { "(queued)" } else { "" })).collect();
        touched.sort();
        touched.dedup();
        return Some(Found {
            sig: format!("C03|conn|keyspace|touched-by={}", if touched.len() > 4 { "many".to_string() } else { touched.join("+") }),
            detail: format!("final keyspace differs at {:?}: 1 shard {:?}, {} shards {:?}", k, show(&r1.keyspace), n, show(&rn.keyspace)),
        });
    }
    None
}

fn items_json(items: &[Item]) -> Value {
    json!(items.iter().map(|it| it.cmds.iter().map(|c| c.iter().map(|x| lossy(x)).collect::<Vec<_>>()).collect::<Vec<_>>()).collect::<Vec<_>>())
}

fn items_from(v: &Value) -> Vec<Item> {
    v.as_array()
        .map(|a| {
            a.iter()
                .map(|it| Item { cmds: it.as_array().map(|cs| cs.iter().map(|c| c.as_array().map(|xs| xs.iter().map(|x| unlossy(x.as_str().unwrap_or(""))).collect()).unwrap_or_default()).collect()).unwrap_or_default() })
                .collect()
        })
        .unwrap_or_default()
}

pub fn conn_twin_leg(args: &Args) {
    let mut rep = Report::new("C03", "conn-twin");
    let rt = tokio::runtime::Builder::new_current_thread().enable_all().build().unwrap();
    if let Some(p) = &args.replay {
        let w: Value = serde_json::from_str(&std::fs::read_to_string(p).expect("replay")).expect("json");
        let w = &w["witness"];
        let items = items_from(&w["items"]);
        let cfg = Cfg { shards: 1, read_size: w["read_size"].as_u64().unwrap_or(8192) as usize, min_pipeline: w["min_pipeline"].as_u64().unwrap_or(60) as usize, threshold: w["threshold"].as_u64().unwrap_or(2) as usize };
        let cuts: Vec<usize> = w["cuts"].as_array().map(|a| a.iter().map(|x| x.as_u64().unwrap_or(0) as usize).collect()).unwrap_or_default();
        rep.evaluations += 1;
        if let Some(f) = rt.block_on(compare(&items, w["shards"].as_u64().unwrap_or(4) as usize, &cfg, &cuts)) {
            rep.violation(f.sig, f.detail, w.clone());
        }
        rep.finish(args);
        return;
    }
    let mut rng = args.rng(33);
    let nseq = args.get_u64("streams", if args.thorough() { 6000 } else { 400 });
    rt.block_on(async {
        for s in 0..nseq {
            let n = [2usize, 3, 4, 16][(s % 4) as usize];
            let nitems = rng.gen_range(2..25);
            let items = gen_items(&mut rng, nitems);
            let (mp, th) = [(60usize, 2usize), (0, 1), (0, 2), (14, 2), (70, 6), (4096, 2)][rng.gen_range(0..6)];
            let cfg = Cfg { shards: 1, read_size: [16usize, 64, 8192][rng.gen_range(0..3)], min_pipeline: mp, threshold: th };
            let cuts: Vec<usize> = match rng.gen_range(0..3) {
                0 => vec![],
                _ => {
                    let mut c: Vec<usize> = (0..rng.gen_range(1..6)).map(|_| rng.gen_range(1..100_000)).collect();
                    c.sort();
                    c
                }
            };
            rep.evaluations += 1;
            rep.count(&format!("shards:{}", n));
            for it in &items {
                let blk = it.cmds.len() > 1;
                for c in &it.cmds {
                    rep.count("commands");
                    rep.distinct(&(name_of(c), blk, n, mp, th));
                }
                if it.cmds.iter().any(|c| name_of(c) == "MULTI") {
                    rep.count("transaction_blocks");
                } else if blk {
                    rep.count("getset_runs");
                }
            }
            if let Some(f) = compare(&items, n, &cfg, &cuts).await {
                rep.count("diverging_streams");
                if !rep.has_sig(&f.sig) {
                    // shrink: drop whole items while the same signature persists
                    let mut cur = items.clone();
                    let mut i = 0;
                    let mut budget = 150;
                    while i < cur.len() && budget > 0 {
                        budget -= 1;
                        let mut cand = cur.clone();
                        cand.remove(i);
                        if !cand.is_empty() && compare(&cand, n, &cfg, &cuts).await.map(|g| g.sig == f.sig).unwrap_or(false) {
                            cur = cand;
                        } else {
                            i += 1;
                        }
                    }
                    let f2 = compare(&cur, n, &cfg, &cuts).await.unwrap_or(f);
                    rep.violation(f2.sig, f2.detail, json!({"shards": n, "items": items_json(&cur), "read_size": cfg.read_size, "min_pipeline": cfg.min_pipeline, "threshold": cfg.threshold, "cuts": cuts}));
                } else {
                    rep.count("violations_raw");
                }
            }
            if s < 2 {
                rep.sample(json!({"shards": n, "items": items_json(&items[..items.len().min(4)])}));
            }
        }
    });
    if rep.counters.get("transaction_blocks").copied().unwrap_or(0) == 0 || rep.counters.get("getset_runs").copied().unwrap_or(0) == 0 {
        rep.inconclusive("no transaction block or no plain GET/SET run was generated");
    }
    rep.finish(args);
}
