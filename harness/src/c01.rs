//! C01 — every reply and the visible keyspace match the Redis reference model, step by step.
//! Also hosts the shared "target" plumbing (argv -> production parser -> CommandExecutor).
use crate::common::*;
use crate::gen::{self, Argv, Family};
use crate::model::{Exp, Model, PickKind};
use crate::myresp::{self, Tree};
use bytes::BytesMut;
use rand::Rng as _;
use redis_sim::redis::{Command, CommandExecutor, RespCodec, RespValue};
use redis_sim::simulator::VirtualTime;
use serde_json::{json, Value};
use std::collections::BTreeMap;

/// not a whole second: the production shard actor starts at an arbitrary instant, and the second- and
/// millisecond-based epochs of the executor must agree for every sub-second part
pub const EPOCH_MS: i64 = 1_700_000_000_437;

/// argv -> Command through the production decode path (RespCodec + from_resp_zero_copy)
pub fn parse_argv(a: &Argv) -> Result<Command, String> {
    let f = myresp::frame_v(a);
    let mut buf = BytesMut::from(&f[..]);
    match RespCodec::parse(&mut buf) {
        Ok(Some(v)) => Command::from_resp_zero_copy(&v),
        Ok(None) => Err("incomplete".into()),
        Err(e) => Err(e),
    }
}

pub struct ExecTarget {
    pub ex: CommandExecutor,
    pub vt: u64,
}

impl ExecTarget {
    pub fn new() -> ExecTarget {
        let mut ex = CommandExecutor::new();
        ex.set_simulation_start_epoch(EPOCH_MS / 1000);
        ex.set_simulation_start_epoch_ms(EPOCH_MS);
        ExecTarget { ex, vt: 0 }
    }
    /// mode 0: set_time (active expiry); 1: update_time_readonly (lazy only); 2: evict_expired_direct
    pub fn advance(&mut self, ms: i64, mode: u8) {
        self.vt = self.vt.saturating_add(ms.max(0) as u64);
        let t = VirtualTime::from_millis(self.vt);
        match mode {
            0 => self.ex.set_time(t),
            1 => self.ex.update_time_readonly(t),
            _ => {
                self.ex.evict_expired_direct(t);
            }
        }
    }
    /// Returns Err(panic message) when the server code panicked.
    pub fn run(&mut self, a: &Argv) -> Result<Tree, String> {
        let ex = &mut self.ex;
        guard(|| match parse_argv(a) {
            Err(e) => {
                // what the connection would send: encode_error_into() prefixes ERR when missing
                let known = ["ERR ", "WRONGTYPE ", "WRONGPASS ", "EXECABORT ", "NOAUTH ", "NOPERM "];
                let text = if known.iter().any(|p| e.starts_with(p)) { e } else { format!("ERR {}", e) };
                Tree::Error(text.into_bytes())
            }
            Ok(cmd) => myresp::from_resp(&ex.execute(&cmd)),
        })
    }
    pub fn run_cmd(&mut self, cmd: &Command) -> Result<RespValue, String> {
        let ex = &mut self.ex;
        guard(|| ex.execute(cmd))
    }
}

fn av(parts: &[&[u8]]) -> Argv {
    parts.iter().map(|p| p.to_vec()).collect()
}

pub type Snapshot = BTreeMap<Vec<u8>, (String, Vec<Vec<u8>>, i64)>;

fn bulks(t: &Tree) -> Option<Vec<Vec<u8>>> {
    match t {
        Tree::Arr(Some(v)) => v
            .iter()
            .map(|x| match x {
                Tree::Bulk(Some(b)) => Some(b.clone()),
                _ => None,
            })
            .collect(),
        _ => None,
    }
}

pub fn canon_score(b: &[u8]) -> Vec<u8> {
    // scores are compared as numbers: re-render through the model's formatter
    match crate::model::s2d(b) {
        Some(f) => crate::model::fmt_score(f),
        None => b.to_vec(),
    }
}

/// Visible keyspace through the public command set only, at the current instant.
pub fn snapshot_with(mut run: impl FnMut(&Argv) -> Result<Tree, String>) -> Result<Snapshot, String> {
    let keys = bulks(&run(&av(&[b"KEYS", b"*"]))?).ok_or("KEYS * did not return an array of bulks")?;
    let mut out = Snapshot::new();
    for k in keys {
        let ty = match run(&av(&[b"TYPE", &k]))? {
            Tree::Simple(s) => String::from_utf8_lossy(&s).to_string(),
            other => format!("{:?}", other),
        };
        let val: Vec<Vec<u8>> = match ty.as_str() {
            "string" => match run(&av(&[b"GET", &k]))? {
                Tree::Bulk(Some(b)) => vec![b],
                other => vec![format!("{:?}", other).into_bytes()],
            },
            "list" => bulks(&run(&av(&[b"LRANGE", &k, b"0", b"-1"]))?).unwrap_or_default(),
            "set" => {
                let mut v = bulks(&run(&av(&[b"SMEMBERS", &k]))?).unwrap_or_default();
                v.sort();
                v
            }
            "hash" => {
                let v = bulks(&run(&av(&[b"HGETALL", &k]))?).unwrap_or_default();
                let mut p: Vec<(Vec<u8>, Vec<u8>)> = v.chunks(2).filter(|c| c.len() == 2).map(|c| (c[0].clone(), c[1].clone())).collect();
                p.sort();
                p.into_iter().flat_map(|(f, v)| vec![f, v]).collect()
            }
            "zset" => {
                let v = bulks(&run(&av(&[b"ZRANGE", &k, b"0", b"-1", b"WITHSCORES"]))?).unwrap_or_default();
                v.chunks(2).filter(|c| c.len() == 2).flat_map(|c| vec![c[0].clone(), canon_score(&c[1])]).collect()
            }
            "none" => vec![b"<listed by KEYS but TYPE says none>".to_vec()],
            _ => vec![],
        };
        let pttl = match run(&av(&[b"PTTL", &k]))? {
            Tree::Int(n) => n,
            _ => i64::MIN,
        };
        out.insert(k, (ty, val, pttl));
    }
    Ok(out)
}

pub fn kind(t: &Tree) -> String {
    match t {
        Tree::Simple(s) if s == b"OK" => "ok".into(),
        Tree::Simple(_) => "simple".into(),
        Tree::Error(e) => format!("err:{}", String::from_utf8_lossy(e).split_whitespace().next().unwrap_or("")),
        Tree::Int(_) => "int".into(),
        Tree::Bulk(None) => "nil".into(),
        Tree::Bulk(Some(_)) => "bulk".into(),
        Tree::Arr(None) => "nilarr".into(),
        Tree::Arr(Some(_)) => "arr".into(),
    }
}

fn exp_kind(e: &Exp) -> String {
    match e {
        Exp::Exact(t) => kind(t),
        Exp::Err(c) => format!("err:{}", c),
        Exp::Multiset(_) | Exp::PairSet(_) | Exp::Scored(_) => "arr".into(),
        Exp::Float(_) => "bulk".into(),
        Exp::Pick(_) => "pick".into(),
        Exp::OneOf(v) => v.iter().map(exp_kind).collect::<Vec<_>>().join("/"),
    }
}

fn rel(exp: &Tree, got: &Tree) -> String {
    match (exp, got) {
        (Tree::Int(a), Tree::Int(b)) => {
            let d = (*b as i128) - (*a as i128);
            if d == 1 {
                "got=exp+1".into()
            } else if d == -1 {
                "got=exp-1".into()
            } else if (*a < 0) != (*b < 0) {
                "sign".into()
            } else {
                "other".into()
            }
        }
        (Tree::Bulk(Some(a)), Tree::Bulk(Some(b))) => format!("len:{}", if a.len() == b.len() { "same" } else if b.len() < a.len() { "shorter" } else { "longer" }),
        (Tree::Arr(Some(a)), Tree::Arr(Some(b))) => format!("n:{}", if a.len() == b.len() { "same" } else if b.len() < a.len() { "fewer" } else { "more" }),
        _ => "-".into(),
    }
}

fn multiset_eq(a: &[Tree], b: &[Tree]) -> bool {
    let mut x: Vec<String> = a.iter().map(|t| format!("{:?}", t)).collect();
    let mut y: Vec<String> = b.iter().map(|t| format!("{:?}", t)).collect();
    x.sort();
    y.sort();
    x == y
}

fn float_close(a: f64, b: f64) -> bool {
    if a == b {
        return true;
    }
    let d = (a - b).abs();
    d <= 1e-9 * a.abs().max(b.abs()).max(1e-300)
}

/// Ok(()) when `got` satisfies `exp`; Err(relation) otherwise. Applies implementation choices to the model.
pub fn satisfies(exp: &Exp, got: &Tree, model: &mut Model, argv: &Argv) -> Result<(), String> {
    match exp {
        Exp::Exact(t) => {
            if t == got {
                Ok(())
            } else {
                Err(rel(t, got))
            }
        }
        Exp::Err(c) => match got {
            Tree::Error(e) if e.starts_with(c.as_bytes()) => Ok(()),
            _ => Err("-".into()),
        },
        Exp::Multiset(v) => match got {
            Tree::Arr(Some(g)) if multiset_eq(v, g) => Ok(()),
            Tree::Arr(Some(g)) => Err(format!("n:{}", if g.len() == v.len() { "same" } else if g.len() < v.len() { "fewer" } else { "more" })),
            _ => Err("-".into()),
        },
        Exp::PairSet(p) => match got {
            Tree::Arr(Some(g)) if g.len() == 2 * p.len() => {
                let gp: Vec<Tree> = g.chunks(2).map(|c| Tree::Arr(Some(c.to_vec()))).collect();
                let ep: Vec<Tree> = p.iter().map(|(a, b)| Tree::Arr(Some(vec![a.clone(), b.clone()]))).collect();
                if multiset_eq(&ep, &gp) {
                    Ok(())
                } else {
                    Err("pairs-differ".into())
                }
            }
            _ => Err("-".into()),
        },
        Exp::Float(f) => match got {
            Tree::Bulk(Some(b)) => match crate::model::s2d(b) {
                // a sorted-set score is a double the client sent (or an f64 sum of such): it must read back exactly
                Some(g) if String::from_utf8_lossy(&argv[0]).to_ascii_uppercase().starts_with('Z') && g != *f => Err("score-not-exact".into()),
                Some(g) if float_close(*f, g) => {
                    // the model stores the implementation's rendering (INCRBYFLOAT)
                    if String::from_utf8_lossy(&argv[0]).eq_ignore_ascii_case("INCRBYFLOAT") {
                        if let Some(e) = model.db.get_mut(&argv[1]) {
                            e.0 = crate::model::V::Str(b.clone());
                        }
                    }
                    Ok(())
                }
                _ => Err("float-differs".into()),
            },
            _ => Err("-".into()),
        },
        Exp::Scored(v) => match got {
            Tree::Arr(Some(g)) if g.len() == 2 * v.len() => {
                for (i, (m, s)) in v.iter().enumerate() {
                    let ok_m = matches!(&g[2 * i], Tree::Bulk(Some(b)) if b == m);
                    let ok_s = matches!(&g[2 * i + 1], Tree::Bulk(Some(b)) if crate::model::s2d(b).map(|x| x == *s).unwrap_or(false));
                    if !ok_m {
                        return Err("member-order".into());
                    }
                    if !ok_s {
                        return Err("score".into());
                    }
                }
                Ok(())
            }
            Tree::Arr(Some(g)) => Err(format!("n:{}", if g.len() < 2 * v.len() { "fewer" } else { "more" })),
            _ => Err("-".into()),
        },
        Exp::Pick(PickKind::RandomKey) => {
            let live = model.live_keys();
            match got {
                Tree::Bulk(None) if live.is_empty() => Ok(()),
                Tree::Bulk(Some(k)) if live.contains(k) => Ok(()),
                _ => Err("not-a-live-key".into()),
            }
        }
        Exp::Pick(PickKind::SpopOne(k)) => {
            let members: Vec<Vec<u8>> = match model.db.get(k) {
                Some((crate::model::V::Set(s), _)) => s.iter().cloned().collect(),
                _ => vec![],
            };
            match got {
                Tree::Bulk(Some(m)) if members.contains(m) => {
                    model.apply_spop(k, &[m.clone()]);
                    Ok(())
                }
                _ => Err("not-a-member".into()),
            }
        }
        Exp::Pick(PickKind::SpopN(k, n)) => {
            let members: Vec<Vec<u8>> = match model.db.get(k) {
                Some((crate::model::V::Set(s), _)) => s.iter().cloned().collect(),
                _ => vec![],
            };
            match bulks(got) {
                Some(g) => {
                    let mut d = g.clone();
                    d.sort();
                    d.dedup();
                    if d.len() == g.len() && g.len() == (*n).min(members.len()) && g.iter().all(|m| members.contains(m)) {
                        model.apply_spop(k, &g);
                        Ok(())
                    } else {
                        Err("bad-selection".into())
                    }
                }
                None => Err("-".into()),
            }
        }
        Exp::OneOf(v) => {
            for e in v {
                if satisfies(e, got, model, argv).is_ok() {
                    return Ok(());
                }
            }
            Err("-".into())
        }
    }
}

#[derive(Clone, Debug)]
pub enum Step {
    Cmd(Argv),
    Advance(i64, u8),
}

fn step_json(s: &Step) -> Value {
    match s {
        Step::Cmd(a) => json!(a.iter().map(|x| lossy(x)).collect::<Vec<_>>()),
        Step::Advance(ms, mode) => json!({"advance_ms": ms, "mode": mode}),
    }
}
fn step_from(v: &Value) -> Step {
    if let Some(a) = v.as_array() {
        Step::Cmd(a.iter().map(|x| unlossy(x.as_str().unwrap_or(""))).collect())
    } else {
        Step::Advance(v["advance_ms"].as_i64().unwrap_or(0), v["mode"].as_u64().unwrap_or(0) as u8)
    }
}

#[derive(Debug, Clone)]
pub struct Divergence {
    pub signature: String,
    pub detail: String,
    pub at: usize,
}

fn snap_diff(m: &Snapshot, i: &Snapshot) -> Option<(String, String)> {
    for (k, (mt, mv, mttl)) in m {
        match i.get(k) {
            None => return Some(("key-missing".into(), format!("key {:?} ({}) is in the model but not visible in the server", lossy(k), mt))),
            Some((it, iv, ittl)) => {
                if it != mt {
                    return Some((format!("type:{}->{}", mt, it), format!("key {:?}: model type {}, server type {}", lossy(k), mt, it)));
                }
                if iv != mv {
                    return Some((format!("value:{}", mt), format!("key {:?}: model {:?}, server {:?}", lossy(k), mv.iter().map(|x| lossy(x)).collect::<Vec<_>>(), iv.iter().map(|x| lossy(x)).collect::<Vec<_>>())));
                }
                if ittl != mttl {
                    let c = if *mttl == -1 { "model-none/server-some" } else if *ittl == -1 { "model-some/server-none" } else { "both-differ" };
                    return Some((format!("ttl:{}", c), format!("key {:?}: model pttl {}, server pttl {}", lossy(k), mttl, ittl)));
                }
            }
        }
    }
    for (k, (it, _, _)) in i {
        if !m.contains_key(k) {
            return Some((format!("key-extra:{}", it), format!("key {:?} ({}) is visible in the server but not in the model", lossy(k), it)));
        }
    }
    None
}

/// Run one sequence on a fresh executor and a fresh model; first divergence or None.
pub fn run_sequence(steps: &[Step], mut on_cmd: impl FnMut(&Argv, &Tree)) -> Option<Divergence> {
    let mut t = ExecTarget::new();
    let mut m = Model::new(EPOCH_MS);
    for (i, s) in steps.iter().enumerate() {
        match s {
            Step::Advance(ms, mode) => {
                t.advance(*ms, *mode);
                m.advance(*ms);
            }
            Step::Cmd(a) => {
                let exp = match m.exec(a) {
                    Some(e) => e,
                    None => continue,
                };
                let sh = gen::shape(a);
                let got = match t.run(a) {
                    Ok(g) => g,
                    Err(p) => {
                        return Some(Divergence { signature: format!("C01|{}|panic|{}", sh, panic_class(&p)), detail: format!("panic: {}", p), at: i });
                    }
                };
                on_cmd(a, &got);
                let why = m.why;
                if let Err(r) = satisfies(&exp, &got, &mut m, a) {
                    let head = if why.is_empty() { sh.clone() } else { format!("{}|why={}", sh.split('+').next().unwrap_or(""), why) };
                    return Some(Divergence {
                        signature: format!("C01|{}|reply|exp={}|got={}|{}", head, exp_kind(&exp), kind(&got), r),
                        detail: format!("step {}: {:?} -> server {:?}, model expects {:?}", i, a.iter().map(|x| lossy(x)).collect::<Vec<_>>(), got, exp),
                        at: i,
                    });
                }
                let ms = m.snapshot();
                let is = match snapshot_with(|q| t.run(q)) {
                    Ok(s) => s,
                    Err(p) => {
                        return Some(Divergence { signature: format!("C01|{}|snapshot-panic|{}", sh, panic_class(&p)), detail: p, at: i });
                    }
                };
                if let Some((facet, detail)) = snap_diff(&ms, &is) {
                    return Some(Divergence {
                        signature: format!("C01|{}|keyspace|{}", sh, facet),
                        detail: format!("after step {} {:?} (reply {:?}): {}", i, a.iter().map(|x| lossy(x)).collect::<Vec<_>>(), got, detail),
                        at: i,
                    });
                }
            }
        }
    }
    None
}

/// Deterministic shrink: drop steps (chunks, then singles) while the same signature reproduces.
pub fn shrink(steps: &[Step], sig: &str) -> Vec<Step> {
    let mut cur: Vec<Step> = steps.to_vec();
    let same = |c: &[Step]| run_sequence(c, |_, _| {}).map(|d| d.signature == sig).unwrap_or(false);
    if let Some(d) = run_sequence(&cur, |_, _| {}) {
        cur.truncate(d.at + 1);
    }
    let mut chunk = (cur.len() / 2).max(1);
    loop {
        let mut i = 0;
        let mut progress = false;
        while i < cur.len().saturating_sub(1) {
            let end = (i + chunk).min(cur.len() - 1); // never drop the last (diverging) step
            if end <= i {
                break;
            }
            let mut cand = cur[..i].to_vec();
            cand.extend_from_slice(&cur[end..]);
            if same(&cand) {
                cur = cand;
                progress = true;
            } else {
                i += chunk;
            }
        }
        if chunk == 1 && !progress {
            break;
        }
        chunk = (chunk / 2).max(1);
    }
    cur
}

/// "Clean" = the arguments alone are acceptable to Redis (dry run of the model on an empty
/// keyspace) and none of them is in a class this server is known to parse leniently. Clean
/// sequences run deep into the state space; hostile ones probe argument validation.
pub fn is_clean(a: &Argv, now: i64) -> bool {
    let lenient: [&[u8]; 9] = [b"01", b"+1", b"-0", b" 1", b"007", b" 12", b"nan", b"inf", b"1e400"];
    if a.iter().skip(1).any(|x| lenient.contains(&x.as_slice())) {
        return false;
    }
    let mut m = Model::new(now);
    match m.exec(a) {
        Some(Exp::Err(_)) | Some(Exp::OneOf(_)) => matches!(m.why, "no-such-key" | "index-out-of-range"),
        Some(_) => true,
        None => false,
    }
}

pub fn gen_sequence_mode(rng: &mut Rng, fams: &[Family], len: usize, clean: bool) -> Vec<Step> {
    let mut steps = vec![];
    let mut now = EPOCH_MS;
    for _ in 0..len {
        if rng.gen_bool(0.3) {
            let ms = gen::gen_advance(rng);
            if ms > 0 {
                now += ms;
                steps.push(Step::Advance(ms, rng.gen_range(0..3)));
            }
        }
        let mut cmd = gen::gen_cmd(rng, fams, now);
        if clean {
            for _ in 0..40 {
                if is_clean(&cmd, now) {
                    break;
                }
                cmd = gen::gen_cmd(rng, fams, now);
            }
            if !is_clean(&cmd, now) {
                continue;
            }
        }
        steps.push(Step::Cmd(cmd));
    }
    steps
}

pub fn gen_sequence(rng: &mut Rng, fams: &[Family], len: usize) -> Vec<Step> {
    gen_sequence_mode(rng, fams, len, false)
}

/// KEYS / SCAN MATCH / HSCAN MATCH / ZSCAN MATCH against the model's glob (Redis `stringmatchlen`) over names built to make
/// a matcher backtrack: repeated suffixes, a star followed by text that also occurs earlier, classes, escapes.
fn glob_matrix(rep: &mut Report) {
    const NAMES: [&str; 16] = ["job:11", "job:1", "app.log.log", "app.log", "abb", "ab", "aab", "a1b1", "xx", "x", "k[1]", "a*b", "axb", "aXb", "abab", "b"];
    const PATS: [&str; 26] = [
        "*1", "*11", "*.log", "a*b", "*b", "*ab", "a*b*", "?*1", "*[1]", "*?", "a*", "*a*b", "**b", "*b*b", "a?b", "*\\*b", "[a-b]*b", "*[^x]", "*x", "x*x", "*:1", "*:*1", "a*b*b", "*.l*g",
        "k\\[1\\]", "*",
    ];
    let b = |x: &str| x.as_bytes().to_vec();
    let mut t = ExecTarget::new();
    for n in NAMES {
        let _ = t.run(&vec![b("SET"), b(n), b("v")]);
        let _ = t.run(&vec![b("HSET"), b("glob:h"), b(n), b("v")]);
        let _ = t.run(&vec![b("ZADD"), b("glob:z"), b("1"), b(n)]);
    }
    let names_of = |tr: &Tree, step: usize| -> Vec<Vec<u8>> {
        let mut out = vec![];
        if let Tree::Arr(Some(v)) = tr {
            for (i, e) in v.iter().enumerate() {
                if i % step == 0 {
                    if let Tree::Bulk(Some(x)) = e {
                        out.push(x.clone());
                    }
                }
            }
        }
        out.sort();
        out
    };
    for p in PATS {
        let want: Vec<Vec<u8>> = {
            let mut w: Vec<Vec<u8>> = NAMES.iter().filter(|n| crate::model::glob(p.as_bytes(), n.as_bytes())).map(|n| b(n)).collect();
            w.sort();
            w
        };
        let runs: [(&str, Argv, usize, bool); 4] = [
            ("KEYS", vec![b("KEYS"), b(p)], 1, false),
            ("SCAN", vec![b("SCAN"), b("0"), b("MATCH"), b(p), b("COUNT"), b("1000")], 1, true),
            ("HSCAN", vec![b("HSCAN"), b("glob:h"), b("0"), b("MATCH"), b(p), b("COUNT"), b("1000")], 2, true),
            ("ZSCAN", vec![b("ZSCAN"), b("glob:z"), b("0"), b("MATCH"), b(p), b("COUNT"), b("1000")], 2, true),
        ];
        for (cmd, argv, step, cursor) in runs {
            rep.evaluations += 1;
            rep.count("glob_matrix_queries");
            let Ok(r) = t.run(&argv) else { continue };
            let listed = if cursor {
                match &r {
                    Tree::Arr(Some(v)) if v.len() == 2 => names_of(&v[1], step),
                    _ => vec![],
                }
            } else {
                names_of(&r, step)
            };
            // KEYS / SCAN also list the two helper keys when the pattern matches them
            let mut want2 = want.clone();
            if cmd == "KEYS" || cmd == "SCAN" {
                for extra in ["glob:h", "glob:z"] {
                    if crate::model::glob(p.as_bytes(), extra.as_bytes()) {
                        want2.push(b(extra));
                    }
                }
                want2.sort();
            }
            if listed != want2 {
                let missing = want2.iter().filter(|x| !listed.contains(x)).count();
                rep.violation(
                    format!("C01|{}|glob|{}", cmd, if missing > 0 { "name-not-listed" } else { "extra-name-listed" }),
                    format!("{} with pattern {:?}: listed {:?}, Redis lists {:?}", cmd, p, listed.iter().map(|x| lossy(x)).collect::<Vec<_>>(), want2.iter().map(|x| lossy(x)).collect::<Vec<_>>()),
                    json!({"glob": p, "cmd": cmd}),
                );
            }
        }
    }
}

pub fn model_leg(args: &Args) {
    let mut rep = Report::new("C01", "model");
    if let Some(p) = &args.replay {
        let w: Value = serde_json::from_str(&std::fs::read_to_string(p).expect("replay")).expect("json");
        let steps: Vec<Step> = w["witness"]["steps"].as_array().unwrap().iter().map(step_from).collect();
        rep.evaluations += 1;
        if let Some(d) = run_sequence(&steps, |_, _| {}) {
            rep.violation(d.signature, d.detail, w["witness"].clone());
        }
        rep.finish(args);
        return;
    }
    let mut rng = args.rng(10);
    let nseq = args.get_u64("sequences", if args.thorough() { 20_000 } else { 1_500 });
    let mut per_cmd: BTreeMap<String, u64> = BTreeMap::new();
    for s in 0..nseq {
        // family mixes: single family (deep), pairs (type changes), all
        let fams: Vec<Family> = match s % 4 {
            0 => vec![gen::ALL_FAMILIES[rng.gen_range(0..6)], Family::Key],
            1 => vec![gen::ALL_FAMILIES[rng.gen_range(0..6)], gen::ALL_FAMILIES[rng.gen_range(0..6)], Family::Key],
            _ => gen::ALL_FAMILIES.to_vec(),
        };
        let len = rng.gen_range(1..60);
        let clean = s % 4 != 3;
        let steps = gen_sequence_mode(&mut rng, &fams, len, clean);
        rep.count(if clean { "sequences_clean" } else { "sequences_hostile" });
        rep.evaluations += 1;
        let mut ops = 0u64;
        let mut classes: Vec<(String, String)> = vec![];
        let d = run_sequence(&steps, |a, got| {
            ops += 1;
            classes.push((gen::shape(a), kind(got)));
        });
        rep.add("ops", ops);
        for (sh, k) in classes {
            *per_cmd.entry(sh.split('+').next().unwrap().to_string()).or_insert(0) += 1;
            rep.distinct(&(sh, k));
        }
        if let Some(d) = d {
            if !rep.has_sig(&d.signature) {
                let small = shrink(&steps, &d.signature);
                let d2 = run_sequence(&small, |_, _| {}).unwrap_or(d.clone());
                rep.violation(d2.signature, d2.detail, json!({"steps": small.iter().map(step_json).collect::<Vec<_>>()}));
            } else {
                rep.count("violations_raw");
            }
            rep.count("diverging_sequences");
        }
        if s < 2 {
            rep.sample(json!({"steps": steps.iter().take(12).map(step_json).collect::<Vec<_>>()}));
        }
    }
    for (c, n) in &per_cmd {
        rep.add(&format!("cmd:{}", c), *n);
    }
    let wanted = ["GET", "SET", "INCR", "APPEND", "EXPIRE", "PTTL", "LPUSH", "LRANGE", "SADD", "HSET", "ZADD", "ZRANGE", "RENAME", "DEL"];
    // the interpreter-sized run (a handful of sequences under Miri) is there for undefined behaviour, not for coverage
    for w in wanted.iter().filter(|_| !cfg!(miri)) {
        if !per_cmd.contains_key(*w) {
            rep.inconclusive(format!("command {} was never generated", w));
        }
    }
    if args.shard == 0 {
        glob_matrix(&mut rep);
    }
    rep.finish(args);
}

// ---------------------------------------------------------------------------------------------
// Leg (b): the same model comparison through ShardedActorState (one shard, manual clock), with
// plain GET/SET served by the generic, fast, pooled or batch entry path: "the clock advances
// arbitrarily" must hold whichever internal path serves a command.

use crate::c03::{self, Path};

#[derive(Clone, Debug)]
pub enum SStep {
    Cmd(Argv, Path),
    Advance(i64),
}

fn sstep_json(s: &SStep) -> Value {
    match s {
        SStep::Cmd(a, p) => json!({"cmd": a.iter().map(|x| lossy(x)).collect::<Vec<_>>(), "path": format!("{:?}", p)}),
        SStep::Advance(ms) => json!({"advance_ms": ms}),
    }
}
fn sstep_from(v: &Value) -> SStep {
    if let Some(c) = v.get("cmd") {
        let a: Argv = c.as_array().unwrap().iter().map(|x| unlossy(x.as_str().unwrap_or(""))).collect();
        let p = match v["path"].as_str().unwrap_or("Generic") {
            "Fast" => Path::Fast,
            "Pooled" => Path::Pooled,
            "Batch" => Path::Batch,
            _ => Path::Generic,
        };
        SStep::Cmd(a, p)
    } else {
        SStep::Advance(v["advance_ms"].as_i64().unwrap_or(0))
    }
}

async fn run_sharded(steps: &[SStep], mut on_cmd: impl FnMut(&Argv, &Path, &Tree)) -> Option<Divergence> {
    let (st, clock) = c03::new_state(1);
    let mut m = Model::new(EPOCH_MS);
    for (i, s) in steps.iter().enumerate() {
        match s {
            SStep::Advance(ms) => {
                clock.0.fetch_add(*ms as u64, std::sync::atomic::Ordering::SeqCst);
                m.advance(*ms);
            }
            SStep::Cmd(a, path) => {
                let exp = match m.exec(a) {
                    Some(e) => e,
                    None => continue,
                };
                let why = m.why;
                let sh = gen::shape(a);
                let got = c03::run_cmd(&st, a, path).await;
                on_cmd(a, path, &got);
                if let Err(r) = satisfies(&exp, &got, &mut m, a) {
                    let head = if why.is_empty() { sh.clone() } else { format!("{}|why={}", sh.split('+').next().unwrap_or(""), why) };
                    // through the generic path this is the executor's own behaviour: same
                    // signature as leg (a); the other paths get their own class
                    let signature = if *path == Path::Generic {
                        format!("C01|{}|reply|exp={}|got={}|{}", head, exp_kind(&exp), kind(&got), r)
                    } else {
                        format!("C01|sharded|{}|path={:?}|reply|exp={}|got={}|{}", head, path, exp_kind(&exp), kind(&got), r)
                    };
                    return Some(Divergence {
                        signature,
                        detail: format!("step {}: {:?} via {:?} -> server {:?}, model expects {:?}", i, a.iter().map(|x| lossy(x)).collect::<Vec<_>>(), path, got, exp),
                        at: i,
                    });
                }
                let ms = m.snapshot();
                let is = c03::snapshot(&st).await;
                if let Some((facet, detail)) = snap_diff(&ms, &is) {
                    let signature = if *path == Path::Generic {
                        format!("C01|{}|keyspace|{}", sh, facet)
                    } else {
                        format!("C01|sharded|{}|path={:?}|keyspace|{}", sh, path, facet)
                    };
                    return Some(Divergence {
                        signature,
                        detail: format!("after step {} {:?} via {:?} (reply {:?}): {}", i, a.iter().map(|x| lossy(x)).collect::<Vec<_>>(), path, got, detail),
                        at: i,
                    });
                }
            }
        }
    }
    None
}

pub fn sharded_leg(args: &Args) {
    let mut rep = Report::new("C01", "sharded");
    let rt = tokio::runtime::Builder::new_current_thread().enable_all().build().unwrap();
    if let Some(p) = &args.replay {
        let w: Value = serde_json::from_str(&std::fs::read_to_string(p).expect("replay")).expect("json");
        let steps: Vec<SStep> = w["witness"]["ssteps"].as_array().unwrap().iter().map(sstep_from).collect();
        rep.evaluations += 1;
        if let Some(d) = rt.block_on(run_sharded(&steps, |_, _, _| {})) {
            rep.violation(d.signature, d.detail, w["witness"].clone());
        }
        rep.finish(args);
        return;
    }
    let mut rng = args.rng(11);
    let nseq = args.get_u64("sequences", if args.thorough() { 6000 } else { 400 });
    rt.block_on(async {
        for s in 0..nseq {
            let len = rng.gen_range(2..40);
            // clean arguments only: argument validation is leg (a)'s business; this leg is about
            // which internal path serves plain GET/SET while time passes
            let base = gen_sequence_mode(&mut rng, &[Family::Str, Family::Key], len, true);
            let mut steps: Vec<SStep> = vec![];
            for st in base {
                match st {
                    Step::Advance(ms, _) => steps.push(SStep::Advance(ms)),
                    Step::Cmd(a) => {
                        let plain = (a.len() == 2 && a[0].eq_ignore_ascii_case(b"GET")) || (a.len() == 3 && a[0].eq_ignore_ascii_case(b"SET"));
                        let nm = gen::shape(&a);
                        if nm.starts_with("RANDOMKEY") {
                            continue;
                        }
                        let path = if plain { [Path::Generic, Path::Fast, Path::Pooled, Path::Batch][rng.gen_range(0..4)].clone() } else { Path::Generic };
                        steps.push(SStep::Cmd(a, path));
                        // a read of the same key through a fast path right after a clock advance
                        if rng.gen_bool(0.25) {
                            let k = gen::key(&mut rng);
                            let ms = [1i64, 999, 1000, 1001, 2000, 10_000][rng.gen_range(0..6)];
                            steps.push(SStep::Advance(ms));
                            steps.push(SStep::Cmd(vec![b"GET".to_vec(), k], [Path::Fast, Path::Pooled, Path::Batch, Path::Generic][rng.gen_range(0..4)].clone()));
                        }
                    }
                }
            }
            rep.evaluations += 1;
            let mut classes = vec![];
            let d = run_sharded(&steps, |a, p, got| classes.push((gen::shape(a), format!("{:?}", p), kind(got)))).await;
            for c in classes {
                rep.count("ops");
                rep.distinct(&c);
            }
            if let Some(d) = d {
                if !rep.has_sig(&d.signature) {
                    // shrink: drop steps while the signature reproduces
                    let mut cur = steps[..=d.at.min(steps.len() - 1)].to_vec();
                    let mut i = 0;
                    while i + 1 < cur.len() {
                        let mut cand = cur.clone();
                        cand.remove(i);
                        if run_sharded(&cand, |_, _, _| {}).await.map(|x| x.signature == d.signature).unwrap_or(false) {
                            cur = cand;
                        } else {
                            i += 1;
                        }
                    }
                    let d2 = run_sharded(&cur, |_, _, _| {}).await.unwrap_or(d);
                    rep.violation(d2.signature, d2.detail, json!({"ssteps": cur.iter().map(sstep_json).collect::<Vec<_>>()}));
                } else {
                    rep.count("violations_raw");
                }
                rep.count("diverging_sequences");
            }
            if s < 2 {
                rep.sample(json!({"ssteps": steps.iter().take(10).map(sstep_json).collect::<Vec<_>>()}));
            }
        }
    });
    rep.finish(args);
}
