//! C19 — key placement is a function of membership; selective gossip reaches every owner.
//!
//! One sub-command, `c19-place`. A *case* is one configuration (membership set, replication factor,
//! virtual-node count) on which the real `HashRing` / `GossipRouter` / `GossipState` are exercised:
//!   place    rings built along many histories (permutations, duplicates, join/leave detours) must return
//!            the same ordered list for every key; list shape = min(rf, size) distinct members
//!   disrupt  adding / removing node X changes a key's list only by gaining / losing X
//!   route    routing table of every sender == get_replicas(key) \ {sender}, per delta of a batch
//!            (GossipRouter::new, ::from_config, GossipState::queue_deltas, ring changed under the router)
//!   fingerprint  a fixed query set hashed; compared across insertion orders, threads and a child process
use crate::common::*;
use rand::seq::SliceRandom;
use rand::Rng as _;
use redis_sim::redis::SDS;
use redis_sim::replication::{
    GossipMessage, GossipRouter, GossipState, HashRing, LamportClock, ReplicaId, ReplicatedValue, ReplicationConfig, ReplicationDelta,
};
use serde_json::{json, Value};
use std::collections::{BTreeMap, BTreeSet, HashMap};
use std::sync::{Arc, RwLock};

const RF_SWEEP: [usize; 10] = [0, 1, 2, 3, 4, 5, 6, 7, 13, usize::MAX];

fn rid(v: &[u64]) -> Vec<ReplicaId> {
    v.iter().map(|&i| ReplicaId::new(i)).collect()
}
fn ids(v: &[ReplicaId]) -> Vec<u64> {
    v.iter().map(|r| r.0).collect()
}
fn rf_class(rf: usize, size: usize) -> &'static str {
    match rf {
        0 => "rf=0",
        r if r < size => "rf<size",
        r if r == size => "rf=size",
        _ => "rf>size",
    }
}
fn vn_class(vn: u32) -> &'static str {
    [ "vn>1", "vn=1" ][(vn == 1) as usize]
}
fn ops_json(ops: &[(bool, u64)]) -> Value {
    json!(ops.iter().map(|(a, i)| json!([if *a { "add" } else { "remove" }, i])).collect::<Vec<_>>())
}
fn ops_from(v: &Value) -> Vec<(bool, u64)> {
    v.as_array().map(|a| a.iter().map(|o| (o[0].as_str() == Some("add"), o[1].as_u64().unwrap_or(0))).collect()).unwrap_or_default()
}
fn u64s(v: &Value) -> Vec<u64> {
    v.as_array().map(|a| a.iter().filter_map(|x| x.as_u64()).collect()).unwrap_or_default()
}
fn strs(v: &Value) -> Vec<String> {
    v.as_array().map(|a| a.iter().filter_map(|x| x.as_str().map(String::from)).collect()).unwrap_or_default()
}
/// Long keys are abbreviated in details (the witness keeps them whole).
fn show(k: &str) -> String {
    let s: String = k.chars().take(24).collect();
    format!("{:?}{}", s, if k.len() > s.len() { format!("…({} bytes)", k.len()) } else { String::new() })
}
/// Record a violation; witness/detail are only built for the first occurrence of a signature.
fn viol(rep: &mut Report, sig: String, detail: impl FnOnce() -> String, wit: impl FnOnce() -> Value) {
    if rep.has_sig(&sig) {
        rep.count("violations_raw");
    } else {
        rep.violation(sig, detail(), wit());
    }
}

/// Membership (sorted, no duplicates) + ring configuration.
#[derive(Clone, Debug)]
struct Cfg {
    members: Vec<u64>,
    rf: usize,
    vn: u32,
}
impl Cfg {
    fn new(mut members: Vec<u64>, rf: usize, vn: u32) -> Cfg {
        members.sort();
        members.dedup();
        Cfg { members, rf, vn }
    }
    fn json(&self) -> Value {
        json!({"members": self.members, "rf": self.rf, "vn": self.vn})
    }
    fn from(v: &Value) -> Cfg {
        Cfg::new(u64s(&v["members"]), v["rf"].as_u64().unwrap_or(3) as usize, v["vn"].as_u64().unwrap_or(3) as u32)
    }
    fn ring(&self) -> HashRing {
        HashRing::new(rid(&self.members), self.vn, self.rf)
    }
}

/// One history arriving at a membership: the list handed to `HashRing::new`, then add / remove steps.
#[derive(Clone, Debug)]
struct Build {
    class: String,
    init: Vec<u64>,
    ops: Vec<(bool, u64)>,
}
impl Build {
    fn new(class: &str, init: Vec<u64>, ops: Vec<(bool, u64)>) -> Build {
        Build { class: class.into(), init, ops }
    }
    fn ring(&self, vn: u32, rf: usize) -> HashRing {
        let mut r = HashRing::new(rid(&self.init), vn, rf);
        for &(add, id) in &self.ops {
            let _ = if add { r.add_node(ReplicaId::new(id)) } else { r.remove_node(ReplicaId::new(id)) };
        }
        r
    }
    fn json(&self) -> Value {
        json!({"class": self.class, "init": self.init, "ops": ops_json(&self.ops)})
    }
    fn from(v: &Value) -> Build {
        Build { class: v["class"].as_str().unwrap_or("replay").into(), init: u64s(&v["init"]), ops: ops_from(&v["ops"]) }
    }
}

// ---------------------------------------------------------------- place

fn check_list(rep: &mut Report, site: &str, list: &[ReplicaId], rf: usize, cfg: &Cfg, wit: &dyn Fn() -> Value) {
    let size = cfg.members.len();
    let cls = format!("{},{}", rf_class(rf, size), vn_class(cfg.vn));
    let want = rf.min(size);
    if list.len() != want {
        let how = if list.len() < want { "short" } else { "long" };
        viol(rep, format!("C19|{}|wrong-length:{}|{}", site, how, cls), || format!("{} members, expected min({}, {}) = {}: {:?}", list.len(), rf, size, want, ids(list)), wit);
    }
    let set: BTreeSet<u64> = list.iter().map(|r| r.0).collect();
    if set.len() != list.len() {
        viol(rep, format!("C19|{}|duplicate-member|{}", site, cls), || format!("{:?}", ids(list)), wit);
    }
    if set.iter().any(|m| cfg.members.binary_search(m).is_err()) {
        viol(rep, format!("C19|{}|non-member-in-list|{}", site, cls), || format!("{:?} with members {:?}", ids(list), cfg.members), wit);
    }
}

/// Same ordered list from every history; list shape; derived accessors agree with the list.
fn check_place(rep: &mut Report, cfg: &Cfg, builds: &[Build], keys: &[String], keys_per_build: usize, sweep: usize) {
    let sorted = Build::new("sorted", cfg.members.clone(), vec![]);
    let reference = sorted.ring(cfg.vn, cfg.rf);
    let mut ref_lists = Vec::with_capacity(keys.len());
    for (ki, k) in keys.iter().enumerate() {
        let l = reference.get_replicas(k);
        let wit = |q: Option<usize>| json!({"check": "place", "cfg": cfg.json(), "build": sorted.json(), "key": k, "rf_query": q});
        check_list(rep, "HashRing::get_replicas", &l, cfg.rf, cfg, &|| wit(None));
        if ki < sweep {
            for rfq in RF_SWEEP {
                let lq = reference.get_replicas_with_rf(k, rfq);
                check_list(rep, "HashRing::get_replicas_with_rf", &lq, rfq, cfg, &|| wit(Some(rfq)));
                if rfq == cfg.rf && lq != l {
                    viol(rep, "C19|HashRing::get_replicas_with_rf|differs-from-get_replicas|same-rf".into(), || format!("{:?} vs {:?}", ids(&lq), ids(&l)), || wit(Some(rfq)));
                }
            }
            if reference.get_primary(k) != l.first().copied() {
                viol(rep, "C19|HashRing::get_primary|disagrees-with-get_replicas|any".into(), || format!("{:?} vs {:?}", reference.get_primary(k), ids(&l)), || wit(None));
            }
            for &m in cfg.members.iter().chain([u64::MAX - 7].iter()) {
                let r = ReplicaId::new(m);
                if reference.is_responsible(k, r) != l.contains(&r) {
                    viol(rep, "C19|HashRing::is_responsible|disagrees-with-get_replicas|any".into(), || format!("node {} key {} list {:?}", m, show(k), ids(&l)), || wit(None));
                }
                let want: Vec<ReplicaId> = l.iter().copied().filter(|x| *x != r).collect();
                if reference.get_gossip_targets(k, r) != want {
                    viol(rep, "C19|HashRing::get_gossip_targets|not-replicas-minus-sender|any".into(), || format!("sender {} key {} list {:?}", m, show(k), ids(&l)), || wit(None));
                }
            }
            rep.add("rf_sweep_lookups", RF_SWEEP.len() as u64);
        }
        ref_lists.push(l);
    }
    rep.add("lookups", keys.len() as u64);
    for b in builds {
        let ring = b.ring(cfg.vn, cfg.rf);
        let got: Vec<u64> = {
            let mut g = ids(ring.nodes());
            g.sort();
            g
        };
        let n = keys_per_build.min(keys.len());
        if got != cfg.members || ring.node_count() != cfg.members.len() {
            viol(
                rep,
                format!("C19|HashRing::nodes|membership-differs-from-history|{}", b.class),
                || format!("ring reports {:?} (count {}), history ends at {:?}", got, ring.node_count(), cfg.members),
                || json!({"check": "place", "cfg": cfg.json(), "build": b.json(), "key": keys[0]}),
            );
        }
        for (k, l) in keys.iter().zip(&ref_lists).take(n) {
            let g = ring.get_replicas(k);
            if &g != l {
                viol(
                    rep,
                    format!("C19|HashRing::get_replicas|list-depends-on-history|{}", b.class),
                    || format!("key {}: {:?} from the sorted build, {:?} from init {:?} ops {:?}", show(k), ids(l), ids(&g), b.init, b.ops),
                    || json!({"check": "place", "cfg": cfg.json(), "build": b.json(), "key": k}),
                );
            }
        }
        rep.add("lookups", n as u64);
        rep.count("builds");
        rep.count(&format!("builds:{}", b.class));
        rep.distinct(&("place", cfg.members.len(), cfg.rf.min(99), cfg.vn, &b.class));
    }
}

fn permutations(v: &[u64]) -> Vec<Vec<u64>> {
    if v.len() <= 1 {
        return vec![v.to_vec()];
    }
    let mut out = vec![];
    for i in 0..v.len() {
        let mut rest = v.to_vec();
        let x = rest.remove(i);
        for mut p in permutations(&rest) {
            p.insert(0, x);
            out.push(p);
        }
    }
    out
}

/// ids that are not members (for detours through larger memberships)
fn outsiders(rng: &mut Rng, members: &[u64], n: usize) -> Vec<u64> {
    let mut out = vec![];
    let hi = members.iter().copied().max().unwrap_or(0);
    let mut cands = vec![hi.wrapping_add(1), members.first().copied().unwrap_or(1).wrapping_sub(1), 0, u64::MAX, 1 << 32];
    while out.len() < n {
        let c = if cands.is_empty() { rng.gen::<u64>() >> rng.gen_range(0..60) } else { cands.remove(0) };
        if !members.contains(&c) && !out.contains(&c) {
            out.push(c);
        }
    }
    out
}

fn builds_for(rng: &mut Rng, members: &[u64], sampled_perms: usize) -> Vec<Build> {
    let mut out = vec![];
    let m = members.to_vec();
    let shuffled = |rng: &mut Rng| {
        let mut s = m.clone();
        s.shuffle(rng);
        s
    };
    if m.len() <= 5 {
        out.extend(permutations(&m).into_iter().map(|p| Build::new("permutation", p, vec![])));
    } else {
        let (mut rev, mut rot) = (m.clone(), m.clone());
        rev.reverse();
        rot.rotate_left(m.len() / 2);
        let sampled: Vec<Vec<u64>> = (0..sampled_perms).map(|_| shuffled(rng)).collect();
        out.extend([rev, rot].into_iter().chain(sampled).map(|p| Build::new("permutation", p, vec![])));
    }
    if m.is_empty() {
        out.push(Build::new("remove-absent", vec![], vec![(false, 1)]));
        out.push(Build::new("detour-through-larger", vec![2, 1], vec![(false, 1), (false, 2)]));
        return out;
    }
    // duplicates in the list given to the constructor
    let mut d = shuffled(rng);
    for _ in 0..rng.gen_range(1..4) {
        let x = d[rng.gen_range(0..d.len())];
        d.insert(rng.gen_range(0..=d.len()), x);
    }
    out.push(Build::new("duplicates-in-input", d, vec![]));
    // constructor gets a prefix, the rest joins one by one
    let s = shuffled(rng);
    let cut = rng.gen_range(0..s.len());
    out.push(Build::new("incremental-join", s[..cut].to_vec(), s[cut..].iter().map(|&i| (true, i)).collect()));
    // outsiders join first / in between and leave again
    let n_ext = rng.gen_range(1..4);
    let ext = outsiders(rng, &m, n_ext);
    let mut all = m.clone();
    all.extend(&ext);
    all.shuffle(rng);
    let mut leave = ext.clone();
    leave.shuffle(rng);
    out.push(Build::new("detour-through-larger", all.clone(), leave.iter().map(|&i| (false, i)).collect()));
    // a member leaves and rejoins (its virtual nodes are re-inserted last)
    let mut ops = vec![];
    for _ in 0..rng.gen_range(1..3) {
        let x = m[rng.gen_range(0..m.len())];
        ops.push((false, x));
        ops.push((true, x));
    }
    out.push(Build::new("leave-and-rejoin", shuffled(rng), ops));
    out.push(Build::new("remove-absent", shuffled(rng), vec![(false, ext[0])]));
    out.push(Build::new("re-add-present", shuffled(rng), vec![(true, m[rng.gen_range(0..m.len())])]));
    // random churn over members + outsiders, then repaired to the exact membership
    let mut present: BTreeSet<u64> = BTreeSet::new();
    let mut ops = vec![];
    for _ in 0..rng.gen_range(4..20) {
        let id = all[rng.gen_range(0..all.len())];
        let add = rng.gen_bool(0.6);
        ops.push((add, id));
        let _ = if add { present.insert(id) } else { present.remove(&id) };
    }
    let mut fix: Vec<(bool, u64)> = present.iter().filter(|i| !m.contains(i)).map(|&i| (false, i)).collect();
    fix.extend(m.iter().filter(|i| !present.contains(i)).map(|&i| (true, i)));
    fix.shuffle(rng);
    ops.extend(fix);
    out.push(Build::new("churn", vec![], ops));
    out
}

// ---------------------------------------------------------------- disrupt

fn is_subseq(a: &[ReplicaId], b: &[ReplicaId]) -> bool {
    let mut it = b.iter();
    a.iter().all(|x| it.any(|y| y == x))
}
fn without(l: &[ReplicaId], x: ReplicaId) -> Vec<ReplicaId> {
    l.iter().copied().filter(|r| *r != x).collect()
}
/// `new` is the list after X joined: unchanged unless it gained X; the others keep their order.
fn add_relation(old: &[ReplicaId], new: &[ReplicaId], x: ReplicaId) -> Option<&'static str> {
    if !new.contains(&x) {
        return if new != old { Some("changed-without-gaining-node") } else { None };
    }
    if !is_subseq(&without(new, x), old) {
        return Some("others-replaced-or-reordered");
    }
    None
}
/// `new` is the list after X left.
fn remove_relation(old: &[ReplicaId], new: &[ReplicaId], x: ReplicaId) -> Option<&'static str> {
    if new.contains(&x) {
        return Some("departed-node-still-listed");
    }
    if !old.contains(&x) {
        return if new != old { Some("changed-without-losing-node") } else { None };
    }
    if !is_subseq(&without(old, x), new) {
        return Some("others-replaced-or-reordered");
    }
    None
}

/// `cfg.members` contains x; compares membership-without-x against membership-with-x in both directions.
fn check_disrupt(rep: &mut Report, cfg: &Cfg, x: u64, keys: &[String]) {
    let xr = ReplicaId::new(x);
    let base = Cfg::new(cfg.members.iter().copied().filter(|m| *m != x).collect(), cfg.rf, cfg.vn).ring();
    let mut grown = base.clone();
    grown.add_node(xr);
    let fresh = cfg.ring();
    let mut shrunk = fresh.clone();
    shrunk.remove_node(xr);
    let cls = rf_class(cfg.rf, cfg.members.len());
    let (mut gained, mut same_a, mut lost, mut same_r) = (0u64, 0u64, 0u64, 0u64);
    for k in keys {
        let wit = || json!({"check": "disrupt", "cfg": cfg.json(), "x": x, "key": k});
        let old = base.get_replicas(k);
        // joined by add_node on the live ring, and by building the larger ring from scratch; when both show
        // the same thing it is the placement function itself, not add_node's bookkeeping
        let (new_a, new_f) = (grown.get_replicas(k), fresh.get_replicas(k));
        let (ka, kf) = (add_relation(&old, &new_a, xr), add_relation(&old, &new_f, xr));
        if let Some(kind) = kf {
            viol(rep, format!("C19|HashRing(join)|{}|{}", kind, cls), || format!("key {}: {:?} -> {:?} when {} joined", show(k), ids(&old), ids(&new_f), x), wit);
        }
        if let Some(kind) = ka.filter(|_| ka != kf) {
            viol(rep, format!("C19|HashRing::add_node|{}|{}", kind, cls), || format!("key {}: {:?} -> {:?} after add_node({})", show(k), ids(&old), ids(&new_a), x), wit);
        }
        let before = fresh.get_replicas(k);
        let after = shrunk.get_replicas(k);
        let kr = remove_relation(&before, &old, xr);
        if let Some(kind) = kr {
            viol(rep, format!("C19|HashRing(leave)|{}|{}", kind, cls), || format!("key {}: {:?} -> {:?} when {} left", show(k), ids(&before), ids(&old), x), wit);
        }
        if let Some(kind) = remove_relation(&before, &after, xr).filter(|k2| Some(*k2) != kr) {
            viol(rep, format!("C19|HashRing::remove_node|{}|{}", kind, cls), || format!("key {}: {:?} -> {:?} when {} left", show(k), ids(&before), ids(&after), x), wit);
        }
        if before.contains(&xr) {
            gained += 1;
            lost += 1;
        } else {
            same_a += 1;
            same_r += 1;
        }
    }
    rep.add("disrupt:keys_gaining_node", gained);
    rep.add("disrupt:keys_untouched_by_join", same_a);
    rep.add("disrupt:keys_losing_node", lost);
    rep.add("disrupt:keys_untouched_by_leave", same_r);
    rep.count("disrupt:membership_changes");
    rep.distinct(&("disrupt", cfg.members.len(), cfg.rf.min(99), cfg.vn, gained > 0, same_a > 0));
}

// ---------------------------------------------------------------- route

static OVERFLOW_CASES: std::sync::atomic::AtomicU64 = std::sync::atomic::AtomicU64::new(0);

/// One routed batch. ctor: "new" | "new+self-addr" | "from_config"; via: "route_deltas" | "route_with_stats" | "queue_deltas".
/// `ops` change the shared ring (and the router's peer table) after the router was built.
#[derive(Clone, Debug)]
struct RouteCase {
    cfg: Cfg,
    sender: u64,
    ctor: String,
    via: String,
    ops: Vec<(bool, u64)>,
    batch: Vec<String>,
}
impl RouteCase {
    fn json(&self) -> Value {
        json!({"check": "route", "cfg": self.cfg.json(), "sender": self.sender, "ctor": self.ctor, "via": self.via, "ops": ops_json(&self.ops), "batch": self.batch})
    }
    fn from(v: &Value) -> RouteCase {
        RouteCase {
            cfg: Cfg::from(&v["cfg"]),
            sender: v["sender"].as_u64().unwrap_or(1),
            ctor: v["ctor"].as_str().unwrap_or("new").into(),
            via: v["via"].as_str().unwrap_or("route_deltas").into(),
            ops: ops_from(&v["ops"]),
            batch: strs(&v["batch"]),
        }
    }
}

fn addr(id: u64) -> String {
    format!("node-{}.cluster:7000", id)
}

struct Discrepancy {
    kind: &'static str,
    target: u64,
    idx: usize,
    detail: String,
}

/// Runs the real router on the case; Ok(None) = table equals owners-minus-sender for every delta.
fn route_outcome(c: &RouteCase) -> Result<Option<Discrepancy>, String> {
    guard(|| {
        let me = ReplicaId::new(c.sender);
        let others: Vec<u64> = c.cfg.members.iter().copied().filter(|m| *m != c.sender).collect();
        let mut rcfg = ReplicationConfig::new_partitioned_cluster(c.sender, others.iter().map(|&i| addr(i)).collect(), c.cfg.rf);
        if c.cfg.vn != rcfg.virtual_nodes_per_physical {
            rcfg = rcfg.with_virtual_nodes(c.cfg.vn);
        }
        let ring = Arc::new(RwLock::new(HashRing::new(rid(&c.cfg.members), rcfg.virtual_nodes_per_physical, rcfg.replication_factor)));
        let mut router = if c.ctor == "from_config" {
            GossipRouter::from_config(&rcfg, ring.clone())
        } else {
            let mut peers: HashMap<ReplicaId, String> = others.iter().map(|&i| (ReplicaId::new(i), addr(i))).collect();
            if c.ctor == "new+self-addr" {
                peers.insert(me, addr(c.sender));
            }
            GossipRouter::new(ring.clone(), me, peers, true)
        };
        // Routing must not remember anything that membership changes can outdate. In half of the cases with
        // membership changes (decided by the case itself, so a witness replays the same way) the batch is also
        // routed *before* the changes and *between* the ring update and the peer-table update of each change
        // (results discarded): a router that caches per-key targets has to invalidate them at both steps.
        let warm = !c.ops.is_empty() && h64(&(c.sender, &c.ops, c.batch.len())) % 2 == 0;
        let warm_route = |router: &GossipRouter| {
            let me = ReplicaId::new(c.sender);
            let c_batch_len = c.batch.len();
            let ds: Vec<ReplicationDelta> = c.batch.iter().enumerate().map(|(i, k)| ReplicationDelta::new(k.clone(), ReplicatedValue::with_value(payload_for(c_batch_len, i), LamportClock { time: i as u64, replica_id: me }), source_for(i, me))).collect();
            let _ = router.route_deltas(ds);
        };
        if warm {
            warm_route(&router);
        }
        for &(add, id) in &c.ops {
            let r = ReplicaId::new(id);
            if add {
                ring.write().unwrap().add_node(r);
                if warm {
                    warm_route(&router);
                }
                router.update_peer(r, addr(id));
            } else {
                router.remove_peer(r);
                if warm {
                    warm_route(&router);
                }
                ring.write().unwrap().remove_node(r);
            }
        }
        if !router.is_selective() {
            return Some(Discrepancy { kind: "router-not-selective", target: 0, idx: 0, detail: "is_selective() == false for a partitioned-cluster config".into() });
        }
        // the Lamport time carries the delta's index in the batch
        let c_batch_len = c.batch.len();
        let mk = |(i, k): (usize, &String)| ReplicationDelta::new(k.clone(), ReplicatedValue::with_value(payload_for(c_batch_len, i), LamportClock { time: i as u64, replica_id: me }), source_for(i, me));
        let deltas: Vec<ReplicationDelta> = c.batch.iter().enumerate().map(mk).collect();
        // delta index -> targets it was handed to (with multiplicity)
        let mut got: Vec<Vec<u64>> = vec![vec![]; deltas.len()];
        let mut envelope: Option<Discrepancy> = None;
        let mut take = |t: ReplicaId, ds: &[ReplicationDelta]| {
            for d in ds {
                let i = d.value.timestamp.time as usize;
                if i < got.len() && d.key == c.batch[i] {
                    got[i].push(t.0);
                }
            }
        };
        match c.via.as_str() {
            "queue_deltas" => {
                let all_peers: Vec<ReplicaId> = router.peer_ids().copied().filter(|p| *p != me).collect();
                let mut st = GossipState::with_router(rcfg.clone(), router);
                st.epoch = 7;
                // one case in eight: between two drains the loop stalled - an earlier batch is still queued and heartbeats have
                // pushed the outbound queue past its bound (the oldest frames were dropped) when this batch is queued. Whatever
                // was lost of the old batch, this one still goes to its owners and to nobody else.
                if (c.sender as usize + c.batch.len()) % 8 == 0 {
                    OVERFLOW_CASES.fetch_add(1, std::sync::atomic::Ordering::Relaxed);
                    let pre: Vec<ReplicationDelta> = c.batch.iter().enumerate().map(|(i, k)| ReplicationDelta::new(format!("earlier:{}", k), ReplicatedValue::with_value(payload_for(c_batch_len, i), LamportClock { time: 1_000_000 + i as u64, replica_id: me }), me)).collect();
                    // two shapes: the earlier batch is among the dropped frames (queued first), or it survives the overflow in
                    // the middle of the queue (queued when the queue was nearly full; a few more heartbeats then drop the oldest)
                    let max = redis_sim::replication::gossip::MAX_OUTBOUND_QUEUE;
                    if (c.sender as usize + c.batch.len()) % 16 == 0 {
                        st.queue_deltas(pre);
                        for _ in 0..max + 3 {
                            st.queue_heartbeat();
                        }
                    } else {
                        for _ in 0..max - 5 {
                            st.queue_heartbeat();
                        }
                        st.queue_deltas(pre);
                        for _ in 0..9 {
                            st.queue_heartbeat();
                        }
                    }
                }
                st.queue_deltas(deltas);
                st.verify_invariants();
                for m in st.drain_outbound() {
                    match (m.target, &m.message) {
                        (Some(t), GossipMessage::TargetedDelta { source_replica, target_replica, deltas, .. }) => {
                            if *target_replica != t {
                                envelope = Some(Discrepancy { kind: "envelope-target-mismatch", target: t.0, idx: 0, detail: format!("queued for {} but the message names {} -> {}", t.0, source_replica.0, target_replica.0) });
                            }
                            take(t, deltas);
                        }
                        // a broadcast batch reaches every peer the router knows
                        (None, GossipMessage::DeltaBatch { deltas, .. }) => all_peers.iter().for_each(|t| take(*t, deltas)),
                        _ => {}
                    }
                }
            }
            "route_with_stats" => router.route_with_stats(deltas).0.iter().for_each(|(t, ds)| take(*t, ds)),
            _ => router.route_deltas(deltas).iter().for_each(|(t, ds)| take(*t, ds)),
        }
        if envelope.is_some() {
            return envelope;
        }
        let ring = ring.read().unwrap();
        for (i, k) in c.batch.iter().enumerate() {
            let owners = ids(&ring.get_replicas(k));
            let mut targets: BTreeSet<u64> = owners.iter().copied().collect();
            targets.extend(got[i].iter().copied());
            for t in targets {
                let expected = owners.contains(&t) && t != c.sender;
                let n = got[i].iter().filter(|x| **x == t).count();
                let kind = match (expected, n) {
                    (true, 0) => "owner-starved",
                    (true, _) | (false, 0) => continue, // a repeated hand-off to an owner is not forbidden by the property
                    (false, _) if t == c.sender => "sent-to-sender",
                    (false, _) => "sent-to-non-owner",
                };
                return Some(Discrepancy { kind, target: t, idx: i, detail: format!("key {} owners {:?} sender {}: handed to {:?} (node {})", show(k), owners, c.sender, got[i], t) });
            }
        }
        None
    })
}

/// Judge one routed batch; on a discrepancy shrink (single delta, plain route_deltas, static ring) before naming it.
fn check_route(rep: &mut Report, c: &RouteCase) {
    rep.count("route:batches");
    rep.add("route:deltas", c.batch.len() as u64);
    rep.count(&format!("route:via:{}:{}", c.ctor, c.via));
    let first = match route_outcome(c) {
        Ok(None) => return,
        Ok(Some(d)) => d,
        Err(p) => {
            viol(rep, format!("C19|GossipRouter::{}|{}|panic|{}", c.ctor, c.via, panic_class(&p)), || p.clone(), || c.json());
            return;
        }
    };
    // shrinking costs a dozen re-runs: after 40 shrunk discrepancies of one raw kind the rest are only counted
    let d_idx = first.idx;
    let raw = format!("route:discrepancy:{}:{}:{}", c.ctor, c.via, first.kind);
    rep.count(&raw);
    if rep.counters[&raw] > 40 {
        rep.count("violations_raw");
        return;
    }
    let (mut cur, mut d) = (c.clone(), first);
    // keep a simpler case whenever it shows the same kind of discrepancy
    let mut step = |cand: RouteCase| match route_outcome(&cand).ok().flatten() {
        Some(x) if x.kind == d.kind => {
            cur = cand.clone();
            d = x;
            Some(cand)
        }
        _ => None,
    };
    let mut best = step(RouteCase { batch: vec![c.batch[d_idx.min(c.batch.len() - 1)].clone()], ..c.clone() }).unwrap_or_else(|| c.clone());
    if best.batch.len() == 1 {
        if let Some(x) = ["a", "b", "key", "user:0", "user:1", "user:2", "user:3", "user:4", "user:5"].iter().find_map(|k| step(RouteCase { batch: vec![k.to_string()], ..best.clone() })) {
            best = x;
        }
    }
    if best.ctor == "new+self-addr" {
        best = step(RouteCase { ctor: "new".into(), ..best.clone() }).unwrap_or(best);
    }
    if best.via != "route_deltas" {
        best = step(RouteCase { via: "route_deltas".into(), ..best.clone() }).unwrap_or(best);
    }
    if !best.ops.is_empty() {
        // the same final membership, but fixed before the router is built
        let mut m: BTreeSet<u64> = best.cfg.members.iter().copied().collect();
        for &(add, id) in &best.ops {
            let _ = if add { m.insert(id) } else { m.remove(&id) };
        }
        step(RouteCase { cfg: Cfg::new(m.into_iter().collect(), best.cfg.rf, best.cfg.vn), ops: vec![], ..best.clone() });
    }
    let mut cls = vec![];
    if cur.ctor == "from_config" {
        cls.push(if d.kind != "owner-starved" { "any-target" } else if d.target == cur.sender + 1 { "target=sender+1" } else { "target-other" });
    } else if !cur.cfg.members.contains(&cur.sender) {
        cls.push("sender-not-member");
    }
    cls.push(if cur.ops.is_empty() { "static-ring" } else { "ring-changed-under-router" });
    cls.push(if cur.batch.len() == 1 { "batch=1" } else { "batch>1" });
    viol(rep, format!("C19|GossipRouter::{}|{}|{}|{}", cur.ctor, cur.via, d.kind, cls.join(",")), || d.detail.clone(), || cur.json());
}

/// Value carried by the i-th delta of a batch: one byte normally; odd-sized deep batches carry 2-8 KiB values, so that a
/// gossip round weighs megabytes (a size-driven split of a round must not lose its tail any more than a count-driven one).
fn payload_for(batch_len: usize, i: usize) -> SDS {
    if batch_len > 200 && batch_len % 2 == 1 {
        SDS::from_str(&"p".repeat(2048 + (i % 7) * 1000))
    } else {
        SDS::from_str("v")
    }
}

/// Who produced the i-th delta of a batch: the sender itself, except every fourth one, which the sender merely forwards for
/// another replica (hinted hand-off, repair of an owner that came back empty). Routing is about the key's owners and the
/// sender; who wrote the update first does not enter into it.
fn source_for(i: usize, me: ReplicaId) -> ReplicaId {
    if i % 4 == 3 {
        ReplicaId::new(1 + (i as u64 / 4) % 6)
    } else {
        me
    }
}

fn gen_batch(rng: &mut Rng, keys: &[String], rep: &mut Report) -> Vec<String> {
    let n = match rng.gen_range(0..40) {
        0..=5 => 1,
        6..=11 => 50,
        // batches beyond any plausible per-message limit (a split of an over-long message must not lose its tail)
        12 => *[257usize, 300, 513, 700].choose(rng).unwrap(),
        _ => rng.gen_range(2..50),
    };
    let mut b: Vec<String> = (0..n).map(|_| keys[rng.gen_range(0..keys.len())].clone()).collect();
    if n > 1 && rng.gen_bool(0.4) {
        let (i, j) = (rng.gen_range(0..n), rng.gen_range(0..n));
        if i != j {
            b[i] = b[j].clone();
            rep.count("route:batches_with_repeated_key");
        }
    }
    rep.max("route:batch_len", n as u64);
    rep.count(if n == 1 { "route:batch=1" } else { "route:batch>1" });
    b
}

/// Every member (and sometimes a non-member) as sender; all three paths; static and changed rings.
fn route_cases(rep: &mut Report, rng: &mut Rng, cfg: &Cfg, keys: &[String], batches_per_sender: usize) {
    const VIAS: [&str; 3] = ["route_deltas", "queue_deltas", "route_with_stats"];
    if cfg.members.is_empty() {
        return;
    }
    let ring = cfg.ring();
    let mut senders = cfg.members.clone();
    if rng.gen_bool(0.25) {
        senders.push(outsiders(rng, &cfg.members, 1)[0]);
    }
    for (si, &s) in senders.iter().enumerate() {
        for b in 0..batches_per_sender {
            let batch = gen_batch(rng, keys, rep);
            let own = batch.iter().filter(|k| ring.is_responsible(k, ReplicaId::new(s))).count() as u64;
            rep.add("route:deltas_sender_is_owner", own);
            rep.add("route:deltas_sender_not_owner", batch.len() as u64 - own);
            let via = VIAS[(si + b) % 3];
            let ctor = if rng.gen_bool(0.2) { "new+self-addr" } else { "new" };
            let mut ops = vec![];
            if rng.gen_bool(0.3) {
                // membership changes under the router: someone joins, maybe someone else leaves
                ops.push((true, outsiders(rng, &cfg.members, 1)[0]));
                let leavers: Vec<u64> = cfg.members.iter().copied().filter(|m| *m != s).collect();
                if !leavers.is_empty() && rng.gen_bool(0.6) {
                    ops.push((false, leavers[rng.gen_range(0..leavers.len())]));
                }
                if rng.gen_bool(0.5) {
                    ops.reverse();
                }
                rep.count("route:ring_changed_under_router");
            }
            let member = cfg.members.contains(&s);
            rep.distinct(&("route", cfg.members.len(), cfg.rf.min(99), cfg.vn, via, ctor, member, !ops.is_empty()));
            check_route(rep, &RouteCase { cfg: cfg.clone(), sender: s, ctor: ctor.into(), via: via.into(), ops, batch });
            rep.count("route:senders_x_batches");
        }
    }
}

/// Dense clusters 1..=n through ReplicationConfig::new_partitioned_cluster + GossipRouter::from_config, every sender.
fn from_config_grid(rep: &mut Report, args: &Args, keys: &[String]) {
    let nmax = args.get_u64("fc-nmax", if args.thorough() { 12 } else { 8 });
    let mut idx = 0usize;
    for n in 1..=nmax {
        let members: Vec<u64> = (1..=n).collect();
        for rf in [1usize, 2, 3, n as usize, n as usize + 2] {
            for vn in [3u32, 150] {
                for sender in 1..=n {
                    idx += 1;
                    if idx % args.shards != args.shard {
                        continue;
                    }
                    rep.evaluations += 1;
                    let cfg = Cfg::new(members.clone(), rf, vn);
                    for (vi, via) in ["route_deltas", "queue_deltas"].iter().enumerate() {
                        let off = (idx * 37 + vi * 101) % keys.len();
                        let batch: Vec<String> = (0..40).map(|j| keys[(off + j * 13) % keys.len()].clone()).collect();
                        rep.distinct(&("from_config", n, rf.min(99), vn, via));
                        check_route(rep, &RouteCase { cfg: cfg.clone(), sender, ctor: "from_config".into(), via: via.to_string(), ops: vec![], batch });
                    }
                    rep.count("from_config:senders");
                }
            }
        }
    }
}

// ---------------------------------------------------------------- keys, memberships

fn corner_keys() -> Vec<String> {
    let mut k: Vec<String> = [
        "", " ", "a", "b", "A", "key", "key ", " key", "\0", "a\0", "\0a", "\0\0", "\r\n", "\t", "\u{7f}", "\u{80}", "\u{ff}", "\u{ffff}", "\u{10ffff}", "ключ", "鍵", "🔑", "e\u{301}", "é",
        "{user1000}.following", "{user1000}.followers", "foo{bar}", "{}", "0", "-1", "1", "01", "18446744073709551615", "9223372036854775808", "key:0", "key:00", "KEY:0",
        "12345678", "123456789ab", "123456789abc", "\u{1}\0\0\0\0\0\0\0\0\0\0", "\u{1}\0\0\0\0\0\0\0\u{1}\0\0\0",
    ]
    .iter()
    .map(|s| s.to_string())
    .collect();
    for n in [63usize, 64, 65, 255, 256, 1024, 10_000] {
        k.push("x".repeat(n));
        k.push(format!("{}y", "x".repeat(n - 1)));
    }
    for i in 0..60 {
        k.push(format!("user:{}", i));
    }
    k
}

fn gen_keys(rng: &mut Rng, n: usize) -> Vec<String> {
    const ODD: [char; 12] = ['\0', '\u{1}', '\n', '\r', '\u{7f}', '\u{80}', '\u{ff}', 'ß', '鍵', '\u{fffd}', '\u{10ffff}', '🔑'];
    (0..n)
        .map(|i| match i % 4 {
            0 => format!("k{}", rng.gen::<u32>()),
            1 => format!("{}:{}", ["user", "session", "cart", "{tag}"][rng.gen_range(0..4)], rng.gen_range(0..100_000)),
            2 => (0..rng.gen_range(1..24)).map(|_| if rng.gen_bool(0.4) { ODD[rng.gen_range(0..ODD.len())] } else { rng.gen_range(b' '..b'~') as char }).collect(),
            _ => (0..rng.gen_range(1..40)).map(|_| char::from_u32(rng.gen_range(0..0x2000)).unwrap_or('?')).collect(),
        })
        .collect()
}

fn gen_members(rng: &mut Rng, size: usize) -> (Vec<u64>, &'static str) {
    let corners = [0u64, 1, 2, u64::MAX, u64::MAX - 1, 1 << 63, (1 << 63) - 1, 1 << 32, (1 << 32) - 1, 255, 256, 65535, 65536];
    let style = ["dense-from-1", "dense-from-0", "dense-offset", "sparse", "sparse-corners", "stride"][rng.gen_range(0..6)];
    let stride = [64u64, 256, 1 << 16, 1 << 32][rng.gen_range(0..4)];
    let mut m: BTreeSet<u64> = BTreeSet::new();
    let base = rng.gen::<u64>() >> rng.gen_range(1..60);
    let mut i = 0u64;
    while m.len() < size {
        m.insert(match style {
            "dense-from-1" => i + 1,
            "dense-from-0" => i,
            "dense-offset" => base + i,
            // ids that agree in their low bits (what any "id mod word size" shortcut would confuse)
            "stride" => (base % stride).wrapping_add(i.wrapping_mul(stride)),
            "sparse" => rng.gen::<u64>() >> rng.gen_range(0..56),
            _ => {
                if rng.gen_bool(0.6) {
                    corners[rng.gen_range(0..corners.len())]
                } else {
                    rng.gen()
                }
            }
        });
        i += 1;
    }
    (m.into_iter().collect(), style)
}

// ---------------------------------------------------------------- fingerprint

/// Hash of the ordered lists of a fixed query set; `order` 0 = ascending insertion, 1 = descending, 2 = rotated.
fn fingerprint(order: u8) -> (u64, u64) {
    let memberships: Vec<Vec<u64>> = vec![vec![1], vec![1, 2, 3], (1..=5).collect(), (1..=12).collect(), vec![0, 7, 123_456_789, 1 << 32, u64::MAX], (100..108).collect()];
    let mut keys = corner_keys();
    keys.truncate(56);
    keys.extend((0..72).map(|i| format!("fp-key-{}", i)));
    let mut acc: Vec<(u64, usize, u32, Vec<u64>)> = vec![];
    let mut n = 0u64;
    for m in &memberships {
        for rf in [1usize, 3, 6] {
            for vn in [1u32, 3, 150] {
                let mut o = m.clone();
                match order {
                    1 => o.reverse(),
                    2 => o.rotate_left(m.len() / 2),
                    _ => {}
                }
                let ring = HashRing::new(rid(&o), vn, rf);
                for k in &keys {
                    acc.push((h64(k.as_str()), rf, vn, ids(&ring.get_replicas(k))));
                    n += 1;
                }
            }
        }
    }
    (h64(&acc), n)
}

fn check_fingerprint(rep: &mut Report) {
    let wit = || json!({"check": "fingerprint"});
    let (fp, n) = match guard(|| fingerprint(0)) {
        Ok(x) => x,
        Err(p) => {
            viol(rep, format!("C19|placement-fingerprint|panic|{}", panic_class(&p)), || p.clone(), wit);
            return;
        }
    };
    rep.add("fingerprint:queries", n);
    rep.note(format!("placement_fingerprint={:016x} over {} fixed (membership, rf, vnodes, key) queries; must be equal in every process", fp, n));
    for o in [1u8, 2] {
        if guard(|| fingerprint(o)).ok().map(|x| x.0) != Some(fp) {
            viol(rep, "C19|placement-fingerprint|differs|across-insertion-orders".into(), || format!("order {} gives another fingerprint than ascending insertion ({:016x})", o, fp), wit);
        }
        rep.count("fingerprint:in_process_repeats");
    }
    let th = std::thread::spawn(|| guard(|| fingerprint(0)).ok().map(|x| x.0)).join().ok().flatten();
    if th != Some(fp) {
        viol(rep, "C19|placement-fingerprint|differs|across-threads".into(), || format!("{:?} on a fresh thread vs {:016x}", th, fp), wit);
    }
    rep.count("fingerprint:other_thread_repeats");
    // a separate process (fresh hash seeds, fresh address space)
    let child = std::env::current_exe().and_then(|exe| std::process::Command::new(exe).args(["c19-place", "--fp-only", "1"]).output());
    match child {
        Ok(o) if o.status.success() => {
            let got = String::from_utf8_lossy(&o.stdout).trim().to_string();
            rep.count("fingerprint:child_process_repeats");
            if got != format!("{:016x}", fp) {
                viol(rep, "C19|placement-fingerprint|differs|across-processes".into(), || format!("child process computed {} , this process {:016x}", got, fp), wit);
            }
        }
        other => rep.inconclusive(format!("could not run a child process for the cross-process fingerprint: {:?}", other.map(|o| o.status))),
    }
}

// ---------------------------------------------------------------- driver

fn run_cfg(rep: &mut Report, rng: &mut Rng, cfg: &Cfg, keys: &[String], history: &str, sampled_perms: usize, per_build: usize, batches: usize) {
    rep.evaluations += 1;
    rep.count("configs");
    rep.count(&format!("configs:size={:02}", cfg.members.len()));
    rep.count(&format!("configs:{}", rf_class(cfg.rf, cfg.members.len())));
    rep.count(&format!("configs:vn={}", cfg.vn));
    rep.count(&format!("configs:ids={}", history));
    let r = guard(|| {
        let builds = builds_for(rng, &cfg.members, sampled_perms);
        if cfg.members.len() <= 5 {
            rep.count("configs_with_all_permutations");
        }
        rep.add("permutations", builds.iter().filter(|b| b.class == "permutation").count() as u64);
        check_place(rep, cfg, &builds, keys, per_build, 48);
        // leave / join of up to three members, join of one outsider
        let dkeys = &keys[..keys.len().min(600)];
        let mut xs = cfg.members.clone();
        xs.shuffle(rng);
        xs.truncate(3);
        for x in xs {
            check_disrupt(rep, cfg, x, dkeys);
        }
        let x = outsiders(rng, &cfg.members, 1)[0];
        let mut bigger = cfg.members.clone();
        bigger.push(x);
        check_disrupt(rep, &Cfg::new(bigger, cfg.rf, cfg.vn), x, dkeys);
        route_cases(rep, rng, cfg, keys, batches);
        // a handful per run: thread interleavings are sampled, not enumerated
        if rng.gen_ratio(1, 8) && rep.counters.get("route:churn_runs").copied().unwrap_or(0) < 6 && cfg.vn <= 16 {
            rep.count("route:churn_runs");
            route_under_churn(rep, rng, cfg, keys);
        }
    });
    if let Err(p) = r {
        viol(rep, format!("C19|HashRing|panic|{}", panic_class(&p)), || p.clone(), || json!({"check": "config", "cfg": cfg.json()}));
    }
}

/// Routing while another thread changes the membership of the shared ring (the gossip tick and a membership update
/// run on different threads in the server). Node X joins and leaves in a loop; X has no address, so it can never be a
/// target. Every replica that owns the key both with and without X (other than the sender) must be handed the
/// update in every routing call, whatever the other thread is doing with the ring lock at that moment.
fn route_under_churn(rep: &mut Report, rng: &mut Rng, cfg: &Cfg, keys: &[String]) {
    if cfg.members.len() < 2 {
        return;
    }
    let sender = cfg.members[rng.gen_range(0..cfg.members.len())];
    let me = ReplicaId::new(sender);
    let x = outsiders(rng, &cfg.members, 1)[0];
    let ring = Arc::new(RwLock::new(HashRing::new(rid(&cfg.members), cfg.vn, cfg.rf)));
    let peers: HashMap<ReplicaId, String> = cfg.members.iter().filter(|m| **m != sender).map(|&i| (ReplicaId::new(i), addr(i))).collect();
    let router = GossipRouter::new(ring.clone(), me, peers, true);
    let batch: Vec<String> = (0..40).map(|_| keys[rng.gen_range(0..keys.len())].clone()).collect();
    // owners with and without X
    let without: Vec<BTreeSet<u64>> = batch.iter().map(|k| ids(&ring.read().unwrap().get_replicas(k)).into_iter().collect()).collect();
    ring.write().unwrap().add_node(ReplicaId::new(x));
    let with: Vec<BTreeSet<u64>> = batch.iter().map(|k| ids(&ring.read().unwrap().get_replicas(k)).into_iter().collect()).collect();
    ring.write().unwrap().remove_node(ReplicaId::new(x));
    let stop = Arc::new(std::sync::atomic::AtomicBool::new(false));
    let churn = {
        let (ring, stop) = (ring.clone(), stop.clone());
        std::thread::spawn(move || {
            let mut n = 0u64;
            while !stop.load(std::sync::atomic::Ordering::Relaxed) {
                {
                    let mut w = ring.write().unwrap();
                    w.add_node(ReplicaId::new(x));
                    // hold the write lock for a moment, as a membership update that rebuilds the ring does
                    for _ in 0..2000 {
                        std::hint::spin_loop();
                    }
                }
                {
                    let mut w = ring.write().unwrap();
                    w.remove_node(ReplicaId::new(x));
                    for _ in 0..2000 {
                        std::hint::spin_loop();
                    }
                }
                n += 1;
            }
            n
        })
    };
    let mut worst: Option<(usize, u64, Vec<u64>)> = None;
    let rounds = 150;
    for _ in 0..rounds {
        let c_batch_len = batch.len();
        let deltas: Vec<ReplicationDelta> = batch.iter().enumerate().map(|(i, k)| ReplicationDelta::new(k.clone(), ReplicatedValue::with_value(payload_for(c_batch_len, i), LamportClock { time: i as u64, replica_id: me }), source_for(i, me))).collect();
        let table = router.route_deltas(deltas);
        let mut got: Vec<BTreeSet<u64>> = vec![BTreeSet::new(); batch.len()];
        for (t, ds) in table.iter() {
            for d in ds {
                let i = d.value.timestamp.time as usize;
                if i < got.len() {
                    got[i].insert(t.0);
                }
            }
        }
        for i in 0..batch.len() {
            let must: Vec<u64> = without[i].intersection(&with[i]).copied().filter(|t| *t != sender).collect();
            if let Some(&t) = must.iter().find(|t| !got[i].contains(t)) {
                worst.get_or_insert((i, t, got[i].iter().copied().collect()));
            }
            if let Some(&t) = got[i].iter().find(|t| !without[i].contains(t) && !with[i].contains(t)) {
                worst.get_or_insert((i, t, got[i].iter().copied().collect()));
            }
        }
        rep.count("route:calls_under_concurrent_membership_change");
        std::thread::yield_now();
    }
    stop.store(true, std::sync::atomic::Ordering::Relaxed);
    let cycles = churn.join().unwrap_or(0);
    rep.add("route:membership_change_cycles_during_routing", cycles);
    rep.distinct(&("route-under-churn", cfg.members.len(), cfg.rf.min(99), cfg.vn));
    if let Some((i, t, got)) = worst {
        let starved = without[i].contains(&t) && with[i].contains(&t);
        rep.violation(
            format!("C19|GossipRouter::new|route_deltas|{}|under-concurrent-membership-change", if starved { "owner-starved" } else { "sent-to-non-owner" }),
            format!("key {} sender {}: owners without node {} are {:?}, with it {:?}; a routing call made while another thread added/removed node {} handed the update to {:?} (node {})", show(&batch[i]), sender, x, without[i], with[i], x, got, t),
            json!({"check": "route-churn", "cfg": cfg.json(), "note": "thread interleaving: not replayable by seed; the witness is the observation"}),
        );
    }
}

fn replay(rep: &mut Report, w: &Value, args: &Args) {
    let w = &w["witness"];
    let key = w["key"].as_str().unwrap_or("").to_string();
    match w["check"].as_str().unwrap_or("") {
        "place" => check_place(rep, &Cfg::from(&w["cfg"]), &[Build::from(&w["build"])], &[key], 1, 1),
        "disrupt" => check_disrupt(rep, &Cfg::from(&w["cfg"]), w["x"].as_u64().unwrap_or(0), &[key]),
        "route" => check_route(rep, &RouteCase::from(w)),
        "fingerprint" => check_fingerprint(rep),
        "route-churn" => route_under_churn(rep, &mut args.rng(19), &Cfg::from(&w["cfg"]), &corner_keys()),
        "config" => {
            let keys = corner_keys();
            run_cfg(rep, &mut args.rng(19), &Cfg::from(&w["cfg"]), &keys, "replay", 8, 200, 2)
        }
        other => rep.inconclusive(format!("unknown witness kind {:?}", other)),
    }
    rep.evaluations += 1;
}

pub fn place_leg(args: &Args) {
    if args.get_str("fp-only").is_some() {
        println!("{:016x}", fingerprint(0).0);
        return;
    }
    let mut rep = Report::new("C19", "place");
    if let Some(p) = &args.replay {
        let w: Value = serde_json::from_str(&std::fs::read_to_string(p).expect("replay file")).expect("json");
        replay(&mut rep, &w, args);
        rep.finish(args);
        return;
    }
    let mut rng = args.rng(19);
    let mut keys = corner_keys();
    let nkeys = args.get_u64("keys", 2000) as usize;
    let extra = gen_keys(&mut rng, nkeys.saturating_sub(keys.len()));
    keys.extend(extra);
    rep.add("keys", keys.len() as u64);

    // (A) bounded-exhaustive: every subset of a dense and of a sparse 5-id pool x rf x vnodes, with ALL
    //     insertion permutations of each subset; partitioned over shards by index
    let pools: [[u64; 5]; 2] = [[1, 2, 3, 4, 5], [0, 3, 1 << 32, u64::MAX - 1, u64::MAX]];
    let mut idx = 0usize;
    for (pi, pool) in pools.iter().enumerate() {
        for mask in (if pi == 0 { 0u32 } else { 1 })..32 {
            let members: Vec<u64> = (0..5).filter(|b| mask >> b & 1 == 1).map(|b| pool[b]).collect();
            for rf in [1usize, 2, 3, 6] {
                for vn in [1u32, 3, 150] {
                    idx += 1;
                    if idx % args.shards != args.shard {
                        continue;
                    }
                    let cfg = Cfg::new(members.clone(), rf, vn);
                    run_cfg(&mut rep, &mut rng, &cfg, &keys, if pi == 0 { "dense-pool" } else { "sparse-pool" }, 0, 160, 1);
                    rep.count("exhaustive_small_configs");
                }
            }
        }
    }
    // (B) sampled: sizes 1..12 (mostly 6..12), dense / offset / sparse ids, rf 0..6 and beyond the size, assorted vnodes
    let n = args.get_u64("cases", if args.thorough() { 5000 } else { 1200 });
    for case in 0..n {
        let size = if rng.gen_bool(0.8) { rng.gen_range(6..=12) } else { rng.gen_range(1..=5) };
        let (members, style) = gen_members(&mut rng, size);
        let rf = match rng.gen_range(0..12) {
            0 => size,
            1 => size + rng.gen_range(1..4),
            2 => size.saturating_sub(1),
            3 => [0usize, 13, usize::MAX][rng.gen_range(0..3)],
            _ => rng.gen_range(1..=6),
        };
        let vn = [1u32, 3, 150, 150, 3, 1, 2, 7, 64][rng.gen_range(0..9)];
        let cfg = Cfg::new(members, rf, vn);
        run_cfg(&mut rep, &mut rng, &cfg, &keys, style, 8, 400, 3);
        if case < 3 {
            let ring = cfg.ring();
            rep.sample(json!({"members": cfg.members, "rf": cfg.rf, "vnodes": cfg.vn, "ids": style,
                "placement": keys.iter().skip(40).take(3).map(|k| json!({"key": k, "replicas": ids(&ring.get_replicas(k))})).collect::<Vec<_>>(),
                "histories_compared": builds_for(&mut rng_from(0, 0), &cfg.members, 8).iter().map(|b| b.class.clone()).collect::<BTreeSet<_>>()}));
        }
    }
    // (B') large rings (tens of thousands of positions): many nodes at the default 150 virtual nodes, few nodes at
    //      thousands of virtual nodes. Placement must stay a function of the membership set whatever the ring size.
    if args.shard == 0 {
        let big: Vec<(Vec<u64>, usize, u32)> = vec![((1..=120).collect(), 3, 150), ((1..=6).collect(), 3, 4096), ((1..=40).rev().collect(), 2, 600)];
        for (members, rf, vn) in big.into_iter().take(if args.thorough() { 3 } else { 2 }) {
            let cfg = Cfg::new(members, rf, vn);
            run_cfg(&mut rep, &mut rng, &cfg, &keys[..keys.len().min(300)], "large-ring", 3, 120, 1);
            rep.count("large_ring_configs");
            rep.max("ring_positions", cfg.members.len() as u64 * cfg.vn as u64);
        }
    }
    // (C) from_config grid, (D) fingerprint
    from_config_grid(&mut rep, args, &keys);
    rep.evaluations += 1;
    check_fingerprint(&mut rep);
    // vnodes = 0 is observed but not judged (a ring without positions cannot place anything)
    let degenerate = HashRing::new(rid(&[1, 2, 3]), 0, 2).get_replicas("k").len();
    rep.note(format!("not judged: virtual_nodes_per_physical = 0 with 3 members returns {} replicas (degenerate configuration)", degenerate));

    // a routed sample, written out
    let cfg = Cfg::new(vec![1, 2, 3, 4, 5], 3, 150);
    let ring = cfg.ring();
    let k = &keys[45];
    rep.sample(json!({"route_example": {"members": cfg.members, "rf": 3, "key": k, "owners": ids(&ring.get_replicas(k)),
        "targets_by_sender": cfg.members.iter().map(|&s| json!({"sender": s, "targets": ids(&ring.get_gossip_targets(k, ReplicaId::new(s)))})).collect::<Vec<_>>() }}));

    // did the run observe what it claims to judge?
    let c = |k: &str| rep.counters.get(k).copied().unwrap_or(0);
    let mut need: BTreeMap<&str, u64> = BTreeMap::new();
    for k in [
        "configs_with_all_permutations", "configs:rf>size", "configs:rf<size", "configs:vn=1", "configs:vn=150", "builds:leave-and-rejoin", "builds:detour-through-larger", "builds:churn",
        "builds:duplicates-in-input", "disrupt:keys_gaining_node", "disrupt:keys_untouched_by_join", "route:batch=1", "route:batch>1", "route:batches_with_repeated_key",
        "route:deltas_sender_is_owner", "route:deltas_sender_not_owner", "route:ring_changed_under_router", "route:via:new:queue_deltas", "route:via:from_config:route_deltas", "fingerprint:queries",
    ] {
        need.insert(k, c(k));
    }
    let missing: Vec<&str> = need.iter().filter(|(_, v)| **v == 0).map(|(k, _)| *k).collect();
    if !missing.is_empty() {
        rep.inconclusive(format!("never observed: {}", missing.join(", ")));
    }
    rep.exhaustive = true;
    rep.note("exhaustive for all subsets of the two 5-id pools x rf {1,2,3,6} x vnodes {1,3,150} with every insertion permutation (over the shards together); larger memberships, histories, keys and batches are sampled");
    rep.add("route:queue_deltas_after_outbound_queue_overflow", OVERFLOW_CASES.load(std::sync::atomic::Ordering::Relaxed));
    rep.finish(args);
}


// ------------------------------------------------------------------------------------------------
// The production sender: GossipManager::start_gossip_loop over loopback TCP. The loop turns the router's targets
// (replica ids) into addresses through its own index -> replica-id map of `config.peers`; a delta reaches an owner
// only if that map agrees with the cluster layout (peers = all other replicas in ascending id order, as
// ReplicationConfig::new_partitioned_cluster documents and GossipRouter::from_config assumes).

async fn tcp_case(n: u64, rf: usize, sender: u64, keys: &[String]) -> Result<Vec<(String, u64, &'static str)>, String> {
    use redis_sim::production::GossipManager;
    use tokio::io::AsyncReadExt;
    use tokio::net::TcpListener;
    let others: Vec<u64> = (1..=n).filter(|i| *i != sender).collect();
    let mut listeners = vec![];
    let mut addrs = vec![];
    for _ in &others {
        let l = TcpListener::bind("127.0.0.1:0").await.map_err(|e| format!("bind: {}", e))?;
        addrs.push(l.local_addr().map_err(|e| e.to_string())?.to_string());
        listeners.push(l);
    }
    let mut rcfg = ReplicationConfig::new_partitioned_cluster(sender, addrs.clone(), rf);
    rcfg.gossip_interval_ms = 15;
    let members: Vec<u64> = (1..=n).collect();
    let ring = Arc::new(RwLock::new(HashRing::new(rid(&members), rcfg.virtual_nodes_per_physical, rcfg.replication_factor)));
    let router = GossipRouter::from_config(&rcfg, ring.clone());
    let state = Arc::new(parking_lot::RwLock::new(GossipState::with_router(rcfg.clone(), router)));
    let me = ReplicaId::new(sender);
    let deltas: Vec<ReplicationDelta> = keys.iter().enumerate().map(|(i, k)| ReplicationDelta::new(k.clone(), ReplicatedValue::with_value(SDS::from_str("v"), LamportClock { time: i as u64 + 1, replica_id: me }), me)).collect();
    let once = Arc::new(std::sync::Mutex::new(Some(deltas)));
    let feeder = once.clone();
    let sender_task = tokio::spawn(GossipManager::start_gossip_loop(rcfg.clone(), state, move || feeder.lock().unwrap().take().unwrap_or_default()));
    // what arrived where: (peer id, key)
    let got: Arc<std::sync::Mutex<BTreeSet<(u64, String)>>> = Arc::new(std::sync::Mutex::new(BTreeSet::new()));
    let progress = Arc::new(std::sync::atomic::AtomicU64::new(0));
    let mut readers = vec![];
    for (l, pid) in listeners.into_iter().zip(others.iter().copied()) {
        let (got, progress) = (got.clone(), progress.clone());
        readers.push(tokio::spawn(async move {
            while let Ok((mut sock, _)) = l.accept().await {
                let (got, progress) = (got.clone(), progress.clone());
                tokio::spawn(async move {
                    loop {
                        let mut len = [0u8; 4];
                        if sock.read_exact(&mut len).await.is_err() {
                            return;
                        }
                        let mut buf = vec![0u8; u32::from_be_bytes(len) as usize];
                        if sock.read_exact(&mut buf).await.is_err() {
                            return;
                        }
                        if let Ok(m) = GossipMessage::deserialize(&buf) {
                            let ds = match m {
                                GossipMessage::TargetedDelta { deltas, .. } | GossipMessage::DeltaBatch { deltas, .. } => deltas,
                                _ => vec![],
                            };
                            let mut g = got.lock().unwrap();
                            for d in ds {
                                g.insert((pid, d.key));
                            }
                            progress.fetch_add(1, std::sync::atomic::Ordering::Relaxed);
                        }
                    }
                });
            }
        }));
    }
    let r = ring.read().unwrap();
    let expect: BTreeSet<(u64, String)> = keys.iter().flat_map(|k| ids(&r.get_replicas(k)).into_iter().filter(|o| *o != sender).map(move |o| (o, k.clone()))).collect();
    drop(r);
    // wait until everything expected is there, or nothing new has arrived for 3 s (the loop ticks every 15 ms)
    let mut last = (0u64, std::time::Instant::now());
    loop {
        tokio::time::sleep(std::time::Duration::from_millis(20)).await;
        let have = got.lock().unwrap().clone();
        if expect.is_subset(&have) {
            // one more tick for stragglers to non-owners
            tokio::time::sleep(std::time::Duration::from_millis(60)).await;
            break;
        }
        let p = progress.load(std::sync::atomic::Ordering::Relaxed);
        if p != last.0 {
            last = (p, std::time::Instant::now());
        } else if last.1.elapsed().as_secs() >= 3 {
            break;
        }
    }
    sender_task.abort();
    readers.iter().for_each(|h| h.abort());
    let have = got.lock().unwrap().clone();
    let mut out = vec![];
    for (o, k) in expect.difference(&have) {
        out.push((k.clone(), *o, "owner-starved"));
    }
    for (o, k) in have.difference(&expect) {
        out.push((k.clone(), *o, "sent-to-non-owner"));
    }
    Ok(out)
}

pub fn tcp_leg(args: &Args) {
    let mut rep = Report::new("C19", "tcp");
    let rt = tokio::runtime::Builder::new_multi_thread().worker_threads(2).enable_all().build().unwrap();
    let mut rng = args.rng(193);
    let keys: Vec<String> = (0..40).map(|i| format!("user:{}:profile", i)).chain(corner_keys().into_iter().filter(|k| !k.is_empty()).take(10)).collect();
    let mut idx = 0usize;
    let mut unavailable = None;
    for n in [2u64, 3, 4, 5] {
        for rf in 1..=(n as usize) {
            for sender in 1..=n {
                idx += 1;
                if idx % args.shards != args.shard || (!args.thorough() && rng.gen_ratio(1, 2)) {
                    continue;
                }
                rep.evaluations += 1;
                rep.distinct(&("tcp", n, rf, sender));
                let mut res = rt.block_on(tcp_case(n, rf, sender, &keys));
                if matches!(&res, Ok(v) if !v.is_empty()) {
                    // a slow machine must not look like a starved owner: a discrepancy has to show twice
                    let again = rt.block_on(tcp_case(n, rf, sender, &keys));
                    if matches!(&again, Ok(v) if v.is_empty()) {
                        rep.count("tcp:discrepancy_not_reproduced");
                        res = again;
                    }
                }
                match res {
                    Err(e) => {
                        unavailable = Some(e);
                        break;
                    }
                    Ok(v) => {
                        rep.count("tcp:senders");
                        rep.add("tcp:deltas_routed", keys.len() as u64);
                        if let Some((k, o, kind)) = v.first() {
                            let first_or_last = if sender == 1 { "sender=first" } else if sender == n { "sender=last" } else { "sender=middle" };
                            rep.violation(
                                format!("C19|GossipManager::start_gossip_loop|{}|{}", kind, first_or_last),
                                format!("{} nodes rf {} sender {}: key {} and node {} ({} discrepancies in this batch of {}): the loop's peer-index -> replica-id map does not address every owner", n, rf, sender, show(k), o, v.len(), keys.len()),
                                json!({"check": "tcp", "n": n, "rf": rf, "sender": sender}),
                            );
                        }
                    }
                }
            }
        }
    }
    if let Some(e) = unavailable {
        // no loopback networking in this sandbox: the leg says so and does not judge
        rep.note(format!("loopback TCP unavailable ({}); the production gossip loop was not exercised", e));
        rep.count("tcp:unavailable");
    }
    rep.note("case = one (cluster size, rf, sender): GossipManager::start_gossip_loop with a selective GossipState sends 50 deltas over loopback TCP to one listener per peer; every owner other than the sender must receive the delta, nobody else");
    rep.finish(args);
}
