//! C17 — a command that replies with an error changes nothing; a read-only command changes nothing.
use crate::c01::{kind, parse_argv, snapshot_with, ExecTarget, Snapshot, Step, EPOCH_MS};
use crate::common::*;
use crate::gen::{self, Argv, Family};
use crate::myresp::{self, Tree};
use rand::Rng as _;
use serde_json::{json, Value};

fn b(s: &str) -> Vec<u8> {
    s.as_bytes().to_vec()
}

/// Commands outside the C01 model: stubs, bitmaps, SORT, OBJECT/DEBUG/CONFIG, scans, scripts,
/// executor-level transactions, two-key commands with either operand at fault.
fn gen_extra(rng: &mut Rng, lua: bool) -> Argv {
    let k = gen::key(rng);
    let k2 = gen::key(rng);
    let v = gen::pick(rng, &["a", "10", "", "x y", "-1", "9223372036854775807"]);
    match rng.gen_range(0..38) {
        // every command classified read-only, with arguments that mean something (WAIT with replicas and a timeout ..)
        34 => vec![b("WAIT"), gen::pick(rng, &["0", "1", "2", "x"]), gen::pick(rng, &["0", "1", "100", "5000", "100000000", "-1"])],
        35 => vec![b(["TIME", "DBSIZE", "RANDOMKEY", "INFO", "PING"][rng.gen_range(0..5)])],
        36 => vec![b("COMMAND"), gen::pick(rng, &["COUNT", "DOCS", "INFO", "BOGUS"])],
        37 => vec![b("CLIENT"), gen::pick(rng, &["ID", "GETNAME", "INFO", "LIST", "BOGUS"])],
        0 => vec![b("SETBIT"), k, gen::pick(rng, &["0", "7", "100", "-1", "4294967296", "abc"]), gen::pick(rng, &["0", "1", "2", "x"])],
        1 => vec![b("GETBIT"), k, gen::pick(rng, &["0", "7", "-1", "abc"])],
        2 => vec![b("SORT"), k],
        3 => vec![b("SORT"), k, b("STORE"), k2],
        4 => vec![b("OBJECT"), gen::pick(rng, &["ENCODING", "REFCOUNT", "IDLETIME", "FREQ", "HELP", "BOGUS"]), k],
        5 => vec![b("DEBUG"), gen::pick(rng, &["OBJECT", "SET-ACTIVE-EXPIRE", "JMAP", "BOGUS"]), k],
        6 => vec![b("CONFIG"), b("GET"), gen::pick(rng, &["maxmemory", "*", "bogus"])],
        7 => vec![b("CONFIG"), b("SET"), gen::pick(rng, &["maxmemory", "bogus", "hz"]), v],
        8 => vec![b("SCAN"), gen::pick(rng, &["0", "1", "abc", "-1"]), b("COUNT"), gen::pick(rng, &["1", "10", "0", "x"])],
        9 => vec![b("SCAN"), b("0"), b("MATCH"), gen::pick(rng, &["*", "k[", "k1"])],
        10 => vec![b("HSCAN"), k, gen::pick(rng, &["0", "x"])],
        11 => vec![b("ZSCAN"), k, gen::pick(rng, &["0", "x"])],
        12 => vec![b("RENAME"), k, k2],
        13 => vec![b("RENAMENX"), k, k2],
        14 => vec![b("RPOPLPUSH"), k, k2],
        15 => vec![b("LMOVE"), k, k2, gen::pick(rng, &["LEFT", "RIGHT", "MIDDLE"]), gen::pick(rng, &["LEFT", "RIGHT", "x"])],
        16 => vec![b("MSETNX"), k, v.clone(), k2, v],
        17 => vec![b("MSET"), k, v.clone(), k2],
        18 => vec![b("SADD"), k, b("m1"), b("m2")],
        19 => vec![b("HSET"), k, b("f1"), b("1"), b("f2")],
        20 => vec![b("ZADD"), k, b("1"), b("a"), b("notafloat"), b("b")],
        21 => vec![b("ZADD"), k, b("1"), b("a"), b("2")],
        22 => vec![b("LPUSH"), k, b("x")],
        23 => vec![b("DEL"), k, k2],
        24 => vec![b("INCRBYFLOAT"), k, gen::pick(rng, &["1e308", "1e400", "nan", "abc", "-1e308"])],
        25 => vec![b("HINCRBY"), k, b("f1"), gen::pick(rng, &["9223372036854775807", "-9223372036854775808", "x"])],
        26 => vec![b("APPEND"), k, v],
        27 => vec![b("SELECT"), gen::pick(rng, &["0", "1", "16", "x"])],
        28 => vec![b("WAIT"), b("0"), b("0")],
        29 => vec![b("ECHO"), v],
        30 if lua => vec![b("EVAL"), b("redis.call('SET', KEYS[1], 'from-script'); return redis.call('LPUSH', KEYS[1], 'x')"), b("1"), k],
        31 if lua => vec![b("EVAL"), b("redis.call('INCR', KEYS[1]); error('boom')"), b("1"), k],
        32 if lua => vec![b("EVAL"), b("return redis.call('GET', KEYS[1])"), b("1"), k],
        33 if lua => vec![b("EVAL"), b("return redis.pcall('LPUSH', KEYS[1], 'x')"), b("1"), k],
        _ => vec![b("FUNCTION"), b("FLUSH")],
    }
}

fn diff(a: &Snapshot, bb: &Snapshot) -> Option<String> {
    for (k, v) in a {
        match bb.get(k) {
            None => return Some(format!("key-removed:{}", v.0)),
            Some(w) => {
                if w.0 != v.0 {
                    return Some(format!("type:{}->{}", v.0, w.0));
                }
                if w.1 != v.1 {
                    return Some(format!("value:{}", v.0));
                }
                if w.2 != v.2 {
                    return Some("ttl".to_string());
                }
            }
        }
    }
    for (k, v) in bb {
        if !a.contains_key(k) {
            return Some(format!("key-created:{}", v.0));
        }
    }
    None
}

fn step_json(s: &Step) -> Value {
    match s {
        Step::Cmd(a) => json!(a.iter().map(|x| lossy(x)).collect::<Vec<_>>()),
        Step::Advance(ms, mode) => json!({"advance_ms": ms, "mode": mode}),
    }
}
fn step_from(v: &Value) -> Step {
    if let Some(a) = v.as_array() {
        Step::Cmd(a.iter().map(|x| unlossy(x.as_str().unwrap_or(""))).collect())
    } else {
        Step::Advance(v["advance_ms"].as_i64().unwrap_or(0), v["mode"].as_u64().unwrap_or(0) as u8)
    }
}

struct Found {
    sig: String,
    detail: String,
    at: usize,
}

/// The node under test: the bare executor, or a sharded node (every command through ShardedActorState::execute, the clock the
/// node's own time source) - multi-key commands then meet keys that live on different shards.
enum Target {
    Exec(ExecTarget),
    Sharded { rt: tokio::runtime::Runtime, st: crate::c03::State, clock: crate::c03::ManualTime },
    /// The node `server-persistent` runs: ReplicatedShardedState (16 shards) with an always-fsync WAL attached whose disk
    /// fails while some of the commands run (append / fsync errors). Whatever the node answers then, an error reply must
    /// still mean "nothing changed".
    Replicated { rt: tokio::runtime::Runtime, st: redis_sim::production::ReplicatedShardedState<crate::c03::ManualTime>, clock: crate::c03::ManualTime, disk_fails: std::sync::Arc<std::sync::atomic::AtomicBool> },
}

/// shards == REPLICATED selects the replicated node with the flaky WAL disk
const REPLICATED: usize = 1000;

mod flaky {
    use redis_sim::streaming::wal_store::{InMemoryWalStore, WalError, WalFileReader, WalFileWriter, WalStore};
    use std::sync::atomic::{AtomicBool, Ordering};
    use std::sync::Arc;

    /// InMemoryWalStore whose writers report I/O errors while the switch is on
    #[derive(Clone)]
    pub struct FlakyWalStore(pub InMemoryWalStore, pub Arc<AtomicBool>);
    pub struct FlakyWriter<W: WalFileWriter>(W, Arc<AtomicBool>);
    impl<W: WalFileWriter> WalFileWriter for FlakyWriter<W> {
        fn append(&mut self, data: &[u8]) -> Result<u64, WalError> {
            if self.1.load(Ordering::SeqCst) {
                return Err(WalError::Io(std::io::Error::new(std::io::ErrorKind::Other, "disk fails (planned)")));
            }
            self.0.append(data)
        }
        fn sync(&mut self) -> Result<(), WalError> {
            if self.1.load(Ordering::SeqCst) {
                return Err(WalError::FsyncFailed("disk fails (planned)".into()));
            }
            self.0.sync()
        }
        fn size(&self) -> u64 {
            self.0.size()
        }
    }
    impl WalStore for FlakyWalStore {
        type Writer = FlakyWriter<<InMemoryWalStore as WalStore>::Writer>;
        type Reader = <InMemoryWalStore as WalStore>::Reader;
        fn create(&self, name: &str) -> Result<Self::Writer, WalError> {
            if self.1.load(Ordering::SeqCst) {
                return Err(WalError::Io(std::io::Error::new(std::io::ErrorKind::Other, "disk fails (planned)")));
            }
            Ok(FlakyWriter(self.0.create(name)?, self.1.clone()))
        }
        fn open_read(&self, name: &str) -> Result<Self::Reader, WalError> {
            self.0.open_read(name)
        }
        fn list(&self) -> Result<Vec<String>, WalError> {
            self.0.list()
        }
        fn delete(&self, name: &str) -> Result<(), WalError> {
            self.0.delete(name)
        }
        fn exists(&self, name: &str) -> Result<bool, WalError> {
            self.0.exists(name)
        }
    }
    #[allow(dead_code)]
    fn _reader_is_a_reader<R: WalFileReader>(_: R) {}
}

impl Target {
    fn new(shards: usize) -> Target {
        if shards == 0 {
            return Target::Exec(ExecTarget::new());
        }
        let rt = tokio::runtime::Builder::new_current_thread().enable_all().build().expect("rt");
        if shards == REPLICATED {
            use redis_sim::streaming::{spawn_wal_actor, FsyncPolicy, WalConfig};
            let clock = crate::c03::ManualTime(std::sync::Arc::new(std::sync::atomic::AtomicU64::new(EPOCH_MS as u64)));
            let disk_fails = std::sync::Arc::new(std::sync::atomic::AtomicBool::new(false));
            let st = rt.block_on(async {
                let mut st = redis_sim::production::ReplicatedShardedState::with_time_source(redis_sim::replication::ReplicationConfig::new_cluster(1, vec![]), clock.clone());
                let store = flaky::FlakyWalStore(redis_sim::streaming::wal_store::InMemoryWalStore::new(), disk_fails.clone());
                let cfg = WalConfig { enabled: true, wal_dir: "/nonexistent/c17".into(), fsync_policy: FsyncPolicy::Always, max_file_size: 4096, group_commit_max_entries: 4, group_commit_max_wait: std::time::Duration::from_micros(50), truncation_check_interval: std::time::Duration::from_secs(3600) };
                let (h, _task) = spawn_wal_actor(store, cfg).expect("wal actor");
                st.set_wal_handle(h);
                st
            });
            return Target::Replicated { rt, st, clock, disk_fails };
        }
        let (st, clock) = rt.block_on(async { crate::c03::new_state(shards) });
        Target::Sharded { rt, st, clock }
    }
    fn advance(&mut self, ms: i64, mode: u8) {
        match self {
            Target::Exec(t) => t.advance(ms, mode),
            Target::Sharded { rt, st, clock } => {
                clock.0.fetch_add(ms.max(0) as u64, std::sync::atomic::Ordering::SeqCst);
                if mode == 2 {
                    rt.block_on(st.evict_expired_all_shards());
                }
            }
            Target::Replicated { rt, st, clock, .. } => {
                clock.0.fetch_add(ms.max(0) as u64, std::sync::atomic::Ordering::SeqCst);
                if mode == 2 {
                    rt.block_on(st.evict_expired_all_shards());
                }
            }
        }
    }
    /// the WAL disk of the replicated node fails while command `i` runs (a third of the commands)
    fn plan_fault(&mut self, i: usize) {
        if let Target::Replicated { disk_fails, .. } = self {
            disk_fails.store((i as u64).wrapping_mul(2654435761) % 3 == 0, std::sync::atomic::Ordering::SeqCst);
        }
    }
    fn clear_fault(&mut self) {
        if let Target::Replicated { disk_fails, .. } = self {
            disk_fails.store(false, std::sync::atomic::Ordering::SeqCst);
        }
    }
    fn run(&mut self, a: &Argv) -> Result<Tree, String> {
        match self {
            Target::Exec(t) => t.run(a),
            Target::Sharded { rt, st, .. } => guard(|| match parse_argv(a) {
                Err(e) => {
                    let known = ["ERR ", "WRONGTYPE ", "WRONGPASS ", "EXECABORT ", "NOAUTH ", "NOPERM "];
                    let text = if known.iter().any(|p| e.starts_with(p)) { e } else { format!("ERR {}", e) };
                    Tree::Error(text.into_bytes())
                }
                Ok(cmd) => myresp::from_resp(&rt.block_on(st.execute(&cmd))),
            }),
            Target::Replicated { rt, st, .. } => guard(|| match parse_argv(a) {
                Err(e) => {
                    let known = ["ERR ", "WRONGTYPE ", "WRONGPASS ", "EXECABORT ", "NOAUTH ", "NOPERM "];
                    let text = if known.iter().any(|p| e.starts_with(p)) { e } else { format!("ERR {}", e) };
                    Tree::Error(text.into_bytes())
                }
                Ok(cmd) => myresp::from_resp(&rt.block_on(st.execute(cmd))),
            }),
        }
    }
}

/// Runs the sequence; checks every failing / read-only command. First violation or None.
fn run(steps: &[Step], seen: impl FnMut(&str, &str, bool)) -> Option<Found> {
    run_on(steps, 0, seen)
}

fn run_on(steps: &[Step], shards: usize, mut seen: impl FnMut(&str, &str, bool)) -> Option<Found> {
    let mut t = Target::new(shards);
    for (i, s) in steps.iter().enumerate() {
        match s {
            Step::Advance(ms, mode) => t.advance(*ms, *mode),
            Step::Cmd(a) => {
                let name = gen::shape(a).split('+').next().unwrap_or("").to_string();
                let read_only = parse_argv(a).map(|c| c.is_read_only()).unwrap_or(false);
                let before = match snapshot_with(|q| t.run(q)) {
                    Ok(s) => s,
                    Err(_) => return None,
                };
                t.plan_fault(i);
                let got = t.run(a);
                t.clear_fault();
                let got = match got {
                    Ok(g) => g,
                    Err(p) => {
                        return Some(Found { sig: format!("C17|{}|panic|{}", name, panic_class(&p)), detail: format!("panic: {}", p), at: i });
                    }
                };
                let is_err = matches!(got, Tree::Error(_));
                seen(&name, &kind(&got), read_only);
                if !is_err && !read_only {
                    continue;
                }
                let after = match snapshot_with(|q| t.run(q)) {
                    Ok(s) => s,
                    Err(p) => return Some(Found { sig: format!("C17|{}|snapshot-panic", name), detail: p, at: i }),
                };
                if let Some(facet) = diff(&before, &after) {
                    let why = if is_err { kind(&got) } else { "read-only".to_string() };
                    // scripts: the class is the script itself (what it wrote before failing), not
                    // the type the key happened to have
                    let (name, facet) = if name == "EVAL" {
                        (format!("EVAL:{}", String::from_utf8_lossy(&a[1]).chars().take(40).collect::<String>()), "keyspace-changed".to_string())
                    } else {
                        (name, facet)
                    };
                    return Some(Found {
                        sig: if shards == 0 || name.starts_with("EVAL:") { format!("C17|{}|{}|{}", name, why, facet) } else if shards == REPLICATED { format!("C17|{}|{}|{}|replicated-node,wal-disk-fails", name, why, facet) } else { format!("C17|{}|{}|{}|sharded-node", name, why, facet) },
                        detail: format!("step {} {:?} replied {:?} but the visible keyspace changed: {:?} -> {:?}", i, a.iter().map(|x| lossy(x)).collect::<Vec<_>>(), got, before, after),
                        at: i,
                    });
                }
            }
        }
    }
    None
}

fn shrink(steps: &[Step], sig: &str) -> Vec<Step> {
    let mut cur = steps.to_vec();
    if let Some(f) = run(&cur, |_, _, _| {}) {
        cur.truncate(f.at + 1);
    }
    let mut i = 0;
    while i + 1 < cur.len() {
        let mut cand = cur.clone();
        cand.remove(i);
        if run(&cand, |_, _, _| {}).map(|f| f.sig == sig).unwrap_or(false) {
            cur = cand;
        } else {
            i += 1;
        }
    }
    cur
}

pub fn leg(args: &Args) {
    let mut rep = Report::new("C17", "failing-or-readonly");
    if let Some(p) = &args.replay {
        let w: Value = serde_json::from_str(&std::fs::read_to_string(p).expect("replay")).expect("json");
        let steps: Vec<Step> = w["witness"]["steps"].as_array().unwrap().iter().map(step_from).collect();
        let shards = w["witness"]["shards"].as_u64().unwrap_or(0) as usize;
        rep.evaluations += 1;
        if let Some(f) = run_on(&steps, shards, |_, _, _| {}) {
            rep.violation(f.sig, f.detail, w["witness"].clone());
        }
        rep.finish(args);
        return;
    }
    let lua = cfg!(feature = "lua");
    let mut rng = args.rng(17);
    let nseq = args.get_u64("sequences", if args.thorough() { 12_000 } else { 900 });
    let (mut checked_err, mut checked_ro) = (0u64, 0u64);
    let mut checked_repl_err = 0u64;
    for s in 0..nseq {
        let len = rng.gen_range(2..40);
        let mut steps = vec![];
        let mut now = EPOCH_MS;
        for _ in 0..len {
            if rng.gen_bool(0.15) {
                let ms = gen::gen_advance(&mut rng);
                if ms > 0 {
                    now += ms;
                    steps.push(Step::Advance(ms, rng.gen_range(0..3)));
                }
            }
            let a = if rng.gen_bool(0.35) { gen_extra(&mut rng, lua) } else { gen::gen_cmd(&mut rng, &gen::ALL_FAMILIES, now) };
            steps.push(Step::Cmd(a));
        }
        let _ = Family::Str;
        rep.evaluations += 1;
        let mut classes = vec![];
        let f = run(&steps, |name, k, ro| {
            if k.starts_with("err") {
                checked_err += 1;
                classes.push(format!("{}|{}", name, k));
            } else if ro {
                checked_ro += 1;
                classes.push(format!("{}|ro", name));
            }
        });
        for c in classes {
            rep.distinct(&c);
        }
        if let Some(f) = f {
            if !rep.has_sig(&f.sig) {
                let small = shrink(&steps, &f.sig);
                let f2 = run(&small, |_, _, _| {}).unwrap_or(f);
                rep.violation(f2.sig, f2.detail, json!({"steps": small.iter().map(step_json).collect::<Vec<_>>()}));
            } else {
                rep.count("violations_raw");
            }
        }
        // the same sequence on a sharded node (a third of the sequences; 4 shards, sometimes 2), plus a directed preamble
        // for the two-key commands: a one-element list with a deadline as the source, every type as the destination
        if s % 3 == 0 {
            let shards = if s % 2 == 0 { 4 } else { 2 };
            let mut st2 = vec![];
            if s % 6 == 0 {
                let (src, dst) = (["k1", "k2", "k3", "k4"][rng.gen_range(0..4)], ["k1", "k2", "k3", "k4"][rng.gen_range(0..4)]);
                st2.push(Step::Cmd(vec![b("DEL"), b(src), b(dst)]));
                st2.push(Step::Cmd(vec![b("RPUSH"), b(src), b("only")]));
                st2.push(Step::Cmd(vec![b("PEXPIRE"), b(src), b("500000")]));
                st2.push(Step::Cmd(match rng.gen_range(0..4) {
                    0 => vec![b("SET"), b(dst), b("str")],
                    1 => vec![b("HSET"), b(dst), b("f"), b("v")],
                    2 => vec![b("SADD"), b(dst), b("m")],
                    _ => vec![b("ZADD"), b(dst), b("1"), b("m")],
                }));
                st2.push(Step::Cmd(if rng.gen_bool(0.5) { vec![b("RPOPLPUSH"), b(src), b(dst)] } else { vec![b("LMOVE"), b(src), b(dst), b(["LEFT", "RIGHT"][rng.gen_range(0..2)]), b(["LEFT", "RIGHT"][rng.gen_range(0..2)])] }));
                st2.push(Step::Cmd(vec![b("RENAME"), b("no-such-key"), b(src)]));
            }
            st2.extend(steps.iter().cloned());
            rep.count("sequences_on_a_sharded_node");
            if let Some(f) = run_on(&st2, shards, |_, _, _| {}) {
                if !rep.has_sig(&f.sig) {
                    // shrink on the same number of shards
                    let mut cur = st2.clone();
                    cur.truncate(f.at + 1);
                    let mut i = 0;
                    while i + 1 < cur.len() {
                        let mut cand = cur.clone();
                        cand.remove(i);
                        if run_on(&cand, shards, |_, _, _| {}).map(|g| g.sig == f.sig).unwrap_or(false) {
                            cur = cand;
                        } else {
                            i += 1;
                        }
                    }
                    let f2 = run_on(&cur, shards, |_, _, _| {}).unwrap_or(f);
                    rep.violation(f2.sig, f2.detail, json!({"shards": shards, "steps": cur.iter().map(step_json).collect::<Vec<_>>()}));
                }
            }
        }
        // the same sequence on the replicated node with an always-fsync WAL whose disk fails during a third of the commands
        if s % 4 == 1 {
            rep.count("sequences_on_a_replicated_node_with_a_failing_wal_disk");
            if let Some(f) = run_on(&steps, REPLICATED, |_, k, _| {
                if k.starts_with("err") {
                    checked_repl_err += 1;
                }
            }) {
                if !rep.has_sig(&f.sig) {
                    let mut cur = steps.clone();
                    cur.truncate(f.at + 1);
                    rep.violation(f.sig, f.detail, json!({"shards": REPLICATED, "steps": cur.iter().map(step_json).collect::<Vec<_>>()}));
                }
            }
        }
        if s < 2 {
            rep.sample(json!({"steps": steps.iter().take(10).map(step_json).collect::<Vec<_>>()}));
        }
    }
    rep.add("failing_commands_checked", checked_err);
    rep.add("read_only_commands_checked", checked_ro);
    rep.add("failing_commands_checked_on_the_replicated_node", checked_repl_err);
    if checked_err < 50 || checked_ro < 50 {
        rep.inconclusive("too few failing / read-only commands were generated");
    }
    if !lua {
        rep.note("built without Lua: EVAL cases not generated in this leg");
    }
    let _ = myresp::is_error;
    rep.finish(args);
}
