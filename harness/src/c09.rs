//! C09 — Always-fsync WAL: a write reported durable survives a crash at any instant.
//!
//! Leg `c09-wal` (level: fault_enumeration). The real `spawn_wal_actor` (FsyncPolicy::Always) runs on a
//! current-thread tokio runtime with paused time over `PlanWalStore`, an instrumented implementation of the repo's
//! public `WalStore` trait: in-memory files, a global I/O call counter, an append-only event log, a fault plan and
//! crash-image reconstruction at any call index j (every file cut to the length covered by the last successful
//! fsync of THAT file among the first j calls).
//!
//! One *base* = (max_file_size, group_commit_max_entries, group_commit_max_wait, writer tasks with seeded
//! yields/sleeps). Per base: the fault-free execution (n I/O calls), then EVERY single-fault placement
//! (call i x applicable kind), then sampled double and sticky ("from call i on") faults. For every execution EVERY
//! crash index j in 0..=n is checked: each write whose `write_durable` returned Ok and was stamped (after the ack
//! was received) with call counter c <= j must be returned, bit-identical data + stamp, by the real
//! `WalRotator::recover_all_entries` run on the crash image at j. A write reported failed is free.
use crate::common::*;
use parking_lot::Mutex;
use rand::Rng as _;
use redis_sim::redis::SDS;
use redis_sim::replication::lattice::{LamportClock, ReplicaId};
use redis_sim::replication::state::{CrdtValue, ReplicatedValue, ReplicationDelta};
use redis_sim::streaming::wal_store::{InMemoryWalStore, WalError, WalFileReader, WalFileWriter, WalStore};
use redis_sim::streaming::wal::WalReader;
use redis_sim::streaming::{spawn_wal_actor, FsyncPolicy, WalConfig, WalRotator};
use serde::{Deserialize, Serialize};
use serde_json::{json, Value};
use std::collections::{BTreeMap, BTreeSet, HashSet};
use std::sync::Arc;
use std::time::Duration;

// ───────────────────────────── PlanWalStore ─────────────────────────────

#[derive(Clone, Copy, Debug, PartialEq, Eq, Hash, PartialOrd, Ord, Serialize, Deserialize)]
enum Fault {
    AppendFail,
    PartialFirst, // 1 byte reaches the file
    PartialMid,   // half of the bytes
    PartialLast,  // all but the last byte
    DiskFull,     // on append: nothing written; on create: file not created
    FsyncFail,
    /// half of the bytes reach the file and the call fails with a plain I/O error (what write_all reports after a
    /// short write followed by ENOSPC/EIO on a real file; only the simulated store reports PartialWrite)
    ShortWriteIo,
}

#[derive(Clone, Copy, Debug, PartialEq, Eq, Hash, PartialOrd, Ord)]
enum Call {
    Create,
    Append,
    Sync,
    Delete,
}

/// Which fault kinds can be injected into which call.
fn kinds_for(c: Call) -> &'static [Fault] {
    match c {
        Call::Create => &[Fault::DiskFull],
        Call::Append => &[Fault::AppendFail, Fault::PartialFirst, Fault::PartialMid, Fault::PartialLast, Fault::DiskFull, Fault::ShortWriteIo],
        Call::Sync => &[Fault::FsyncFail],
        Call::Delete => &[],
    }
}

/// One logged I/O call. `before` = file length before the call, `wrote` = bytes that reached the file.
#[derive(Clone, Debug)]
struct Ev {
    call: Call,
    file: usize, // index into Inner::files; usize::MAX for a failed create
    before: usize,
    wrote: usize,
    ok: bool,
    fault: Option<Fault>,
}

impl Ev {
    fn is_header(&self) -> bool {
        self.call == Call::Append && self.before == 0
    }
    fn is_entry(&self) -> bool {
        self.call == Call::Append && self.before > 0
    }
}

#[derive(Default)]
struct Inner {
    files: Vec<(String, Vec<u8>)>, // every file ever created (append-only contents)
    live: BTreeMap<String, usize>, // name -> current incarnation
    log: Vec<Ev>,
    plan: BTreeMap<u64, Fault>,
    sticky: Option<(u64, Fault)>,
    plan_mismatch: u64,
    recreated: u64,
}

impl Inner {
    fn take_fault(&mut self, c: Call) -> Option<Fault> {
        let idx = self.log.len() as u64;
        if let Some(&f) = self.plan.get(&idx) {
            if kinds_for(c).contains(&f) {
                return Some(f);
            }
            self.plan_mismatch += 1; // the replayed prefix was not deterministic
        }
        match self.sticky {
            Some((from, f)) if idx >= from && kinds_for(c).contains(&f) => Some(f),
            _ => None,
        }
    }
}

#[derive(Clone)]
struct PlanWalStore(Arc<Mutex<Inner>>);

impl PlanWalStore {
    fn new(plan: &[(u64, Fault)], sticky: Option<(u64, Fault)>) -> Self {
        PlanWalStore(Arc::new(Mutex::new(Inner { plan: plan.iter().cloned().collect(), sticky, ..Default::default() })))
    }
    fn calls(&self) -> u64 {
        self.0.lock().log.len() as u64
    }
}

struct PlanWriter {
    st: Arc<Mutex<Inner>>,
    file: usize,
    size: u64,
}

impl WalFileWriter for PlanWriter {
    fn append(&mut self, data: &[u8]) -> Result<u64, WalError> {
        let mut g = self.st.lock();
        let fault = g.take_fault(Call::Append);
        let before = g.files[self.file].1.len();
        let n = data.len();
        let partial = |c: usize| (c.min(n.saturating_sub(1)), Err(WalError::PartialWrite { expected: n, actual: c.min(n.saturating_sub(1)) }));
        let (wrote, res): (usize, Result<(), WalError>) = match fault {
            Some(Fault::AppendFail) => (0, Err(WalError::Io(std::io::Error::new(std::io::ErrorKind::Other, "planned append failure")))),
            Some(Fault::DiskFull) => (0, Err(WalError::DiskFull)),
            Some(Fault::PartialFirst) => partial(1),
            Some(Fault::PartialMid) => partial(n / 2),
            Some(Fault::PartialLast) => partial(n.saturating_sub(1)),
            Some(Fault::ShortWriteIo) => ((n / 2).min(n.saturating_sub(1)), Err(WalError::Io(std::io::Error::new(std::io::ErrorKind::Other, "planned short write, then I/O error")))),
            _ => (n, Ok(())),
        };
        g.files[self.file].1.extend_from_slice(&data[..wrote]);
        self.size = g.files[self.file].1.len() as u64;
        let ok = res.is_ok();
        g.log.push(Ev { call: Call::Append, file: self.file, before, wrote, ok, fault });
        res.map(|_| self.size)
    }
    fn sync(&mut self) -> Result<(), WalError> {
        let mut g = self.st.lock();
        let fault = g.take_fault(Call::Sync);
        let before = g.files[self.file].1.len();
        let ok = fault.is_none();
        g.log.push(Ev { call: Call::Sync, file: self.file, before, wrote: 0, ok, fault });
        ok.then_some(()).ok_or_else(|| WalError::FsyncFailed("planned fsync failure".into()))
    }
    fn size(&self) -> u64 {
        self.size
    }
}

struct PlanReader(Vec<u8>);
impl WalFileReader for PlanReader {
    fn read_all(&mut self) -> Result<Vec<u8>, WalError> {
        Ok(self.0.clone())
    }
}

impl WalStore for PlanWalStore {
    type Writer = PlanWriter;
    type Reader = PlanReader;
    fn create(&self, name: &str) -> Result<PlanWriter, WalError> {
        let mut g = self.0.lock();
        let fault = g.take_fault(Call::Create);
        if fault.is_some() {
            g.log.push(Ev { call: Call::Create, file: usize::MAX, before: 0, wrote: 0, ok: false, fault });
            return Err(WalError::DiskFull);
        }
        let idx = g.files.len();
        g.files.push((name.to_string(), Vec::new()));
        if g.live.insert(name.to_string(), idx).is_some() {
            g.recreated += 1;
        }
        g.log.push(Ev { call: Call::Create, file: idx, before: 0, wrote: 0, ok: true, fault: None });
        Ok(PlanWriter { st: Arc::clone(&self.0), file: idx, size: 0 })
    }
    fn open_read(&self, name: &str) -> Result<PlanReader, WalError> {
        let g = self.0.lock();
        match g.live.get(name) {
            Some(&i) => Ok(PlanReader(g.files[i].1.clone())),
            None => Err(WalError::NotFound(name.to_string())),
        }
    }
    fn list(&self) -> Result<Vec<String>, WalError> {
        Ok(self.0.lock().live.keys().cloned().collect())
    }
    fn delete(&self, name: &str) -> Result<(), WalError> {
        let mut g = self.0.lock();
        let idx = g.live.remove(name).unwrap_or(usize::MAX);
        g.log.push(Ev { call: Call::Delete, file: idx, before: 0, wrote: 0, ok: true, fault: None });
        Ok(())
    }
    fn exists(&self, name: &str) -> Result<bool, WalError> {
        Ok(self.0.lock().live.contains_key(name))
    }
}

/// Crash image after the first `j` logged calls: every live file cut to the length covered by the last
/// successful fsync of that file among those calls (a file that was never fsynced is empty).
fn crash_image(log: &[Ev], files: &[(String, Vec<u8>)], j: usize) -> BTreeMap<String, Vec<u8>> {
    let mut live: BTreeMap<&str, usize> = BTreeMap::new();
    let mut synced: BTreeMap<usize, usize> = BTreeMap::new();
    for ev in &log[..j.min(log.len())] {
        match ev.call {
            Call::Create if ev.ok => {
                live.insert(files[ev.file].0.as_str(), ev.file);
                synced.insert(ev.file, 0);
            }
            Call::Sync if ev.ok => {
                synced.insert(ev.file, ev.before);
            }
            Call::Delete if ev.file != usize::MAX => {
                live.retain(|_, f| *f != ev.file);
            }
            _ => {}
        }
    }
    live.into_iter().map(|(n, f)| (n.to_string(), files[f].1[..synced[&f]].to_vec())).collect()
}

/// Fault-free equivalence of PlanWalStore with the repo's InMemoryWalStore on random op sequences
/// (results of every call, file contents, listing, and the crash image vs `simulate_crash`).
fn validate_store(rng: &mut Rng, seqs: u64) -> (u64, u64) {
    let (mut ops, mut bad) = (0u64, 0u64);
    for _ in 0..seqs {
        let mine = PlanWalStore::new(&[], None);
        let theirs = InMemoryWalStore::new();
        let names = ["wal-00000001.wal", "wal-00000002.wal", "x.tmp"];
        let mut ws: BTreeMap<&str, (PlanWriter, redis_sim::streaming::wal_store::InMemoryWalWriter)> = BTreeMap::new();
        for _ in 0..rng.gen_range(5..60) {
            ops += 1;
            let name = names[rng.gen_range(0..names.len())];
            match rng.gen_range(0..9) {
                0 => {
                    ws.remove(name);
                    ws.insert(name, (mine.create(name).expect("create"), theirs.create(name).expect("create")));
                }
                1..=3 => {
                    if let Some((a, b)) = ws.get_mut(name) {
                        let d: Vec<u8> = (0..rng.gen_range(1..40)).map(|_| rng.gen()).collect();
                        bad += (a.append(&d).ok() != b.append(&d).ok()) as u64;
                        bad += (a.size() != b.size()) as u64;
                    }
                }
                4 => {
                    if let Some((a, b)) = ws.get_mut(name) {
                        bad += (a.sync().is_ok() != b.sync().is_ok()) as u64;
                    }
                }
                5 => {
                    let a = mine.open_read(name).and_then(|mut r| r.read_all()).ok();
                    let b = theirs.open_read(name).and_then(|mut r| r.read_all()).ok();
                    bad += (a != b) as u64;
                }
                6 => bad += (mine.list().ok() != theirs.list().ok()) as u64,
                7 => bad += (mine.exists(name).ok() != theirs.exists(name).ok()) as u64,
                _ => {
                    ws.remove(name);
                    bad += (mine.delete(name).is_ok() != theirs.delete(name).is_ok()) as u64;
                }
            }
        }
        let g = mine.0.lock();
        let img = crash_image(&g.log, &g.files, g.log.len());
        theirs.simulate_crash();
        let their_img: BTreeMap<String, Vec<u8>> =
            theirs.list().unwrap_or_default().into_iter().map(|n| (n.clone(), theirs.get_file_data(&n).unwrap_or_default())).collect();
        bad += (img != their_img) as u64;
    }
    (ops, bad)
}

// ───────────────────────────── case description ─────────────────────────────

#[derive(Clone, Debug, Serialize, Deserialize, PartialEq)]
struct WOp {
    yields: u8,
    sleep_us: u64,
    ts: u64,
    kind: u8, // 0 string, 1 tombstone, 2 string+expiry+rf, 3 hash field
    size: u32,
    /// sent with write_fire_and_forget (no ack, no durability claim): noise inside the batches
    #[serde(default)]
    faf: bool,
    /// not a write: `handle.truncate(ts)` ("everything stamped <= ts has been streamed to the object store")
    #[serde(default)]
    trunc: bool,
    /// the write goes to a key that other writers are writing at the same moment (same group-commit batch): every
    /// acknowledged write is its own durable entry, whichever of them the key ends up holding
    #[serde(default)]
    hot: bool,
}

#[derive(Clone, Debug, Serialize, Deserialize, PartialEq)]
struct Spec {
    mfs: usize,
    gcme: usize,
    wait_us: u64,
    writers: Vec<Vec<WOp>>,
    faults: Vec<(u64, Fault)>,
    sticky: Option<(u64, Fault)>,
}

fn make_delta(wi: usize, oi: usize, op: &WOp) -> ReplicationDelta {
    let rid = ReplicaId(1 + (wi as u64 % 3));
    // the WAL stamp is an argument of write_durable: for kind 2 it differs from the delta's own Lamport time
    // (kinds 1 and 3 tick the clock while the value is built: keep it away from u64::MAX, that is not C09's business)
    let time = match op.kind {
        2 => op.ts.rotate_left(7) ^ 0x55,
        1 | 3 => op.ts / 2,
        _ => op.ts,
    };
    let mut clock = LamportClock { time, replica_id: rid };
    // hostile payload: zero bytes, 0xff, and text that looks like a WAL header / entry header
    let pat = b"RWAL\x01\x00\x00\x00\xff\xff\xff\xff\r\n";
    let mut bytes: Vec<u8> = (0..op.size as usize).map(|i| pat[(i + wi * 7 + oi * 3) % pat.len()]).collect();
    if op.hot {
        bytes.extend_from_slice(format!("#w{}o{}", wi, oi).as_bytes()); // keeps entries of the shared key distinguishable
    }
    let mut v = match op.kind {
        3 => {
            let mut v = ReplicatedValue::with_crdt(CrdtValue::new_hash(), rid);
            v.hash_set(format!("f{}", oi), SDS::new(bytes), &mut clock);
            v
        }
        _ => ReplicatedValue::with_value(SDS::new(bytes), clock),
    };
    if op.kind == 1 {
        v.delete(&mut clock);
    }
    if op.kind == 2 {
        v.expiry_ms = Some(op.ts.wrapping_add(1000));
        v.replication_factor = Some(3);
    }
    ReplicationDelta::new(if op.hot { "hot".to_string() } else { format!("w{}_{}", wi, oi) }, v, rid)
}

/// Independent statement of the on-disk entry (wal.rs file layout comment): len u32 | ts u64 | crc32 u32 | data.
struct Expect {
    data: Vec<u8>,
    ts: u64,
    enc: Vec<u8>,
}

fn expectation(wi: usize, oi: usize, op: &WOp) -> Expect {
    let data = bincode::serialize(&make_delta(wi, oi, op)).expect("bincode");
    let mut enc = Vec::with_capacity(16 + data.len());
    enc.extend_from_slice(&(data.len() as u32).to_le_bytes());
    enc.extend_from_slice(&op.ts.to_le_bytes());
    enc.extend_from_slice(&crc32fast::hash(&data).to_le_bytes());
    enc.extend_from_slice(&data);
    Expect { data, ts: op.ts, enc }
}

// ───────────────────────────── execution ─────────────────────────────

#[derive(Clone, Debug)]
struct Ack {
    wi: usize,
    oi: usize,
    ok: bool,
    c: usize, // I/O calls completed when the writer task SAW the ack
    err: String,
}

struct Outcome {
    log: Vec<Ev>,
    files: Vec<(String, Vec<u8>)>,
    acks: Vec<Ack>,
    end: &'static str, // how the actor task ended
    plan_mismatch: u64,
    recreated: u64,
    /// (T, I/O calls completed when handle.truncate(T) was issued)
    truncs: Vec<(u64, usize)>,
}

fn run_exec(spec: &Spec) -> Outcome {
    let store = PlanWalStore::new(&spec.faults, spec.sticky);
    let acks: Arc<Mutex<Vec<Ack>>> = Arc::new(Mutex::new(Vec::new()));
    let truncs: Arc<Mutex<Vec<(u64, usize)>>> = Arc::new(Mutex::new(Vec::new()));
    let rt = tokio::runtime::Builder::new_current_thread().enable_all().start_paused(true).build().expect("runtime");
    let end = rt.block_on(async {
        let cfg = WalConfig {
            enabled: true,
            wal_dir: "/nonexistent/c09".into(),
            fsync_policy: FsyncPolicy::Always,
            max_file_size: spec.mfs,
            group_commit_max_entries: spec.gcme,
            group_commit_max_wait: Duration::from_micros(spec.wait_us),
            truncation_check_interval: Duration::from_secs(3600),
        };
        let (handle, task) = match spawn_wal_actor(store.clone(), cfg) {
            Ok(x) => x,
            Err(_) => return "not_started",
        };
        let mut jhs = Vec::new();
        for (wi, ops) in spec.writers.iter().enumerate() {
            let (h, st, acks, ops) = (handle.clone(), store.clone(), Arc::clone(&acks), ops.clone());
            let truncs = Arc::clone(&truncs);
            jhs.push(tokio::spawn(async move {
                for (oi, op) in ops.iter().enumerate() {
                    for _ in 0..op.yields {
                        tokio::task::yield_now().await;
                    }
                    if op.sleep_us > 0 {
                        tokio::time::sleep(Duration::from_micros(op.sleep_us)).await;
                    }
                    if op.trunc {
                        truncs.lock().push((op.ts, st.calls() as usize));
                        h.truncate(op.ts);
                        continue;
                    }
                    if op.faf {
                        h.write_fire_and_forget(Arc::new(make_delta(wi, oi, op)), op.ts);
                        continue;
                    }
                    let r = h.write_durable(Arc::new(make_delta(wi, oi, op)), op.ts).await;
                    let c = st.calls() as usize; // stamped AFTER the ack was received: can only delay c
                    let err = r.as_ref().err().map(|e| panic_class(&e.to_string())).unwrap_or_default();
                    acks.lock().push(Ack { wi, oi, ok: r.is_ok(), c, err });
                }
            }));
        }
        for jh in jhs {
            let _ = jh.await;
        }
        handle.shutdown().await;
        drop(handle);
        match tokio::time::timeout(Duration::from_secs(600), task).await {
            Ok(Ok(())) => "clean",
            Ok(Err(e)) if e.is_panic() => "panic",
            Ok(Err(_)) => "cancelled",
            Err(_) => "hung",
        }
    });
    drop(rt);
    let g = store.0.lock();
    let acks = acks.lock().clone();
    let truncs = truncs.lock().clone();
    Outcome { log: g.log.clone(), files: g.files.clone(), acks, end, plan_mismatch: g.plan_mismatch, recreated: g.recreated, truncs }
}

// ───────────────────────────── oracle ─────────────────────────────

#[derive(Clone, Debug)]
struct Finding {
    sig: String,
    detail: String,
    write: (usize, usize),
    c: usize,
    j: usize,
}

#[derive(Default)]
struct Checked {
    findings: Vec<Finding>,
    crash_points: u64,
    images: u64,
    pairs: u64,
    failed_but_survived: u64,
    failed_and_lost: u64,
    legit_truncated: u64,
}

const SIG_TRUNC: &str = "C09|WalActor::handle_truncation|acked write lost at crash|file deleted although it holds a stamp above every requested truncation point";

/// Was the file holding this entry deleted among the first `j` calls? Some(justified) / None (not deleted, or never appended).
fn truncated_away(out: &Outcome, exp: &Expect, j: usize) -> Option<bool> {
    let a = out.log.iter().position(|ev| ev.call == Call::Append && ev.ok && ev.wrote == exp.enc.len() && out.files[ev.file].1[ev.before..ev.before + ev.wrote] == exp.enc[..])?;
    let f = out.log[a].file;
    let d = out.log[..j.min(out.log.len())].iter().position(|ev| ev.call == Call::Delete && ev.file == f)?;
    // greatest stamp in the file, read with the repository's own reader
    let max_ts = WalReader::open(PlanReader(out.files[f].1.clone())).ok().map(|r| r.entries().iter().map(|e| e.timestamp).max().unwrap_or(0)).unwrap_or(u64::MAX);
    Some(out.truncs.iter().any(|(t, c)| *c <= d && *t >= max_ts))
}

const SIG_ROTATE: &str = "C09|WalRotator::rotate|acked write lost at crash|batch straddles a rotation: outgoing file dropped without fsync";
const SIG_APPEND_ERR: &str = "C09|WalRotator::append|acked write lost at crash|append error mid-batch drops the writer holding un-fsynced entries that are then acked Ok";
const SIG_FSYNC_FAILED: &str = "C09|WalActor::flush_group_commit|acked write lost at crash|acked Ok although the fsync of its file failed";
const SIG_NO_FSYNC: &str = "C09|WalActor(always mode)|acked write lost at crash|acked Ok with no fsync of its (still current) file since the append";
const SIG_RECOVERY: &str = "C09|WalRotator::recover_all_entries|acked write lost at crash|entry lies inside the fsynced prefix of its file but recovery does not return it";
const SIG_NEVER: &str = "C09|WalActorHandle::write_durable|acked write lost at crash|acked Ok but the entry never reached any file intact";
const SIG_STAMP: &str = "C09|WalRotator::recover_all_entries|acked write altered|same delta recovered with a different stamp";

fn recover(img: &BTreeMap<String, Vec<u8>>, mfs: usize) -> Result<Vec<(u64, Vec<u8>, bool)>, String> {
    let st = InMemoryWalStore::new();
    for (name, data) in img {
        let mut w = st.create(name).map_err(|e| e.to_string())?;
        if !data.is_empty() {
            w.append(data).map_err(|e| e.to_string())?;
        }
    }
    let rot = WalRotator::new(st, mfs).map_err(|e| e.to_string())?;
    let entries = rot.recover_all_entries().map_err(|e| e.to_string())?;
    Ok(entries.into_iter().map(|e| (e.timestamp, e.data.clone(), e.to_delta().is_ok())).collect())
}

/// Why is the entry of an Ok-acked write not in the crash image? Classified from the event log only.
fn classify(out: &Outcome, exp: &Expect, ack: &Ack, j: usize, recovered: &[(u64, Vec<u8>, bool)]) -> (&'static str, String) {
    let a = out.log.iter().position(|ev| {
        ev.call == Call::Append && ev.ok && ev.wrote == exp.enc.len() && out.files[ev.file].1[ev.before..ev.before + ev.wrote] == exp.enc[..]
    });
    let Some(a) = a else {
        // the same serialized delta written under another stamp?
        let restamped = out.log.iter().any(|ev| {
            ev.call == Call::Append && ev.ok && ev.wrote == exp.enc.len() && out.files[ev.file].1[ev.before + 16..ev.before + ev.wrote] == exp.data[..]
        });
        if restamped || recovered.iter().any(|(_, d, _)| *d == exp.data) {
            return (SIG_STAMP, format!("the delta was appended/recovered with a timestamp other than the {} passed to write_durable", exp.ts));
        }
        return (SIG_NEVER, "no successful append of the encoded entry in the I/O log".into());
    };
    let f = out.log[a].file;
    let end = out.log[a].before + out.log[a].wrote;
    let covered = out.log[..j].iter().any(|ev| ev.call == Call::Sync && ev.ok && ev.file == f && ev.before >= end);
    if covered {
        return (SIG_RECOVERY, format!("entry at bytes {}..{} of {} is fsynced at crash index {}", out.log[a].before, end, out.files[f].0, j));
    }
    let window = &out.log[a + 1..ack.c.min(out.log.len())];
    let mut failed_sync = false;
    for (k, ev) in window.iter().enumerate() {
        let at = a + 1 + k;
        match ev.call {
            Call::Create => {
                return (SIG_ROTATE, format!("entry appended at call {} to {}; rotation at call {} ({}); file never fsynced; ack seen at {}", a, out.files[f].0, at, if ev.ok { "create ok" } else { "create failed" }, ack.c))
            }
            Call::Append if ev.file == f && !ev.ok => {
                return (SIG_APPEND_ERR, format!("entry appended at call {} to {}; append at call {} failed ({:?}) and dropped the writer; file never fsynced; ack seen at {}", a, out.files[f].0, at, ev.fault, ack.c))
            }
            Call::Sync if ev.file == f && !ev.ok => failed_sync = true,
            _ => {}
        }
    }
    if failed_sync {
        (SIG_FSYNC_FAILED, format!("entry appended at call {}; only failed fsyncs of {} before the ack seen at {}", a, out.files[f].0, ack.c))
    } else {
        (SIG_NO_FSYNC, format!("entry appended at call {} to {}; no fsync call on it before the ack seen at {}", a, out.files[f].0, ack.c))
    }
}

/// Check EVERY crash index j in 0..=n. The image only changes at successful fsyncs, so recovery runs once per
/// distinct image ("epoch") and every j of the epoch is checked against that recovered set.
fn check(spec: &Spec, out: &Outcome) -> Checked {
    let mut ck = Checked::default();
    let n = out.log.len();
    ck.crash_points = n as u64 + 1;
    let exps: Vec<Vec<Expect>> = spec.writers.iter().enumerate().map(|(wi, ops)| ops.iter().enumerate().map(|(oi, op)| expectation(wi, oi, op)).collect()).collect();
    // epochs: [lo, hi] ranges of j sharing one image
    let mut bounds = vec![0usize];
    for (i, ev) in out.log.iter().enumerate() {
        if ev.call == Call::Sync && ev.ok {
            bounds.push(i + 1);
        }
    }
    let mut reported: BTreeSet<(usize, usize)> = BTreeSet::new();
    let min_c = out.acks.iter().filter(|a| a.ok).map(|a| a.c).min();
    for (e, &lo) in bounds.iter().enumerate() {
        let hi = bounds.get(e + 1).map(|b| b - 1).unwrap_or(n);
        let last = e + 1 == bounds.len();
        if !last && min_c.map_or(true, |c| c > hi) {
            continue; // no acked write is owed anything yet at these crash indices
        }
        let img = crash_image(&out.log, &out.files, lo);
        ck.images += 1;
        let rec = match recover(&img, spec.mfs) {
            Ok(r) => r,
            Err(e) => {
                ck.findings.push(Finding { sig: "C09|WalRotator::recover_all_entries|recovery returned an error on a crash image|".to_string() + &panic_class(&e), detail: e, write: (0, 0), c: 0, j: lo });
                continue;
            }
        };
        let set: HashSet<(u64, &[u8])> = rec.iter().filter(|r| r.2).map(|r| (r.0, r.1.as_slice())).collect();
        for ack in &out.acks {
            let exp = &exps[ack.wi][ack.oi];
            let present = set.contains(&(exp.ts, exp.data.as_slice()));
            if !ack.ok {
                if last {
                    if present {
                        ck.failed_but_survived += 1;
                    } else {
                        ck.failed_and_lost += 1;
                    }
                }
                continue;
            }
            if ack.c > hi {
                continue;
            }
            ck.pairs += (hi - ack.c.max(lo) + 1) as u64; // every j in [max(c,lo), hi] sees this same image
            if !present && !out.truncs.is_empty() {
                // the entry's file may have been removed by a truncation the workload itself asked for: legitimate iff some
                // truncate(T) issued before the delete has T >= every stamp in that file
                match truncated_away(out, exp, lo) {
                    Some(true) => {
                        ck.legit_truncated += 1;
                        continue;
                    }
                    Some(false) => {
                        if reported.insert((ack.wi, ack.oi)) {
                            ck.findings.push(Finding { sig: SIG_TRUNC.to_string(), detail: format!("acked write (stamp {}) is gone at crash index {}: its file was deleted although no truncate(T) issued before the delete covers every stamp in the file (truncations issued: {:?})", exp.ts, lo, out.truncs), write: (ack.wi, ack.oi), c: ack.c, j: ack.c.max(lo) });
                        }
                        continue;
                    }
                    None => {}
                }
            }
            if !present && reported.insert((ack.wi, ack.oi)) {
                let j = ack.c.max(lo);
                let (sig, detail) = classify(out, exp, ack, j, &rec);
                ck.findings.push(Finding { sig: sig.to_string(), detail, write: (ack.wi, ack.oi), c: ack.c, j });
            }
        }
    }
    ck
}

// ───────────────────────────── trace shape ─────────────────────────────

#[derive(Clone, Debug, Default)]
struct Batch {
    size: usize, // entry appends attempted between two fsync calls
    rot_inside: usize,
    lo: usize,
    hi: usize,
}

/// Group-commit batches of an execution, independent of where the implementation places its fsyncs: a fsync call
/// ends a batch iff it *released* acks (it is the last fsync before some writer saw its ack) or the batch has
/// reached group_commit_max_entries (a full batch is flushed without the actor yielding, so its acks may be seen
/// late). Any other fsync (e.g. one issued while rotating) lies inside a batch.
fn batches(out: &Outcome, gcme: usize) -> Vec<Batch> {
    let log = &out.log;
    let releasing: BTreeSet<usize> = out.acks.iter().filter_map(|a| (0..a.c.min(log.len())).rev().find(|&i| log[i].call == Call::Sync)).collect();
    let mut res = Vec::new();
    let mut cur = Batch::default();
    for (i, ev) in log.iter().enumerate() {
        match ev.call {
            Call::Create if cur.size > 0 => cur.rot_inside += 1,
            Call::Append if ev.is_entry() => cur.size += 1,
            Call::Sync if releasing.contains(&i) || cur.size >= gcme => {
                cur.hi = i;
                res.push(std::mem::take(&mut cur));
                cur.lo = i + 1;
            }
            _ => {}
        }
    }
    if cur.size > 0 {
        cur.hi = log.len() - 1;
        res.push(cur);
    }
    res
}

/// (batch size, position of call i in its batch, rotation before i in batch, rotation after i in batch)
fn fault_site(log: &[Ev], bs: &[Batch], i: usize) -> (usize, &'static str, bool, bool) {
    let b = bs.iter().find(|b| b.lo <= i && i <= b.hi).cloned().unwrap_or_default();
    let ev = &log[i];
    let entries: Vec<usize> = (b.lo..=b.hi.min(log.len() - 1)).filter(|&k| log[k].is_entry()).collect();
    let pos = match ev.call {
        Call::Create => "create",
        Call::Sync => "fsync",
        Call::Delete => "delete",
        Call::Append if ev.is_header() => "header",
        Call::Append => match (entries.first() == Some(&i), entries.last() == Some(&i)) {
            (true, true) => "only-entry",
            (true, false) => "first-entry",
            (false, true) => "last-entry",
            _ => "middle-entry",
        },
    };
    let first_entry = entries.first().cloned().unwrap_or(usize::MAX);
    let rot_before = (b.lo..i).any(|k| log[k].call == Call::Create && k > first_entry);
    let rot_after = (i + 1..=b.hi.min(log.len() - 1)).any(|k| log[k].call == Call::Create);
    (b.size, pos, rot_before, rot_after)
}

fn trace_lines(spec: &Spec, out: &Outcome) -> Vec<String> {
    let mut enc: Vec<(Vec<u8>, String)> = Vec::new();
    for (wi, ops) in spec.writers.iter().enumerate() {
        for (oi, op) in ops.iter().enumerate() {
            enc.push((expectation(wi, oi, op).enc, format!("w{}_{}", wi, oi)));
        }
    }
    let mut lines = Vec::new();
    for (i, ev) in out.log.iter().enumerate() {
        let name = if ev.file == usize::MAX { "-" } else { out.files[ev.file].0.as_str() };
        let what = match ev.call {
            Call::Create => "create".to_string(),
            Call::Sync => "fsync".to_string(),
            Call::Delete => "delete".to_string(),
            Call::Append if ev.is_header() => "append header".to_string(),
            Call::Append => {
                let bytes = &out.files[ev.file].1[ev.before..ev.before + ev.wrote];
                let who = enc.iter().find(|(e, _)| e.starts_with(bytes) && !bytes.is_empty()).map(|(_, k)| k.as_str()).unwrap_or("?");
                format!("append entry {} ({}B written)", who, ev.wrote)
            }
        };
        let res = if ev.ok { "ok".to_string() } else { format!("FAULT {:?}", ev.fault) };
        lines.push(format!("{:>3} {} {} -> {}", i, what, name, res));
        for a in out.acks.iter().filter(|a| a.c == i + 1) {
            lines.push(format!("    ack w{}_{} {} (stamped {})", a.wi, a.oi, if a.ok { "Ok".to_string() } else { format!("Err {}", a.err) }, a.c));
        }
    }
    lines
}

// ───────────────────────────── generator ─────────────────────────────

fn gen_size(rng: &mut Rng) -> u32 {
    match rng.gen_range(0..100) {
        0..=9 => rng.gen_range(0..2),
        10..=79 => rng.gen_range(1..48),
        80..=94 => rng.gen_range(100..600),
        95..=97 => 1024,
        98 => 4096,
        _ => 8192,
    }
}

fn gen_op(rng: &mut Rng, quiet: bool) -> WOp {
    const TS: [u64; 8] = [0, 1, 1, 7, 100, 1 << 40, u64::MAX - 1, u64::MAX];
    const SLEEPS: [u64; 12] = [0, 0, 0, 500, 1000, 2000, 2999, 3000, 3001, 5000, 10_000, 30_000];
    WOp {
        yields: if quiet { 0 } else { rng.gen_range(0..4) },
        sleep_us: if quiet { 0 } else { SLEEPS[rng.gen_range(0..SLEEPS.len())] },
        ts: if rng.gen_bool(0.5) { TS[rng.gen_range(0..TS.len())] } else { rng.gen_range(0..1000) },
        kind: [0, 0, 0, 1, 2, 3][rng.gen_range(0..6)],
        size: gen_size(rng),
        faf: false,
        trunc: false,
        hot: false,
    }
}

fn gen_base(rng: &mut Rng, idx: u64) -> Spec {
    let structured = idx < 8;
    let (nw, gcme, wait_us) = if structured {
        // k writers submit at the same instant: one batch of exactly k entries (k = 1..8), then a second round
        (idx as usize + 1, 8, 3000)
    } else {
        (rng.gen_range(1..=12), [1, 2, 3, 4, 5, 6, 7, 8][rng.gen_range(0..8)], [50, 3000, 3000, 10_000][rng.gen_range(0..4)])
    };
    let burst = !structured && rng.gen_bool(0.3); // all writers submit their first write at the same instant
    let mut total = 0;
    let mut writers = Vec::new();
    for _ in 0..nw {
        let n = if structured { rng.gen_range(1..=2) } else { rng.gen_range(1..=3) };
        let n = n.min(22usize.saturating_sub(total)).max(1);
        total += n;
        writers.push((0..n).map(|k| gen_op(rng, (structured || burst) && k == 0)).collect::<Vec<_>>());
    }
    if !structured && rng.gen_range(0..7) == 0 {
        // fire-and-forget noise (these bases are left out of the batch-size histogram: a batch made only of
        // unacknowledged entries cannot be told apart from the trace)
        for op in writers.iter_mut().flatten() {
            op.faf = rng.gen_range(0..4) == 0;
        }
    }
    if rng.gen_range(0..3) == 0 {
        // several writers on one key at the same instant
        for op in writers.iter_mut().flatten() {
            op.hot = rng.gen_range(0..2) == 0;
        }
    }
    if !structured && rng.gen_range(0..3) == 0 {
        // the streaming side reports progress: truncate(T) between the writes, T among the stamps in play, below and above them
        let stamps: Vec<u64> = writers.iter().flatten().map(|o| o.ts).collect();
        for w in writers.iter_mut() {
            let mut k = 1;
            while k <= w.len() {
                if rng.gen_range(0..3) == 0 {
                    let t = match rng.gen_range(0..4) {
                        0 => 0,
                        1 => u64::MAX,
                        _ => stamps[rng.gen_range(0..stamps.len())],
                    };
                    w.insert(k, WOp { yields: rng.gen_range(0..3), sleep_us: [0, 0, 3000, 10_000][rng.gen_range(0..4)], ts: t, kind: 0, size: 1, faf: false, trunc: true, hot: false });
                    k += 1;
                }
                k += 1;
            }
        }
    }
    let e0 = expectation(0, 0, &writers[0][0]).enc.len();
    let avg = 16 + 60;
    let mfs = match rng.gen_range(0..10) {
        0 | 1 => 17,          // header + "anything": every entry gets its own file
        2 => 16 + e0,         // exactly header + first entry
        3 => 16 + e0 + 1,     // one byte more: two entries in the first file
        4 => 16 + 2 * avg,    // ~2-3 entries per file
        5 | 6 => rng.gen_range(60..400),
        7 => rng.gen_range(400..3000),
        8 => 16 * 1024,
        _ => 1 << 20,         // no rotation at all
    };
    Spec { mfs, gcme, wait_us, writers, faults: vec![], sticky: None }
}

// ───────────────────────────── shrinking ─────────────────────────────

fn has_sig(spec: &Spec, sig: &str) -> Option<(Outcome, Finding)> {
    let out = run_exec(spec);
    let f = check(spec, &out).findings.into_iter().find(|f| f.sig == sig)?;
    Some((out, f))
}

/// Greedy: drop faults, writers, trailing ops, then calm the survivors; a step is kept only if the same signature
/// is still reported (fault indices are positions in the *new* trace, so a step may simply not reproduce).
fn shrink(spec: &Spec, sig: &str, budget: &mut u32) -> Spec {
    let mut best = spec.clone();
    loop {
        let mut cands: Vec<Spec> = Vec::new();
        let mut cand = |f: &dyn Fn(&mut Spec)| {
            let mut s = best.clone();
            f(&mut s);
            if s != best {
                cands.push(s);
            }
        };
        cand(&|s| s.sticky = None);
        for k in 0..best.faults.len() {
            cand(&|s| drop(s.faults.remove(k)));
        }
        for w in (0..best.writers.len()).rev() {
            cand(&|s| if s.writers.len() > 1 { s.writers.remove(w); });
            cand(&|s| if s.writers[w].len() > 1 { s.writers[w].pop(); });
            for o in 0..best.writers[w].len() {
                cand(&|s| { let op = &mut s.writers[w][o]; *op = WOp { yields: 0, sleep_us: 0, kind: 0, size: op.size.min(3), ..op.clone() }; });
            }
        }
        let next = cands.into_iter().find(|s| {
            if *budget == 0 {
                return false;
            }
            *budget -= 1;
            has_sig(s, sig).is_some()
        });
        match next {
            Some(s) => best = s,
            None => return best,
        }
    }
}

// ───────────────────────────── the leg ─────────────────────────────

struct Ctx {
    rep: Report,
    shrink_budget: u32,
}

impl Ctx {
    /// Run one execution, check every crash index, record evidence. Returns the outcome for further planning.
    fn execute(&mut self, spec: &Spec, label: &str) -> Option<Outcome> {
        self.rep.evaluations += 1;
        self.rep.count(&format!("executions_{}", label));
        let out = match guard(|| run_exec(spec)) {
            Ok(o) => o,
            Err(p) => {
                self.rep.violation(format!("C09|spawn_wal_actor/run|panic escaped the runtime|{}", panic_class(&p)), p, json!({"spec": spec}));
                return None;
            }
        };
        self.rep.add("io_calls", out.log.len() as u64);
        self.rep.add("nondeterministic_fault_placements", out.plan_mismatch);
        self.rep.add("files_recreated_under_same_name", out.recreated);
        self.rep.count(&format!("actor_end_{}", out.end));
        for a in &out.acks {
            if a.ok {
                self.rep.count("acks_ok");
                // how sharp the stamp is: the last I/O call the writer saw completed is the fsync that released its ack
                if a.c > 0 && out.log.get(a.c - 1).map_or(false, |ev| ev.call == Call::Sync) {
                    self.rep.count("acks_ok_stamped_right_after_an_fsync");
                }
            } else {
                self.rep.count("acks_err");
                self.rep.count(&format!("acks_err:{}", a.err.chars().take(40).collect::<String>()));
            }
        }
        let expected_acks: usize = spec.writers.iter().map(|w| w.iter().filter(|o| !o.faf && !o.trunc).count()).sum();
        if out.acks.len() != expected_acks {
            self.rep.count("executions_with_missing_acks");
        }
        let ck = match guard(|| check(spec, &out)) {
            Ok(c) => c,
            Err(p) => {
                self.rep.violation(format!("C09|WalRotator::recover_all_entries|panic on a crash image|{}", panic_class(&p)), p, json!({"spec": spec}));
                return Some(out);
            }
        };
        self.rep.add("crash_points_checked", ck.crash_points);
        self.rep.add("crash_images_recovered", ck.images);
        self.rep.add("acked_write_x_crash_index_checks", ck.pairs);
        self.rep.add("failed_writes_that_survived", ck.failed_but_survived);
        self.rep.add("failed_writes_that_did_not_survive", ck.failed_and_lost);
        self.rep.add("acked_writes_removed_by_a_requested_truncation", ck.legit_truncated);
        for f in &ck.findings {
            self.rep.count(&format!("lost:{}", f.sig.split('|').nth(1).unwrap_or("?")));
            if self.rep.has_sig(&f.sig) {
                self.rep.violation(f.sig.clone(), "", Value::Null); // counted, first witness kept
                continue;
            }
            let small = shrink(spec, &f.sig, &mut self.shrink_budget);
            let (wspec, o2, f2) = match has_sig(&small, &f.sig) {
                Some((o, f2)) => (small, o, f2),
                None => (spec.clone(), run_exec(spec), f.clone()),
            };
            self.rep.violation(
                f.sig.clone(),
                f2.detail.clone(),
                json!({"spec": wspec, "lost_write": format!("w{}_{}", f2.write.0, f2.write.1), "ack_stamp": f2.c, "crash_index": f2.j,
                       "trace": trace_lines(&wspec, &o2)}),
            );
        }
        Some(out)
    }
}

fn replay(args: &Args, path: &str, mut cx: Ctx) {
    let w: Value = serde_json::from_str(&std::fs::read_to_string(path).expect("replay file")).expect("json");
    let spec: Spec = serde_json::from_value(w["witness"]["spec"].clone()).expect("witness.spec");
    cx.shrink_budget = 0;
    if let Some(out) = cx.execute(&spec, "replay") {
        cx.rep.sample(json!({"spec": spec, "trace": trace_lines(&spec, &out)}));
    }
    cx.rep.finish(args);
}

pub fn wal_leg(args: &Args) {
    let mut cx = Ctx { rep: Report::new("C09", "wal"), shrink_budget: 600 };
    cx.rep.note("level=fault_enumeration; exhaustive=true refers ONLY to (a) every crash index 0..=n and (b) every single-fault placement (I/O call i x applicable kind) of each explored execution; bases, schedules, double and sticky faults are sampled");
    cx.rep.note("crash model = the property's: a file keeps exactly the bytes covered by the last successful fsync of that file; directory-entry durability, torn sectors and LocalWalStore are not modelled; list/open_read/exists are not counted as I/O calls");
    if let Some(p) = &args.replay {
        return replay(args, &p.clone(), cx);
    }
    let mut rng = args.rng(90);
    // 0. the instrumented store behaves like the repo's InMemoryWalStore when no fault is planned
    let (vops, vbad) = validate_store(&mut rng, args.get_u64("validate", 300));
    cx.rep.add("store_validation_ops", vops);
    cx.rep.add("store_validation_mismatches", vbad);
    if vbad > 0 {
        cx.rep.inconclusive("PlanWalStore diverges from InMemoryWalStore on fault-free sequences");
    }
    let quick_bases = 800u64;
    let default_bases = if args.thorough() { (quick_bases * 24 / args.shards.max(1) as u64).max(quick_bases) } else { quick_bases };
    let n_bases = args.get_u64("bases", default_bases);
    let n_double = args.get_u64("doubles", 40);
    let mut hist: BTreeMap<usize, u64> = BTreeMap::new();
    let (mut rot_inside, mut max_gcme) = (0u64, 0usize);
    for b in 0..n_bases {
        let base = gen_base(&mut rng, b);
        max_gcme = max_gcme.max(base.gcme);
        let Some(out0) = cx.execute(&base, "fault_free") else { continue };
        // determinism: a second fault-free run must produce the identical I/O trace
        let again = run_exec(&base);
        let same = again.log.len() == out0.log.len() && again.log.iter().zip(&out0.log).all(|(x, y)| (x.call, x.file, x.before, x.wrote) == (y.call, y.file, y.before, y.wrote));
        if !same {
            cx.rep.count("nondeterministic_bases");
            continue;
        }
        if out0.acks.iter().any(|a| !a.ok) {
            cx.rep.count("fault_free_executions_with_failed_ack");
        }
        let bs = batches(&out0, base.gcme);
        let noisy = base.writers.iter().flatten().any(|o| o.faf || o.trunc);
        cx.rep.add("bases_with_truncate_calls", base.writers.iter().flatten().any(|o| o.trunc) as u64);
        cx.rep.add("bases_with_fire_and_forget_noise", noisy as u64);
        for bt in bs.iter().filter(|_| !noisy) {
            *hist.entry(bt.size).or_insert(0) += 1;
            if bt.size > base.gcme {
                cx.rep.count("batches_detected_over_cap"); // would mean the batch reconstruction is off
            }
            rot_inside += bt.rot_inside as u64;
        }
        let mut sizes: Vec<usize> = bs.iter().map(|b| b.size).collect();
        sizes.sort();
        sizes.dedup();
        cx.rep.distinct(&("base", base.gcme, &sizes, bs.iter().map(|b| b.rot_inside.min(2)).max(), base.writers.len().min(4)));
        cx.rep.max("io_calls_per_execution", out0.log.len() as u64);
        cx.rep.max("writers", base.writers.len() as u64);
        cx.rep.max("files", out0.files.len() as u64);
        if b < 3 {
            cx.rep.sample(json!({"base": b, "spec": base, "batch_sizes": bs.iter().map(|b| b.size).collect::<Vec<_>>(),
                "rotations_inside_batches": bs.iter().map(|b| b.rot_inside).sum::<usize>(), "trace": trace_lines(&base, &out0)}));
        }
        // 1. every single-fault placement
        let mut singles: Vec<(usize, Fault)> = Vec::new();
        for (i, ev) in out0.log.iter().enumerate() {
            for &k in kinds_for(ev.call) {
                singles.push((i, k));
            }
        }
        for &(i, k) in &singles {
            let mut s = base.clone();
            s.faults = vec![(i as u64, k)];
            cx.rep.count("single_fault_placements");
            cx.rep.count(&format!("fault_kind:{:?}", k));
            let site = fault_site(&out0.log, &bs, i);
            cx.rep.distinct(&("single", base.gcme, site.0, site.1, k, site.2, site.3));
            if let Some(o) = cx.execute(&s, "single_fault") {
                if !o.log.get(i).map_or(false, |ev| ev.fault == Some(k)) {
                    cx.rep.count("planned_fault_not_hit");
                }
            }
        }
        // 2. sampled double faults (second fault placed in the trace produced by the first) and sticky faults
        for d in 0..n_double {
            if singles.is_empty() {
                break;
            }
            let (i1, k1) = singles[rng.gen_range(0..singles.len())];
            let mut s = base.clone();
            s.faults = vec![(i1 as u64, k1)];
            if d % 4 == 3 {
                // from call i1 on, the disk stays full / fsync keeps failing
                let k = if k1 == Fault::FsyncFail { Fault::FsyncFail } else { Fault::DiskFull };
                s.faults.clear();
                s.sticky = Some((i1 as u64, k));
                cx.rep.count("sticky_fault_plans");
                cx.rep.distinct(&("sticky", base.gcme, fault_site(&out0.log, &bs, i1), k));
                cx.execute(&s, "sticky_fault");
                continue;
            }
            let o1 = run_exec(&s);
            let later: Vec<(usize, Fault)> = o1.log.iter().enumerate().skip(i1 + 1).flat_map(|(i, ev)| kinds_for(ev.call).iter().map(move |&k| (i, k))).collect();
            if later.is_empty() {
                cx.rep.count("double_fault_no_later_call");
                continue;
            }
            // bias towards the calls right after the first fault (same or next batch)
            let pick = if rng.gen_bool(0.6) { rng.gen_range(0..later.len().min(12)) } else { rng.gen_range(0..later.len()) };
            let (i2, k2) = later[pick];
            s.faults.push((i2 as u64, k2));
            cx.rep.count("double_fault_plans");
            let s1 = fault_site(&out0.log, &bs, i1);
            cx.rep.distinct(&("double", base.gcme, s1.0, s1.1, k1, k2, format!("{:?}", o1.log[i2].call), (i2 - i1).min(6)));
            cx.execute(&s, "double_fault");
        }
    }
    // evidence of reach
    for (sz, n) in &hist {
        cx.rep.add(&format!("batch_size_{:02}", sz), *n);
    }
    cx.rep.add("rotations_inside_batch", rot_inside);
    cx.rep.add("bases", n_bases);
    let missing: Vec<usize> = (1..=max_gcme).filter(|k| !hist.contains_key(k)).collect();
    if hist.keys().all(|&k| k <= 1) {
        cx.rep.inconclusive("no group-commit batch with more than one entry was formed");
    } else if !missing.is_empty() {
        cx.rep.inconclusive(format!("batch sizes never formed in a fault-free execution: {:?} (group_commit_max_entries up to {})", missing, max_gcme));
    }
    if rot_inside == 0 {
        cx.rep.inconclusive("no rotation fell inside a batch");
    }
    let snapshot = cx.rep.counters.clone();
    let c = |k: &str| snapshot.get(k).cloned().unwrap_or(0);
    if c("nondeterministic_bases") > 0 || c("nondeterministic_fault_placements") > 0 || c("planned_fault_not_hit") > 0 {
        cx.rep.inconclusive("executions were not deterministic: some planned faults did not land on the intended call");
    }
    for k in ["AppendFail", "PartialFirst", "PartialMid", "PartialLast", "DiskFull", "FsyncFail", "ShortWriteIo"] {
        if c(&format!("fault_kind:{}", k)) == 0 {
            cx.rep.inconclusive(format!("fault kind {} never placed", k));
        }
    }
    if c("acks_ok") == 0 || c("acked_write_x_crash_index_checks") == 0 {
        cx.rep.inconclusive("no acknowledged write was ever checked against a crash image");
    }
    cx.rep.exhaustive = c("nondeterministic_bases") == 0 && c("planned_fault_not_hit") == 0;
    cx.rep.finish(args);
}
