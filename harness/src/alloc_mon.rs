//! Counting global allocator with thread-local measurement windows (C15 allocation bound).
use std::alloc::{GlobalAlloc, Layout, System};
use std::cell::Cell;

thread_local! {
    static ACTIVE: Cell<bool> = const { Cell::new(false) };
    static MAX_REQ: Cell<usize> = const { Cell::new(0) };
    static TOTAL_REQ: Cell<usize> = const { Cell::new(0) };
}

pub struct CountingAlloc;

#[inline]
fn note(size: usize) {
    let _ = ACTIVE.try_with(|a| {
        if a.get() {
            let _ = MAX_REQ.try_with(|m| {
                if size > m.get() {
                    m.set(size)
                }
            });
            let _ = TOTAL_REQ.try_with(|t| t.set(t.get().saturating_add(size)));
        }
    });
}

unsafe impl GlobalAlloc for CountingAlloc {
    unsafe fn alloc(&self, layout: Layout) -> *mut u8 {
        note(layout.size());
        unsafe { System.alloc(layout) }
    }
    unsafe fn dealloc(&self, ptr: *mut u8, layout: Layout) {
        unsafe { System.dealloc(ptr, layout) }
    }
    unsafe fn alloc_zeroed(&self, layout: Layout) -> *mut u8 {
        note(layout.size());
        unsafe { System.alloc_zeroed(layout) }
    }
    unsafe fn realloc(&self, ptr: *mut u8, layout: Layout, new_size: usize) -> *mut u8 {
        note(new_size);
        unsafe { System.realloc(ptr, layout, new_size) }
    }
}

/// Run `f` with allocation accounting on this thread; returns (result, max single request, total requested).
pub fn measured<T>(f: impl FnOnce() -> T) -> (T, usize, usize) {
    MAX_REQ.with(|m| m.set(0));
    TOTAL_REQ.with(|t| t.set(0));
    ACTIVE.with(|a| a.set(true));
    struct Off;
    impl Drop for Off {
        fn drop(&mut self) {
            ACTIVE.with(|a| a.set(false));
        }
    }
    let _off = Off;
    let r = f();
    ACTIVE.with(|a| a.set(false));
    (r, MAX_REQ.with(|m| m.get()), TOTAL_REQ.with(|t| t.get()))
}
