//! vh — verification harness for nerdsane/redis-rust (runtime monitors).
//! One sub-command per property leg; see /verif/DESIGN.md.
#![allow(clippy::all)]

mod alloc_mon;
mod common;
mod myresp;
mod conn;
mod gen;
mod model;

mod c01;
mod c02;
mod c03;
mod c03c;
mod c04;
mod c05;
mod c06;
mod c07;
mod c09;
mod c10;
mod c11;
mod c12;
mod c15;
mod c16;
mod c17;
mod c18;
mod c19;
mod c20;
mod e2e;

#[global_allocator]
static GLOBAL: alloc_mon::CountingAlloc = alloc_mon::CountingAlloc;

fn main() {
    let argv: Vec<String> = std::env::args().skip(1).collect();
    if argv.is_empty() {
        eprintln!("usage: vh <subcommand> [--tier quick|thorough] [--seed N] [--shard i/n] [--out path] [--replay path]");
        std::process::exit(2);
    }
    let sub = argv[0].clone();
    let args = common::Args::parse(&argv[1..]);
    common::quiet_panics();
    match sub.as_str() {
        "noop" => {}
        "wal-dump" => e2e::wal_dump(&args),
        "gossip-frames" => e2e::gossip_frames(&args),
        "dbg-dst" => {
            use redis_sim::redis::{ExecutorDSTConfig, ExecutorDSTHarness};
            let seed = args.seed;
            let cfg = if args.get_str("preset") == Some("string_heavy") { ExecutorDSTConfig::string_heavy(seed) } else { ExecutorDSTConfig::chaos(seed) };
            let mut h = ExecutorDSTHarness::new(cfg);
            h.run(args.get_u64("ops", 5000) as usize);
            for v in &h.result().invariant_violations {
                println!("{}", v);
            }
        }
        "c01-model" => c01::model_leg(&args),
        "c01-sharded" => c01::sharded_leg(&args),
        "c02-lin" => c02::lin_leg(&args),
        "c02-conn" => c02::conn_leg(&args),
        "c03-twin" => c03::twin_leg(&args),
        "c03-conn" => c03c::conn_twin_leg(&args),
        "c04-pipeline" => c04::pipeline_leg(&args),
        "c04-malformed" => c04::malformed_leg(&args),
        "c04-reuse" => c04::reuse_leg(&args),
        "c05-txn" => c05::txn_leg(&args),
        "c05-atomic" => c05::atomic_leg(&args),
        "c05-exec" => c05::exec_leg(&args),
        "c17-unchanged" => c17::leg(&args),
        "c06-converge" => c06::converge_leg(&args),
        "c07-laws" => c07::laws_leg(&args),
        "c20-dump" => c20::dump_cmd(&args),
        "c20-repro" => c20::repro_leg(&args),
        "c20-small" => c20::small_leg(&args),
        "c16-parsers" => c16::parsers_leg(&args),
        "c16-script" => c16::script_leg(&args),
        "c18-digest" => c18::digest_leg(&args),
        "c18-sync" => c18::sync_leg(&args),
        "c09-wal" => c09::wal_leg(&args),
        "c11-recover" => c11::recover_leg(&args),
        "c08-stamps" => c11::stamps_leg(&args),
        "c12-crash" => c12::crash_leg(&args),
        "c13-compact" => c12::compact_leg(&args),
        "c10-wal" => c10::wal_leg(&args),
        "c14-codec" => c10::codec_leg(&args),
        "c19-place" => c19::place_leg(&args),
        "c19-tcp" => c19::tcp_leg(&args),
        "c15-parse" => c15::parse_leg(&args),
        "c15-frag" => c15::frag_leg(&args),
        "c15-reply" => c15::reply_leg(&args),
        "c15-huge" => c15::huge_leg(&args),
        _ => {
            eprintln!("unknown sub-command {}", sub);
            std::process::exit(2);
        }
    }
}
