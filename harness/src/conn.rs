//! ScriptedStream: an AsyncRead+AsyncWrite whose read segmentation is chosen by the test,
//! plus a controller that knows when the connection handler has gone back to waiting for input.
#![allow(dead_code)]

use redis_sim::production::verif_hooks;
use redis_sim::production::{ConnectionConfig, ShardedActorState};
use std::collections::VecDeque;
use std::pin::Pin;
use std::sync::{Arc, Mutex};
use std::task::{Context, Poll, Waker};
use tokio::io::{AsyncRead, AsyncWrite, ReadBuf};

#[derive(Default)]
struct Shared {
    inbox: VecDeque<Vec<u8>>,
    eof: bool,
    out: Vec<u8>,
    reader_waker: Option<Waker>,
    idle: bool,
    reads: u64,
    writes: Vec<usize>,
    flushes: u64,
    closed_by_server: bool,
    /// client-side waker: woken on every write, on going idle and on close (multi-thread legs)
    client_waker: Option<Waker>,
    gen: u64,
    /// at most this many bytes are accepted per poll_write (0 = everything): what a socket with a nearly full send buffer does
    write_cap: usize,
    /// every n-th poll_write returns Pending once (after waking itself), 0 = never
    write_pend_every: usize,
    write_calls: usize,
}

static DEFAULT_WRITE_CAP: std::sync::atomic::AtomicUsize = std::sync::atomic::AtomicUsize::new(0);
static DEFAULT_WRITE_PEND: std::sync::atomic::AtomicUsize = std::sync::atomic::AtomicUsize::new(0);

/// Write-side behaviour of every ScriptedStream created from now on (partial writes / spurious Pending).
pub fn set_default_write_mode(cap: usize, pend_every: usize) {
    DEFAULT_WRITE_CAP.store(cap, std::sync::atomic::Ordering::SeqCst);
    DEFAULT_WRITE_PEND.store(pend_every, std::sync::atomic::Ordering::SeqCst);
}

pub struct ScriptedStream(Arc<Mutex<Shared>>);

#[derive(Clone)]
pub struct Controller(Arc<Mutex<Shared>>);

impl Drop for ScriptedStream {
    fn drop(&mut self) {
        let mut s = self.0.lock().unwrap();
        s.closed_by_server = true;
        s.idle = true;
        s.gen += 1;
        if let Some(w) = s.client_waker.take() {
            w.wake();
        }
    }
}

impl AsyncRead for ScriptedStream {
    fn poll_read(self: Pin<&mut Self>, cx: &mut Context<'_>, buf: &mut ReadBuf<'_>) -> Poll<std::io::Result<()>> {
        let mut s = self.0.lock().unwrap();
        if let Some(mut chunk) = s.inbox.pop_front() {
            let n = chunk.len().min(buf.remaining());
            buf.put_slice(&chunk[..n]);
            if n < chunk.len() {
                let rest = chunk.split_off(n);
                s.inbox.push_front(rest);
            }
            s.idle = false;
            s.reads += 1;
            return Poll::Ready(Ok(()));
        }
        if s.eof {
            return Poll::Ready(Ok(()));
        }
        s.reader_waker = Some(cx.waker().clone());
        s.idle = true;
        s.gen += 1;
        if let Some(w) = s.client_waker.take() {
            w.wake();
        }
        Poll::Pending
    }
}

impl AsyncWrite for ScriptedStream {
    fn poll_write(self: Pin<&mut Self>, cx: &mut Context<'_>, data: &[u8]) -> Poll<std::io::Result<usize>> {
        let mut s = self.0.lock().unwrap();
        s.write_calls += 1;
        if s.write_pend_every > 0 && s.write_calls % s.write_pend_every == 0 {
            cx.waker().wake_by_ref();
            return Poll::Pending;
        }
        let data = if s.write_cap > 0 && data.len() > s.write_cap { &data[..s.write_cap] } else { data };
        s.out.extend_from_slice(data);
        s.writes.push(data.len());
        s.gen += 1;
        if let Some(w) = s.client_waker.take() {
            w.wake();
        }
        Poll::Ready(Ok(data.len()))
    }
    fn poll_flush(self: Pin<&mut Self>, _cx: &mut Context<'_>) -> Poll<std::io::Result<()>> {
        self.0.lock().unwrap().flushes += 1;
        Poll::Ready(Ok(()))
    }
    fn poll_shutdown(self: Pin<&mut Self>, _cx: &mut Context<'_>) -> Poll<std::io::Result<()>> {
        Poll::Ready(Ok(()))
    }
}

pub fn scripted() -> (ScriptedStream, Controller) {
    let mut sh0 = Shared::default();
    sh0.write_cap = DEFAULT_WRITE_CAP.load(std::sync::atomic::Ordering::SeqCst);
    sh0.write_pend_every = DEFAULT_WRITE_PEND.load(std::sync::atomic::Ordering::SeqCst);
    let sh = Arc::new(Mutex::new(sh0));
    (ScriptedStream(sh.clone()), Controller(sh))
}

#[derive(Debug, Clone, PartialEq, Eq)]
pub enum WaitErr {
    /// the handler did not return to reading within the step budget
    Hang,
}

impl Controller {
    pub fn send(&self, chunk: &[u8]) {
        if chunk.is_empty() {
            return;
        }
        let w = {
            let mut s = self.0.lock().unwrap();
            s.inbox.push_back(chunk.to_vec());
            s.idle = false;
            s.reader_waker.take()
        };
        if let Some(w) = w {
            w.wake();
        }
    }
    pub fn close(&self) {
        let w = {
            let mut s = self.0.lock().unwrap();
            s.eof = true;
            s.idle = false;
            s.reader_waker.take()
        };
        if let Some(w) = w {
            w.wake();
        }
    }
    pub fn is_idle(&self) -> bool {
        let s = self.0.lock().unwrap();
        (s.idle && s.inbox.is_empty()) || s.closed_by_server
    }
    pub fn server_closed(&self) -> bool {
        self.0.lock().unwrap().closed_by_server
    }
    /// Wait (in scheduler steps, not wall-clock) until the handler is parked on an empty read.
    pub async fn wait_idle(&self, max_steps: u64) -> Result<u64, WaitErr> {
        let mut steps = 0u64;
        loop {
            if self.is_idle() {
                return Ok(steps);
            }
            tokio::task::yield_now().await;
            steps += 1;
            if steps > max_steps {
                return Err(WaitErr::Hang);
            }
        }
    }
    /// Resolves when the server side has written something, gone idle or closed since the call
    /// (no polling loop: the stream wakes the registered client waker).
    pub fn changed(&self, since: u64) -> Changed {
        Changed(self.0.clone(), since)
    }
    /// generation counter of server-side events; read it *before* inspecting the output
    pub fn gen(&self) -> u64 {
        self.0.lock().unwrap().gen
    }
    pub fn take_output(&self) -> Vec<u8> {
        std::mem::take(&mut self.0.lock().unwrap().out)
    }
    pub fn peek_output_len(&self) -> usize {
        self.0.lock().unwrap().out.len()
    }
    pub fn stats(&self) -> (u64, usize, u64) {
        let s = self.0.lock().unwrap();
        (s.reads, s.writes.len(), s.flushes)
    }
}

pub struct Changed(Arc<Mutex<Shared>>, u64);
impl std::future::Future for Changed {
    type Output = ();
    fn poll(self: Pin<&mut Self>, cx: &mut Context<'_>) -> Poll<()> {
        let mut s = self.0.lock().unwrap();
        if s.gen != self.1 {
            return Poll::Ready(());
        }
        s.client_waker = Some(cx.waker().clone());
        Poll::Pending
    }
}

/// Spawn the production connection handler (H1) over a scripted stream.
pub fn spawn_conn(state: ShardedActorState, cfg: ConnectionConfig) -> (Controller, tokio::task::JoinHandle<()>) {
    let (stream, ctl) = scripted();
    let h = tokio::spawn(async move {
        verif_hooks::run_connection(stream, state, cfg).await;
    });
    (ctl, h)
}

pub const STEP_BUDGET: u64 = 200_000;
