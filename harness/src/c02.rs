//! C02 — concurrent clients see a linearizable per-key history.
//! Real ShardedActorState on a multi-thread runtime, N client tasks on a few keys, every entry
//! path, tiny response pool, seeded pauses at the H2 hand-off sites, cancelled calls.
//! The recorded history is partitioned by key and checked with Wing–Gong/Lowe search + memo.
use crate::common::*;
use crate::myresp::{self, Tree};
use bytes::Bytes;
use rand::Rng as _;
use redis_sim::production::verif_hooks;
use redis_sim::production::{PerformanceConfig, ShardedActorState};
use redis_sim::redis::{Command, SDS};
use serde_json::{json, Value};
use std::collections::{HashMap, HashSet, VecDeque};
use std::sync::atomic::{AtomicU64, Ordering};
use std::sync::{Arc, Mutex};

static CLOCK: AtomicU64 = AtomicU64::new(1);
fn stamp() -> u64 {
    CLOCK.fetch_add(1, Ordering::SeqCst)
}

static PAUSE_SEED: AtomicU64 = AtomicU64::new(0);
static PAUSE_CTR: AtomicU64 = AtomicU64::new(0);

/// H2 callback: synchronous yield / spin / micro-sleep of the worker thread (what OS preemption
/// can do anywhere); never an added await.
fn pause_cb(site: usize) {
    let n = PAUSE_CTR.fetch_add(1, Ordering::Relaxed);
    let h = h64(&(PAUSE_SEED.load(Ordering::Relaxed), n, site));
    match h % 16 {
        0 | 1 => std::thread::yield_now(),
        2 => {
            for _ in 0..(h >> 8) % 2000 {
                std::hint::spin_loop();
            }
        }
        3 => std::thread::sleep(std::time::Duration::from_micros((h >> 12) % 50)),
        _ => {}
    }
}

#[derive(Clone, Debug, PartialEq, Eq, Hash)]
pub enum OpKind {
    Get,
    Set(Vec<u8>),
    GetSet(Vec<u8>),
    SetNx(Vec<u8>),
    Del,
    Incr,
    Append(Vec<u8>),
    LPush(Vec<u8>),
    LPop,
    LLen,
    /// EVAL: atomically read the value and write a new one (script = GETSET)
    EvalSwap(Vec<u8>),
}

#[derive(Clone, Debug, PartialEq, Eq, Hash)]
pub enum Via {
    Generic,
    Fast,
    Pooled,
    Batch,
}

#[derive(Clone, Debug)]
pub struct Rec {
    pub client: usize,
    pub key: usize,
    pub op: OpKind,
    pub via: Via,
    pub call: u64,
    /// None = never returned (cancelled): stays open to the end of the history
    pub ret: Option<(u64, Tree)>,
}

#[derive(Clone, Debug, PartialEq, Eq, Hash)]
pub enum KeyState {
    Nil,
    Str(Vec<u8>),
    List(VecDeque<Vec<u8>>),
}

fn wrongtype() -> Tree {
    Tree::Error(b"WRONGTYPE".to_vec())
}

fn norm(t: &Tree) -> Tree {
    match t {
        Tree::Error(e) if e.starts_with(b"WRONGTYPE") => wrongtype(),
        Tree::Error(e) => Tree::Error(e.split(|c| *c == b' ').next().unwrap_or(b"").to_vec()),
        o => o.clone(),
    }
}

/// Sequential specification of one key.
pub fn apply(st: &KeyState, op: &OpKind) -> (KeyState, Tree) {
    let bulk = |b: &Vec<u8>| Tree::Bulk(Some(b.clone()));
    let ok = Tree::Simple(b"OK".to_vec());
    match (op, st) {
        (OpKind::Get, KeyState::Nil) => (st.clone(), Tree::Bulk(None)),
        (OpKind::Get, KeyState::Str(s)) => (st.clone(), bulk(s)),
        (OpKind::Get, KeyState::List(_)) => (st.clone(), wrongtype()),
        (OpKind::Set(v), _) => (KeyState::Str(v.clone()), ok),
        (OpKind::GetSet(v), KeyState::Nil) | (OpKind::EvalSwap(v), KeyState::Nil) => (KeyState::Str(v.clone()), Tree::Bulk(None)),
        (OpKind::GetSet(v), KeyState::Str(s)) | (OpKind::EvalSwap(v), KeyState::Str(s)) => (KeyState::Str(v.clone()), bulk(s)),
        (OpKind::GetSet(_), KeyState::List(_)) => (st.clone(), wrongtype()),
        (OpKind::EvalSwap(_), KeyState::List(_)) => (st.clone(), Tree::Error(b"ERR".to_vec())),
        (OpKind::SetNx(v), KeyState::Nil) => (KeyState::Str(v.clone()), Tree::Int(1)),
        (OpKind::SetNx(_), _) => (st.clone(), Tree::Int(0)),
        (OpKind::Del, KeyState::Nil) => (KeyState::Nil, Tree::Int(0)),
        (OpKind::Del, _) => (KeyState::Nil, Tree::Int(1)),
        (OpKind::Incr, KeyState::Nil) => (KeyState::Str(b"1".to_vec()), Tree::Int(1)),
        (OpKind::Incr, KeyState::Str(s)) => match std::str::from_utf8(s).ok().and_then(|x| x.parse::<i64>().ok()).filter(|n| n.to_string().as_bytes() == &s[..]) {
            Some(n) => (KeyState::Str((n + 1).to_string().into_bytes()), Tree::Int(n + 1)),
            None => (st.clone(), Tree::Error(b"ERR".to_vec())),
        },
        (OpKind::Incr, KeyState::List(_)) => (st.clone(), wrongtype()),
        (OpKind::Append(v), KeyState::Nil) => (KeyState::Str(v.clone()), Tree::Int(v.len() as i64)),
        (OpKind::Append(v), KeyState::Str(s)) => {
            let mut n = s.clone();
            n.extend_from_slice(v);
            let l = n.len() as i64;
            (KeyState::Str(n), Tree::Int(l))
        }
        (OpKind::Append(_), KeyState::List(_)) => (st.clone(), wrongtype()),
        (OpKind::LPush(v), KeyState::Nil) => (KeyState::List(VecDeque::from(vec![v.clone()])), Tree::Int(1)),
        (OpKind::LPush(v), KeyState::List(l)) => {
            let mut n = l.clone();
            n.push_front(v.clone());
            let len = n.len() as i64;
            (KeyState::List(n), Tree::Int(len))
        }
        (OpKind::LPush(_), KeyState::Str(_)) => (st.clone(), wrongtype()),
        (OpKind::LPop, KeyState::Nil) => (KeyState::Nil, Tree::Bulk(None)),
        (OpKind::LPop, KeyState::List(l)) => {
            let mut n = l.clone();
            let v = n.pop_front();
            let ns = if n.is_empty() { KeyState::Nil } else { KeyState::List(n) };
            (ns, v.map(|x| Tree::Bulk(Some(x))).unwrap_or(Tree::Bulk(None)))
        }
        (OpKind::LPop, KeyState::Str(_)) => (st.clone(), wrongtype()),
        (OpKind::LLen, KeyState::Nil) => (KeyState::Nil, Tree::Int(0)),
        (OpKind::LLen, KeyState::List(l)) => (st.clone(), Tree::Int(l.len() as i64)),
        (OpKind::LLen, KeyState::Str(_)) => (st.clone(), wrongtype()),
    }
}

#[derive(Debug, PartialEq, Eq)]
pub enum Verdict {
    Linearizable(Vec<usize>),
    NotLinearizable,
    Timeout,
}

/// Wing–Gong search with memoisation on (linearized set, state) for one key's sub-history.
pub fn check_key(ops: &[Rec], budget: u64) -> Verdict {
    let n = ops.len();
    if n > 63 {
        return Verdict::Timeout;
    }
    let full: u64 = if n == 64 { u64::MAX } else { (1u64 << n) - 1 };
    let rets: Vec<u64> = ops.iter().map(|o| o.ret.as_ref().map(|r| r.0).unwrap_or(u64::MAX)).collect();
    let mut memo: HashSet<(u64, KeyState)> = HashSet::new();
    let mut steps = 0u64;
    // iterative DFS: stack of (mask, state, order, next candidate index)
    let mut stack: Vec<(u64, KeyState, Vec<usize>, usize)> = vec![(0, KeyState::Nil, vec![], 0)];
    while let Some((mask, st, order, start)) = stack.pop() {
        // done when every *returned* op is linearized (pending ops may never take effect)
        let returned_done = (0..n).all(|i| mask & (1 << i) != 0 || ops[i].ret.is_none());
        if returned_done {
            return Verdict::Linearizable(order);
        }
        let _ = full;
        // the earliest return among unlinearized ops bounds which ops may go next
        let min_ret = (0..n).filter(|i| mask & (1 << i) == 0).map(|i| rets[i]).min().unwrap_or(u64::MAX);
        let mut i = start;
        let mut pushed = false;
        while i < n {
            steps += 1;
            if steps > budget {
                return Verdict::Timeout;
            }
            if mask & (1 << i) == 0 && ops[i].call < min_ret {
                let (ns, res) = apply(&st, &ops[i].op);
                let ok = match &ops[i].ret {
                    None => true,
                    Some((_, got)) => norm(got) == res,
                };
                if ok {
                    let nm = mask | (1 << i);
                    if memo.insert((nm, ns.clone())) {
                        // resume this frame later at i+1, descend now
                        stack.push((mask, st.clone(), order.clone(), i + 1));
                        let mut no = order.clone();
                        no.push(i);
                        stack.push((nm, ns, no, 0));
                        pushed = true;
                        break;
                    }
                }
            }
            i += 1;
        }
        let _ = pushed;
    }
    Verdict::NotLinearizable
}

fn op_json(r: &Rec) -> Value {
    json!({"client": r.client, "key": r.key, "op": format!("{:?}", r.op), "via": format!("{:?}", r.via), "call": r.call,
        "ret": r.ret.as_ref().map(|(t, v)| json!({"t": t, "reply": myresp::show(v)}))})
}

fn parse_opkind(s: &str) -> OpKind {
    // Debug rendering round trip for replay: "Set([97, 98])"
    let arg = |s: &str| -> Vec<u8> {
        let inner = s.split('[').nth(1).and_then(|x| x.split(']').next()).unwrap_or("");
        inner.split(',').filter_map(|x| x.trim().parse::<u8>().ok()).collect()
    };
    if s.starts_with("GetSet") {
        OpKind::GetSet(arg(s))
    } else if s.starts_with("Get") {
        OpKind::Get
    } else if s.starts_with("SetNx") {
        OpKind::SetNx(arg(s))
    } else if s.starts_with("Set") {
        OpKind::Set(arg(s))
    } else if s.starts_with("Del") {
        OpKind::Del
    } else if s.starts_with("Incr") {
        OpKind::Incr
    } else if s.starts_with("Append") {
        OpKind::Append(arg(s))
    } else if s.starts_with("LPush") {
        OpKind::LPush(arg(s))
    } else if s.starts_with("LPop") {
        OpKind::LPop
    } else if s.starts_with("LLen") {
        OpKind::LLen
    } else {
        OpKind::EvalSwap(arg(s))
    }
}

fn tree_from(v: &Value) -> Tree {
    match v {
        Value::Null => Tree::Bulk(None),
        Value::Number(n) => Tree::Int(n.as_i64().unwrap_or(0)),
        Value::String(s) => Tree::Bulk(Some(unlossy(s))),
        Value::Object(o) => {
            if let Some(s) = o.get("+") {
                Tree::Simple(unlossy(s.as_str().unwrap_or("")))
            } else if let Some(s) = o.get("-") {
                Tree::Error(unlossy(s.as_str().unwrap_or("")))
            } else {
                Tree::Arr(None)
            }
        }
        Value::Array(a) => Tree::Arr(Some(a.iter().map(tree_from).collect())),
        _ => Tree::Bulk(None),
    }
}

const SWAP_SCRIPT: &str = "local v = redis.call('GET', KEYS[1]); redis.call('SET', KEYS[1], ARGV[1]); return v";

async fn do_op(st: &ShardedActorState, key: &str, op: &OpKind, via: &Via) -> Tree {
    let kb = Bytes::copy_from_slice(key.as_bytes());
    let r = match (op, via) {
        (OpKind::Get, Via::Fast) => st.fast_get(kb).await,
        (OpKind::Get, Via::Pooled) => st.pooled_fast_get(kb).await,
        (OpKind::Get, Via::Batch) => st.fast_batch_get_pipeline(vec![kb]).await.into_iter().next().unwrap(),
        (OpKind::Set(v), Via::Fast) => st.fast_set(kb, Bytes::copy_from_slice(v)).await,
        (OpKind::Set(v), Via::Pooled) => st.pooled_fast_set(kb, Bytes::copy_from_slice(v)).await,
        (OpKind::Set(v), Via::Batch) => st.fast_batch_set_pipeline(vec![(kb, Bytes::copy_from_slice(v))]).await.into_iter().next().unwrap(),
        _ => {
            let k = key.to_string();
            let cmd = match op {
                OpKind::Get => Command::Get(k),
                OpKind::Set(v) => Command::set(k, SDS::new(v.clone())),
                OpKind::GetSet(v) => Command::GetSet(k, SDS::new(v.clone())),
                OpKind::SetNx(v) => Command::SetNx(k, SDS::new(v.clone())),
                OpKind::Del => Command::Del(vec![k]),
                OpKind::Incr => Command::Incr(k),
                OpKind::Append(v) => Command::Append(k, SDS::new(v.clone())),
                OpKind::LPush(v) => Command::LPush(k, vec![SDS::new(v.clone())]),
                OpKind::LPop => Command::LPop(k),
                OpKind::LLen => Command::LLen(k),
                OpKind::EvalSwap(v) => Command::Eval { script: SWAP_SCRIPT.to_string(), keys: vec![k], args: vec![SDS::new(v.clone())] },
            };
            st.execute(&cmd).await
        }
    };
    myresp::from_resp(&r)
}

struct HistCfg {
    shards: usize,
    clients: usize,
    keys: usize,
    ops_per_client: usize,
    pool: usize,
    cancel: bool,
    lua: bool,
}

fn gen_op(rng: &mut Rng, client: usize, ctr: &mut u32, key: usize, lua: bool) -> (OpKind, Via) {
    *ctr += 1;
    let uniq = format!("c{}v{}", client, ctr).into_bytes();
    // key 0..: key index parity decides the family so that types collide only sometimes
    let list_key = key % 3 == 2;
    let via = [Via::Generic, Via::Fast, Via::Pooled, Via::Batch][rng.gen_range(0..4)].clone();
    if list_key {
        match rng.gen_range(0..10) {
            0..=3 => (OpKind::LPush(uniq), Via::Generic),
            4..=6 => (OpKind::LPop, Via::Generic),
            7 => (OpKind::LLen, Via::Generic),
            8 => (OpKind::Del, Via::Generic),
            _ => (OpKind::Get, via),
        }
    } else {
        match rng.gen_range(0..20) {
            0..=4 => (OpKind::Get, via),
            5..=8 => (OpKind::Set(uniq), via),
            9 | 10 => (OpKind::Incr, Via::Generic),
            11 | 12 => (OpKind::Append(uniq), Via::Generic),
            13 => (OpKind::Del, Via::Generic),
            14 => (OpKind::GetSet(uniq), Via::Generic),
            15 => (OpKind::SetNx(uniq), Via::Generic),
            16 if lua => (OpKind::EvalSwap(uniq), Via::Generic),
            17 => (OpKind::LPush(uniq), Via::Generic),
            _ => (OpKind::Get, Via::Generic),
        }
    }
}

async fn run_history(cfg: &HistCfg, seed: u64) -> Vec<Rec> {
    let mut pc: PerformanceConfig = toml_default();
    pc.num_shards = cfg.shards;
    pc.response_pool.capacity = cfg.pool.max(1);
    pc.response_pool.prewarm = cfg.pool.min(pc.response_pool.capacity);
    let st = ShardedActorState::with_perf_config(&pc);
    let log: Arc<Mutex<Vec<Rec>>> = Arc::new(Mutex::new(vec![]));
    let mut hs = vec![];
    for c in 0..cfg.clients {
        let st = st.clone();
        let log = log.clone();
        let (keys, n, cancel, lua) = (cfg.keys, cfg.ops_per_client, cfg.cancel, cfg.lua);
        hs.push(tokio::spawn(async move {
            let mut rng = rng_from(seed, c as u64 + 1);
            let mut ctr = 0u32;
            for _ in 0..n {
                let key = rng.gen_range(0..keys);
                let kname = format!("lk{}", key);
                let (op, via) = gen_op(&mut rng, c, &mut ctr, key, lua);
                let call = stamp();
                let fut = do_op(&st, &kname, &op, &via);
                let res = if cancel && rng.gen_bool(0.08) {
                    // abandon the call after a few scheduler turns: it may or may not take effect
                    let turns = rng.gen_range(0..3);
                    tokio::select! {
                        biased;
                        r = fut => Some(r),
                        _ = async { for _ in 0..turns { tokio::task::yield_now().await; } } => None,
                    }
                } else {
                    Some(fut.await)
                };
                let ret = res.map(|r| (stamp(), r));
                log.lock().unwrap().push(Rec { client: c, key, op, via, call, ret });
                if rng.gen_bool(0.2) {
                    tokio::task::yield_now().await;
                }
            }
        }));
    }
    for h in hs {
        let _ = h.await;
    }
    let v = log.lock().unwrap().clone();
    v
}

fn toml_default() -> PerformanceConfig {
    // PerformanceConfig only implements Deserialize: an empty document yields all defaults
    serde_json::from_str::<PerformanceConfig>("{}").expect("default perf config")
}

/// Judge a whole history; pushes violations / counters into the report. Returns overlapping pairs.
fn judge(rep: &mut Report, hist: &[Rec], cfg_json: &Value) {
    let mut by_key: HashMap<usize, Vec<Rec>> = HashMap::new();
    for r in hist {
        by_key.entry(r.key).or_default().push(r.clone());
    }
    // every value read must have been written to that key (unique values make this immediate)
    for (k, ops) in &by_key {
        let written: HashSet<Vec<u8>> = ops
            .iter()
            .filter_map(|o| match &o.op {
                OpKind::Set(v) | OpKind::GetSet(v) | OpKind::SetNx(v) | OpKind::LPush(v) | OpKind::EvalSwap(v) => Some(v.clone()),
                _ => None,
            })
            .collect();
        for o in ops {
            if let (OpKind::LPop, Some((_, Tree::Bulk(Some(v))))) = (&o.op, &o.ret) {
                if !written.contains(v) {
                    rep.violation(
                        format!("C02|foreign-value|op=LPop|via={:?}", o.via),
                        format!("key lk{}: LPOP returned {:?}, which was never pushed to this key (a reply delivered to the wrong requester?)", k, lossy(v)),
                        json!({"cfg": cfg_json, "history": ops.iter().map(op_json).collect::<Vec<_>>()}),
                    );
                }
            }
        }
    }
    for (k, ops) in by_key.iter_mut() {
        ops.sort_by_key(|o| o.call);
        let mut overl = 0u64;
        for i in 0..ops.len() {
            for j in i + 1..ops.len() {
                let ri = ops[i].ret.as_ref().map(|r| r.0).unwrap_or(u64::MAX);
                if ops[j].call < ri && ops[i].client != ops[j].client {
                    overl += 1;
                }
            }
        }
        rep.add("overlapping_pairs", overl);
        rep.add("ops", ops.len() as u64);
        for o in ops.iter() {
            rep.count(&format!("via:{:?}", o.via));
            if o.ret.is_none() {
                rep.count("cancelled_calls");
            }
        }
        match check_key(ops, 3_000_000) {
            Verdict::Linearizable(order) => {
                if overl > 0 {
                    rep.distinct(&order.iter().map(|&i| (ops[i].client, format!("{:?}", std::mem::discriminant(&ops[i].op)))).collect::<Vec<_>>());
                }
                rep.count("keys_linearizable");
            }
            Verdict::Timeout => {
                rep.count("checker_timeouts");
            }
            Verdict::NotLinearizable => {
                // class: which op kinds / paths are involved around the first unexplainable reply
                let mut kinds: Vec<String> = ops.iter().map(|o| format!("{:?}", std::mem::discriminant(&o.op))).collect();
                kinds.sort();
                kinds.dedup();
                let mut vias: Vec<String> = ops.iter().map(|o| format!("{:?}", o.via)).collect();
                vias.sort();
                vias.dedup();
                let cancelled = ops.iter().any(|o| o.ret.is_none());
                rep.violation(
                    format!("C02|not-linearizable|paths={}|cancelled={}", vias.join("+"), cancelled),
                    format!("key lk{}: no linearization of {} operations by {} clients respects real time", k, ops.len(), ops.iter().map(|o| o.client).collect::<HashSet<_>>().len()),
                    json!({"cfg": cfg_json, "history": ops.iter().map(op_json).collect::<Vec<_>>()}),
                );
            }
        }
    }
}

pub fn lin_leg(args: &Args) {
    let mut rep = Report::new("C02", "linearizability");
    if let Some(p) = &args.replay {
        let w: Value = serde_json::from_str(&std::fs::read_to_string(p).expect("replay")).expect("json");
        let hist: Vec<Rec> = w["witness"]["history"]
            .as_array()
            .unwrap()
            .iter()
            .map(|o| Rec {
                client: o["client"].as_u64().unwrap_or(0) as usize,
                key: o["key"].as_u64().unwrap_or(0) as usize,
                op: parse_opkind(o["op"].as_str().unwrap_or("Get")),
                via: Via::Generic,
                call: o["call"].as_u64().unwrap_or(0),
                ret: if o["ret"].is_null() { None } else { Some((o["ret"]["t"].as_u64().unwrap_or(0), tree_from(&o["ret"]["reply"]))) },
            })
            .collect();
        rep.evaluations += 1;
        judge(&mut rep, &hist, &w["witness"]["cfg"]);
        rep.note("replay re-judges the recorded history offline (schedules are not replayable by seed)");
        rep.finish(args);
        return;
    }
    let lua = cfg!(feature = "lua");
    let small = args.get_u64("small", 0) == 1; // Miri-sized run
    let n = args.get_u64("histories", if small { 2 } else if args.thorough() { 6000 } else { 600 });
    verif_hooks::set_pause(Some(pause_cb));
    let hits0 = verif_hooks::site_hits();
    let mut rng = args.rng(2);
    for h in 0..n {
        let workers = if small { 2 } else { [2usize, 4, 8][rng.gen_range(0..3)] };
        let cfg = HistCfg {
            shards: [1usize, 2, 4, 16][rng.gen_range(0..4)],
            clients: if small { 3 } else { rng.gen_range(2..9) },
            keys: rng.gen_range(1..5),
            ops_per_client: 0,
            pool: rng.gen_range(1..3),
            cancel: rng.gen_bool(0.5),
            lua,
        };
        // keep every key's sub-history within the checker's 63-operation window
        let mut cfg = cfg;
        cfg.ops_per_client = if small { 6 } else { rng.gen_range(6..24).min(60 * cfg.keys / cfg.clients).max(3) };
        PAUSE_SEED.store(h64(&(args.seed, args.shard, h)), Ordering::Relaxed);
        let rt = tokio::runtime::Builder::new_multi_thread().worker_threads(workers).enable_all().build().unwrap();
        let seed = h64(&(args.seed, args.shard as u64, h, 77u8));
        let hist = rt.block_on(run_history(&cfg, seed));
        drop(rt);
        rep.evaluations += 1;
        let cj = json!({"shards": cfg.shards, "clients": cfg.clients, "keys": cfg.keys, "ops_per_client": cfg.ops_per_client, "pool": cfg.pool, "cancel": cfg.cancel, "workers": workers});
        judge(&mut rep, &hist, &cj);
        rep.count(&format!("shards:{}", cfg.shards));
        if h < 2 {
            rep.sample(json!({"cfg": cj, "first_ops": hist.iter().take(6).map(op_json).collect::<Vec<_>>()}));
        }
    }
    verif_hooks::set_pause(None);
    let hits1 = verif_hooks::site_hits();
    let names = ["exec_sent", "exec_done", "pooled_sent", "pooled_done", "actor_reply", "pool_release", "fast_sent"];
    for (i, nme) in names.iter().enumerate() {
        rep.add(&format!("h2:{}", nme), hits1[i] - hits0[i]);
    }
    if rep.counters.get("overlapping_pairs").copied().unwrap_or(0) == 0 {
        rep.inconclusive("no two operations of different clients overlapped in time");
    }
    if let Some(t) = rep.counters.get("checker_timeouts") {
        if *t * 10 > rep.evaluations {
            rep.inconclusive("the linearizability checker timed out on more than 10% of the key histories");
        }
    }
    rep.finish(args);
}
