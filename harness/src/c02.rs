//! C02 — concurrent clients see a linearizable per-key history.
//! Real ShardedActorState on a multi-thread runtime, N client tasks on a few keys, every entry
//! path, tiny response pool, seeded pauses at the H2 hand-off sites, cancelled calls.
//! The recorded history is partitioned by key and checked with Wing–Gong/Lowe search + memo.
use crate::common::*;
use crate::myresp::{self, Tree};
use bytes::Bytes;
use rand::Rng as _;
use redis_sim::production::verif_hooks;
use redis_sim::production::{PerformanceConfig, ShardedActorState};
use redis_sim::redis::{Command, SDS};
use serde_json::{json, Value};
use std::collections::{HashMap, HashSet, VecDeque};
use std::sync::atomic::{AtomicU64, Ordering};
use std::sync::{Arc, Mutex};

static CLOCK: AtomicU64 = AtomicU64::new(1);
static SWEEPS: AtomicU64 = AtomicU64::new(0);
static TTL_MANAGER_TICKS: AtomicU64 = AtomicU64::new(0);
fn stamp() -> u64 {
    CLOCK.fetch_add(1, Ordering::SeqCst)
}

static PAUSE_SEED: AtomicU64 = AtomicU64::new(0);
static PAUSE_CTR: AtomicU64 = AtomicU64::new(0);

/// H2 callback: synchronous yield / spin / micro-sleep of the worker thread (what OS preemption
/// can do anywhere); never an added await.
fn pause_cb(site: usize) {
    let n = PAUSE_CTR.fetch_add(1, Ordering::Relaxed);
    let h = h64(&(PAUSE_SEED.load(Ordering::Relaxed), n, site));
    match h % 16 {
        0 | 1 => std::thread::yield_now(),
        2 => {
            for _ in 0..(h >> 8) % 2000 {
                std::hint::spin_loop();
            }
        }
        3 => std::thread::sleep(std::time::Duration::from_micros((h >> 12) % 50)),
        _ => {}
    }
}

#[derive(Clone, Debug, PartialEq, Eq, Hash)]
pub enum OpKind {
    Get,
    Set(Vec<u8>),
    GetSet(Vec<u8>),
    SetNx(Vec<u8>),
    Del,
    Incr,
    Append(Vec<u8>),
    LPush(Vec<u8>),
    LPop,
    LLen,
    /// EVAL: atomically read the value and write a new one (script = GETSET)
    EvalSwap(Vec<u8>),
    /// SET k v NX / XX / GET through the generic path (option flags must survive whatever route the command takes)
    SetOptNx(Vec<u8>),
    SetOptXx(Vec<u8>),
    SetOptGet(Vec<u8>),
    /// one element of an MGET reply (nil for a missing key and for a key that is not a string)
    MGetElem,
    /// EVAL of a read script that keeps its result in a *global* Lua variable assigned only when the key exists: every
    /// script run starts from a clean interpreter state, so for a missing key it answers nil - never what an earlier
    /// run (of any client, on any key) left behind
    EvalGlobalGet,
    /// SET k v PX 1..3: the value may vanish at any later instant (production clock)
    SetPxShort(Vec<u8>),
    /// SET k v PX 600000: a deadline that never arrives during a history - but the key now *has* one, so the
    /// expiry machinery (lazy checks, the TTL sweep running beside the clients) looks at it
    SetPxLong(Vec<u8>),
    /// GETDEL: read and remove in one step
    GetDel,
    /// LRANGE k 0 -1: the whole list as it is at one instant
    LRangeAll,
    /// RPUSH k e0 .. e(n-1) by the preliminary client: a list long enough that nothing reads it in one small piece
    RPushMany(u32),
}

#[derive(Clone, Debug, PartialEq, Eq, Hash)]
pub enum Via {
    Generic,
    Fast,
    Pooled,
    Batch,
    /// through the production connection handler (H1), RESP frames on a scripted stream
    Conn,
}

#[derive(Clone, Debug)]
pub struct Rec {
    pub client: usize,
    pub key: usize,
    pub op: OpKind,
    pub via: Via,
    pub call: u64,
    /// None = never returned (cancelled): stays open to the end of the history
    pub ret: Option<(u64, Tree)>,
}

#[derive(Clone, Debug, PartialEq, Eq, Hash)]
pub enum KeyState {
    Nil,
    Str(Vec<u8>),
    /// a string under a deadline that may pass at any moment
    Vol(Vec<u8>),
    List(VecDeque<Vec<u8>>),
}

fn wrongtype() -> Tree {
    Tree::Error(b"WRONGTYPE".to_vec())
}

fn norm(t: &Tree) -> Tree {
    match t {
        Tree::Error(e) if e.starts_with(b"WRONGTYPE") => wrongtype(),
        Tree::Error(e) => Tree::Error(e.split(|c| *c == b' ').next().unwrap_or(b"").to_vec()),
        o => o.clone(),
    }
}

/// Sequential specification with expiry: a volatile string may have expired just before the operation (second outcome),
/// and operations that keep a key's deadline keep it volatile (GETSET / the swap script: this server keeps the deadline,
/// Redis clears it - both accepted).
pub fn apply_nd(st: &KeyState, op: &OpKind) -> Vec<(KeyState, Tree)> {
    match st {
        KeyState::Vol(s) => {
            let (ns, r) = apply(&KeyState::Str(s.clone()), op);
            let mut outs = vec![];
            match (&ns, op) {
                (KeyState::Str(x), OpKind::Get | OpKind::EvalGlobalGet | OpKind::MGetElem | OpKind::Append(_) | OpKind::Incr | OpKind::SetNx(_) | OpKind::SetOptNx(_) | OpKind::LPush(_) | OpKind::LPop | OpKind::LLen | OpKind::LRangeAll | OpKind::RPushMany(_)) => outs.push((KeyState::Vol(x.clone()), r)),
                (KeyState::Str(x), OpKind::GetSet(_) | OpKind::EvalSwap(_)) => {
                    outs.push((KeyState::Vol(x.clone()), r.clone()));
                    outs.push((ns.clone(), r));
                }
                _ => outs.push((ns, r)),
            }
            outs.push(apply(&KeyState::Nil, op));
            outs
        }
        _ => vec![apply(st, op)],
    }
}

/// Sequential specification of one key.
pub fn apply(st: &KeyState, op: &OpKind) -> (KeyState, Tree) {
    let bulk = |b: &Vec<u8>| Tree::Bulk(Some(b.clone()));
    let ok = Tree::Simple(b"OK".to_vec());
    match (op, st) {
        (OpKind::EvalGlobalGet, KeyState::Nil) => (st.clone(), Tree::Bulk(None)),
        (OpKind::EvalGlobalGet, KeyState::Str(s)) => (st.clone(), bulk(s)),
        (OpKind::EvalGlobalGet, KeyState::List(_)) => (st.clone(), Tree::Error(b"ERR".to_vec())),
        (OpKind::Get, KeyState::Nil) => (st.clone(), Tree::Bulk(None)),
        (OpKind::Get, KeyState::Str(s)) => (st.clone(), bulk(s)),
        (OpKind::Get, KeyState::List(_)) => (st.clone(), wrongtype()),
        (OpKind::Set(v), _) | (OpKind::SetPxLong(v), _) => (KeyState::Str(v.clone()), ok),
        (OpKind::SetPxShort(v), _) => (KeyState::Vol(v.clone()), ok),
        (_, KeyState::Vol(_)) => unreachable!("volatile states go through apply_nd"),
        (OpKind::GetSet(v), KeyState::Nil) | (OpKind::EvalSwap(v), KeyState::Nil) => (KeyState::Str(v.clone()), Tree::Bulk(None)),
        (OpKind::GetSet(v), KeyState::Str(s)) | (OpKind::EvalSwap(v), KeyState::Str(s)) => (KeyState::Str(v.clone()), bulk(s)),
        (OpKind::GetSet(_), KeyState::List(_)) => (st.clone(), wrongtype()),
        (OpKind::EvalSwap(_), KeyState::List(_)) => (st.clone(), Tree::Error(b"ERR".to_vec())),
        (OpKind::MGetElem, KeyState::Str(s)) => (st.clone(), bulk(s)),
        (OpKind::MGetElem, _) => (st.clone(), Tree::Bulk(None)),
        (OpKind::SetOptNx(v), KeyState::Nil) => (KeyState::Str(v.clone()), ok),
        (OpKind::SetOptNx(_), _) => (st.clone(), Tree::Bulk(None)),
        (OpKind::SetOptXx(_), KeyState::Nil) => (st.clone(), Tree::Bulk(None)),
        (OpKind::SetOptXx(v), _) => (KeyState::Str(v.clone()), ok),
        (OpKind::SetOptGet(v), KeyState::Nil) => (KeyState::Str(v.clone()), Tree::Bulk(None)),
        (OpKind::SetOptGet(v), KeyState::Str(s)) => (KeyState::Str(v.clone()), bulk(s)),
        (OpKind::SetOptGet(_), KeyState::List(_)) => (st.clone(), wrongtype()),
        (OpKind::SetNx(v), KeyState::Nil) => (KeyState::Str(v.clone()), Tree::Int(1)),
        (OpKind::SetNx(_), _) => (st.clone(), Tree::Int(0)),
        (OpKind::Del, KeyState::Nil) => (KeyState::Nil, Tree::Int(0)),
        (OpKind::Del, _) => (KeyState::Nil, Tree::Int(1)),
        (OpKind::Incr, KeyState::Nil) => (KeyState::Str(b"1".to_vec()), Tree::Int(1)),
        (OpKind::Incr, KeyState::Str(s)) => match std::str::from_utf8(s).ok().and_then(|x| x.parse::<i64>().ok()).filter(|n| n.to_string().as_bytes() == &s[..]) {
            Some(n) => (KeyState::Str((n + 1).to_string().into_bytes()), Tree::Int(n + 1)),
            None => (st.clone(), Tree::Error(b"ERR".to_vec())),
        },
        (OpKind::Incr, KeyState::List(_)) => (st.clone(), wrongtype()),
        (OpKind::Append(v), KeyState::Nil) => (KeyState::Str(v.clone()), Tree::Int(v.len() as i64)),
        (OpKind::Append(v), KeyState::Str(s)) => {
            let mut n = s.clone();
            n.extend_from_slice(v);
            let l = n.len() as i64;
            (KeyState::Str(n), Tree::Int(l))
        }
        (OpKind::Append(_), KeyState::List(_)) => (st.clone(), wrongtype()),
        (OpKind::GetDel, KeyState::Nil) => (KeyState::Nil, Tree::Bulk(None)),
        (OpKind::GetDel, KeyState::Str(s)) => (KeyState::Nil, bulk(s)),
        (OpKind::GetDel, KeyState::List(_)) => (st.clone(), wrongtype()),
        (OpKind::LRangeAll, KeyState::Nil) => (KeyState::Nil, Tree::Arr(Some(vec![]))),
        (OpKind::LRangeAll, KeyState::List(l)) => (st.clone(), Tree::Arr(Some(l.iter().map(|x| Tree::Bulk(Some(x.clone()))).collect()))),
        (OpKind::LRangeAll, KeyState::Str(_)) => (st.clone(), wrongtype()),
        (OpKind::RPushMany(n), KeyState::Nil) => (KeyState::List((0..*n).map(|i| format!("pre{:04}", i).into_bytes()).collect()), Tree::Int(*n as i64)),
        (OpKind::RPushMany(n), KeyState::List(l)) => {
            let mut m = l.clone();
            m.extend((0..*n).map(|i| format!("pre{:04}", i).into_bytes()));
            let len = m.len() as i64;
            (KeyState::List(m), Tree::Int(len))
        }
        (OpKind::RPushMany(_), KeyState::Str(_)) => (st.clone(), wrongtype()),
        (OpKind::LPush(v), KeyState::Nil) => (KeyState::List(VecDeque::from(vec![v.clone()])), Tree::Int(1)),
        (OpKind::LPush(v), KeyState::List(l)) => {
            let mut n = l.clone();
            n.push_front(v.clone());
            let len = n.len() as i64;
            (KeyState::List(n), Tree::Int(len))
        }
        (OpKind::LPush(_), KeyState::Str(_)) => (st.clone(), wrongtype()),
        (OpKind::LPop, KeyState::Nil) => (KeyState::Nil, Tree::Bulk(None)),
        (OpKind::LPop, KeyState::List(l)) => {
            let mut n = l.clone();
            let v = n.pop_front();
            let ns = if n.is_empty() { KeyState::Nil } else { KeyState::List(n) };
            (ns, v.map(|x| Tree::Bulk(Some(x))).unwrap_or(Tree::Bulk(None)))
        }
        (OpKind::LPop, KeyState::Str(_)) => (st.clone(), wrongtype()),
        (OpKind::LLen, KeyState::Nil) => (KeyState::Nil, Tree::Int(0)),
        (OpKind::LLen, KeyState::List(l)) => (st.clone(), Tree::Int(l.len() as i64)),
        (OpKind::LLen, KeyState::Str(_)) => (st.clone(), wrongtype()),
    }
}

#[derive(Debug, PartialEq, Eq)]
pub enum Verdict {
    Linearizable(Vec<usize>),
    NotLinearizable,
    Timeout,
}

/// Wing–Gong search with memoisation on (linearized set, state) for one key's sub-history.
pub fn check_key(ops: &[Rec], budget: u64) -> Verdict {
    check_key_po(ops, budget, false)
}

/// `program_order`: additionally require that the operations of one client on this key are
/// linearized in the order that client issued them (pipelined commands of one connection overlap in
/// real time, so this is C04's clause, not C02's).
pub fn check_key_po(ops: &[Rec], budget: u64, program_order: bool) -> Verdict {
    let n = ops.len();
    if n > 127 {
        return Verdict::Timeout;
    }
    let bit = |i: usize| 1u128 << i;
    let rets: Vec<u64> = ops.iter().map(|o| o.ret.as_ref().map(|r| r.0).unwrap_or(u64::MAX)).collect();
    // program order: everything the same client issued strictly earlier (elements of one batch call share a
    // call stamp and are not ordered among themselves)
    let before: Vec<u128> = (0..n).map(|i| (0..n).filter(|&j| ops[j].client == ops[i].client && ops[j].call < ops[i].call).fold(0u128, |m, j| m | bit(j))).collect();
    // candidates are tried in order of their return stamps: the effect point lies between call and
    // return, and for pipelined bursts (all calls at the start) the returns follow the real order
    let mut cand: Vec<usize> = (0..n).collect();
    cand.sort_by_key(|&i| (rets[i], ops[i].call));
    let mut memo: HashSet<(u128, KeyState)> = HashSet::new();
    let mut steps = 0u64;
    // iterative DFS: stack of (mask, state, order, next candidate position)
    let mut stack: Vec<(u128, KeyState, Vec<usize>, usize)> = vec![(0, KeyState::Nil, vec![], 0)];
    while let Some((mask, st, order, start)) = stack.pop() {
        // done when every *returned* op is linearized (pending ops may never take effect)
        let returned_done = (0..n).all(|i| mask & bit(i) != 0 || ops[i].ret.is_none());
        if returned_done {
            return Verdict::Linearizable(order);
        }
        // the earliest return among unlinearized ops bounds which ops may go next
        let min_ret = (0..n).filter(|i| mask & bit(*i) == 0).map(|i| rets[i]).min().unwrap_or(u64::MAX);
        let mut p = start;
        while p < n {
            let i = cand[p];
            steps += 1;
            if steps > budget {
                return Verdict::Timeout;
            }
            let po_ok = !program_order || mask & before[i] == before[i];
            if mask & bit(i) == 0 && ops[i].call < min_ret && po_ok {
                let mut descended = false;
                let mut frames: Vec<(u128, KeyState, Vec<usize>, usize)> = vec![];
                for (ns, res) in apply_nd(&st, &ops[i].op) {
                    let ok = match &ops[i].ret {
                        None => true,
                        Some((_, got)) => norm(got) == res,
                    };
                    if ok {
                        let nm = mask | bit(i);
                        if memo.insert((nm, ns.clone())) {
                            let mut no = order.clone();
                            no.push(i);
                            frames.push((nm, ns, no, 0));
                            descended = true;
                        }
                    }
                }
                if descended {
                    // resume this frame later at p+1, descend now (every admissible outcome of this operation)
                    stack.push((mask, st.clone(), order.clone(), p + 1));
                    stack.extend(frames);
                    break;
                }
            }
            p += 1;
        }
    }
    Verdict::NotLinearizable
}

fn op_json(r: &Rec) -> Value {
    json!({"client": r.client, "key": r.key, "op": format!("{:?}", r.op), "via": format!("{:?}", r.via), "call": r.call,
        "ret": r.ret.as_ref().map(|(t, v)| json!({"t": t, "reply": myresp::show(v)}))})
}

fn parse_opkind(s: &str) -> OpKind {
    // Debug rendering round trip for replay: "Set([97, 98])"
    let arg = |s: &str| -> Vec<u8> {
        let inner = s.split('[').nth(1).and_then(|x| x.split(']').next()).unwrap_or("");
        inner.split(',').filter_map(|x| x.trim().parse::<u8>().ok()).collect()
    };
    if s.starts_with("MGetElem") {
        OpKind::MGetElem
    } else if s.starts_with("EvalGlobalGet") {
        OpKind::EvalGlobalGet
    } else if s.starts_with("SetPxShort") {
        OpKind::SetPxShort(arg(s))
    } else if s.starts_with("SetPxLong") {
        OpKind::SetPxLong(arg(s))
    } else if s.starts_with("SetOptNx") {
        OpKind::SetOptNx(arg(s))
    } else if s.starts_with("SetOptXx") {
        OpKind::SetOptXx(arg(s))
    } else if s.starts_with("SetOptGet") {
        OpKind::SetOptGet(arg(s))
    } else if s.starts_with("GetSet") {
        OpKind::GetSet(arg(s))
    } else if s.starts_with("GetDel") {
        OpKind::GetDel
    } else if s.starts_with("LRangeAll") {
        OpKind::LRangeAll
    } else if s.starts_with("RPushMany") {
        OpKind::RPushMany(s.trim_start_matches("RPushMany(").trim_end_matches(')').parse().unwrap_or(0))
    } else if s.starts_with("Get") {
        OpKind::Get
    } else if s.starts_with("SetNx") {
        OpKind::SetNx(arg(s))
    } else if s.starts_with("Set") {
        OpKind::Set(arg(s))
    } else if s.starts_with("Del") {
        OpKind::Del
    } else if s.starts_with("Incr") {
        OpKind::Incr
    } else if s.starts_with("Append") {
        OpKind::Append(arg(s))
    } else if s.starts_with("LPush") {
        OpKind::LPush(arg(s))
    } else if s.starts_with("LPop") {
        OpKind::LPop
    } else if s.starts_with("LLen") {
        OpKind::LLen
    } else {
        OpKind::EvalSwap(arg(s))
    }
}

fn tree_from(v: &Value) -> Tree {
    match v {
        Value::Null => Tree::Bulk(None),
        Value::Number(n) => Tree::Int(n.as_i64().unwrap_or(0)),
        Value::String(s) => Tree::Bulk(Some(unlossy(s))),
        Value::Object(o) => {
            if let Some(s) = o.get("+") {
                Tree::Simple(unlossy(s.as_str().unwrap_or("")))
            } else if let Some(s) = o.get("-") {
                Tree::Error(unlossy(s.as_str().unwrap_or("")))
            } else {
                Tree::Arr(None)
            }
        }
        Value::Array(a) => Tree::Arr(Some(a.iter().map(tree_from).collect())),
        _ => Tree::Bulk(None),
    }
}

/// key index -> name: plain, hash-tagged ({...} must not give a key a second home on any path) and long names
pub fn key_name(i: usize) -> String {
    match i {
        1 => "{user:1}:balance".to_string(),
        3 => "cart:{7}:items-with-a-rather-long-key-name".to_string(),
        _ => format!("lk{}", i),
    }
}

const GLOBAL_GET_SCRIPT: &str = "if redis.call('EXISTS', KEYS[1]) == 1 then leaked_between_runs = redis.call('GET', KEYS[1]) end; return leaked_between_runs";
const SWAP_SCRIPT: &str = "local v = redis.call('GET', KEYS[1]); redis.call('SET', KEYS[1], ARGV[1]); return v";

async fn do_op(st: &ShardedActorState, key: &str, op: &OpKind, via: &Via, sha: Option<&str>) -> Tree {
    let kb = Bytes::copy_from_slice(key.as_bytes());
    let r = match (op, via) {
        (OpKind::Get, Via::Fast) => st.fast_get(kb).await,
        (OpKind::Get, Via::Pooled) => st.pooled_fast_get(kb).await,
        (OpKind::Get, Via::Batch) => st.fast_batch_get_pipeline(vec![kb]).await.into_iter().next().unwrap(),
        (OpKind::Set(v), Via::Fast) => st.fast_set(kb, Bytes::copy_from_slice(v)).await,
        (OpKind::Set(v), Via::Pooled) => st.pooled_fast_set(kb, Bytes::copy_from_slice(v)).await,
        (OpKind::Set(v), Via::Batch) => st.fast_batch_set_pipeline(vec![(kb, Bytes::copy_from_slice(v))]).await.into_iter().next().unwrap(),
        _ => {
            let k = key.to_string();
            let cmd = match op {
                OpKind::Get => Command::Get(k),
                OpKind::Set(v) => Command::set(k, SDS::new(v.clone())),
                OpKind::GetSet(v) => Command::GetSet(k, SDS::new(v.clone())),
                OpKind::SetNx(v) => Command::SetNx(k, SDS::new(v.clone())),
                OpKind::Del => Command::Del(vec![k]),
                OpKind::Incr => Command::Incr(k),
                OpKind::Append(v) => Command::Append(k, SDS::new(v.clone())),
                OpKind::LPush(v) => Command::LPush(k, vec![SDS::new(v.clone())]),
                OpKind::LPop => Command::LPop(k),
                OpKind::LLen => Command::LLen(k),
                OpKind::GetDel => Command::GetDel(k),
                OpKind::LRangeAll => Command::LRange(k, 0, -1),
                OpKind::RPushMany(n) => Command::RPush(k, (0..*n).map(|i| SDS::new(format!("pre{:04}", i).into_bytes())).collect()),
                // half of the script invocations go through EVALSHA (the script was loaded when the history began)
                OpKind::EvalSwap(v) if sha.is_some() && v.len() % 2 == 0 => Command::EvalSha { sha1: sha.unwrap().to_string(), keys: vec![k], args: vec![SDS::new(v.clone())] },
                OpKind::EvalSwap(v) => Command::Eval { script: SWAP_SCRIPT.to_string(), keys: vec![k], args: vec![SDS::new(v.clone())] },
                OpKind::MGetElem => Command::MGet(vec![k]),
                OpKind::EvalGlobalGet => Command::Eval { script: GLOBAL_GET_SCRIPT.to_string(), keys: vec![k], args: vec![] },
                OpKind::SetPxShort(v) | OpKind::SetPxLong(v) => Command::Set {
                    key: k,
                    value: SDS::new(v.clone()),
                    ex: None,
                    px: Some(if matches!(op, OpKind::SetPxShort(_)) { 1 + (v.len() as i64 % 3) } else { 600_000 }),
                    exat: None,
                    pxat: None,
                    nx: false,
                    xx: false,
                    get: false,
                    keepttl: false,
                },
                OpKind::SetOptNx(v) | OpKind::SetOptXx(v) | OpKind::SetOptGet(v) => Command::Set {
                    key: k,
                    value: SDS::new(v.clone()),
                    ex: None,
                    px: None,
                    exat: None,
                    pxat: None,
                    nx: matches!(op, OpKind::SetOptNx(_)),
                    xx: matches!(op, OpKind::SetOptXx(_)),
                    get: matches!(op, OpKind::SetOptGet(_)),
                    keepttl: false,
                },
            };
            st.execute(&cmd).await
        }
    };
    myresp::from_resp(&r)
}

struct HistCfg {
    shards: usize,
    clients: usize,
    keys: usize,
    ops_per_client: usize,
    pool: usize,
    cancel: bool,
    lua: bool,
    /// the node is built with ShardConfig::with_adaptive() (hot-key detection and load-balancer actors beside the shards)
    adaptive: bool,
}

static TTL_HEAVY: std::sync::atomic::AtomicBool = std::sync::atomic::AtomicBool::new(false);
/// list keys start with 1100-1500 elements (every seventh history): nothing may read such a list in pieces
static LONG_LISTS: std::sync::atomic::AtomicBool = std::sync::atomic::AtomicBool::new(false);

fn gen_op(rng: &mut Rng, client: usize, ctr: &mut u32, key: usize, lua: bool) -> (OpKind, Via) {
    *ctr += 1;
    let uniq = format!("c{}v{}", client, ctr).into_bytes();
    if TTL_HEAVY.load(Ordering::Relaxed) && key % 3 != 2 && rng.gen_bool(0.25) {
        return (if rng.gen_bool(0.7) { OpKind::SetPxLong(uniq) } else { OpKind::SetPxShort(uniq) }, Via::Generic);
    }
    // key 0..: key index parity decides the family so that types collide only sometimes
    let list_key = key % 3 == 2;
    let via = [Via::Generic, Via::Fast, Via::Pooled, Via::Batch][rng.gen_range(0..4)].clone();
    if list_key {
        match rng.gen_range(0..10) {
            0..=3 => (OpKind::LPush(uniq), Via::Generic),
            4..=6 => (OpKind::LPop, Via::Generic),
            7 => (OpKind::LLen, Via::Generic),
            8 if !LONG_LISTS.load(Ordering::Relaxed) => (OpKind::Del, Via::Generic),
            8 => (OpKind::LRangeAll, Via::Generic),
            _ if LONG_LISTS.load(Ordering::Relaxed) => (OpKind::LRangeAll, Via::Generic),
            _ => (if rng.gen_bool(0.5) { OpKind::LRangeAll } else { OpKind::Get }, via),
        }
    } else {
        match rng.gen_range(0..27) {
            24 | 25 => (OpKind::SetPxShort(uniq), Via::Generic),
            26 => (OpKind::SetPxLong(uniq), Via::Generic),
            20 | 21 => (OpKind::SetOptNx(uniq), Via::Generic),
            22 => (OpKind::SetOptXx(uniq), Via::Generic),
            23 => (OpKind::SetOptGet(uniq), Via::Generic),
            0..=4 => (OpKind::Get, via),
            5..=8 => (OpKind::Set(uniq), via),
            9 | 10 => (OpKind::Incr, Via::Generic),
            11 | 12 => (OpKind::Append(uniq), Via::Generic),
            13 => (OpKind::Del, Via::Generic),
            14 => (OpKind::GetSet(uniq), Via::Generic),
            15 => (OpKind::SetNx(uniq), Via::Generic),
            16 if lua => (OpKind::EvalSwap(uniq), Via::Generic),
            18 if lua => (OpKind::EvalGlobalGet, Via::Generic),
            17 => (OpKind::LPush(uniq), Via::Generic),
            19 => (OpKind::GetDel, Via::Generic),
            _ => (OpKind::Get, Via::Generic),
        }
    }
}

/// Progress counter for the quiescence monitor: every hook-site pass and every stamp taken.
fn activity() -> u64 {
    verif_hooks::site_hits().iter().sum::<u64>() + CLOCK.load(Ordering::SeqCst)
}

/// Wait for the client tasks. If some are still unfinished while *nothing at all* has happened for 8 s
/// (no H2 site passed by any shard actor or handle, no stamp taken by any client), the pending calls
/// can no longer complete: the tasks are aborted and `true` is returned. The criterion is the absence
/// of observable events, not the duration of any operation.
/// How long "nothing at all happens" must last before pending calls are declared lost. 8 s on a native build; the
/// driver raises it for the instrumented flavours (an interpreter or a sanitizer can spend that long between two
/// events without anything being wrong) - there a real hang ends in the driver's watchdog, i.e. inconclusive.
fn quiet_secs() -> u64 {
    if cfg!(miri) {
        return u64::MAX / 4;
    }
    std::env::var("VH_QUIET_SECS").ok().and_then(|s| s.parse().ok()).unwrap_or(8)
}

async fn join_or_stuck(hs: Vec<tokio::task::JoinHandle<()>>, extra: &dyn Fn() -> u64) -> bool {
    join_or_stuck2(hs, extra, true).await
}

/// `count_sites = false`: only the clients' own stamps count as activity (used when a background sweeper keeps passing
/// hook sites for as long as the history lasts).
async fn join_or_stuck2(hs: Vec<tokio::task::JoinHandle<()>>, extra: &dyn Fn() -> u64, count_sites: bool) -> bool {
    let activity = || if count_sites { activity() } else { CLOCK.load(Ordering::SeqCst) };
    let mut last = activity() + extra();
    let mut last_change = std::time::Instant::now();
    let mut nap = 1u64;
    loop {
        if hs.iter().all(|h| h.is_finished()) {
            return false;
        }
        tokio::time::sleep(std::time::Duration::from_millis(nap)).await;
        nap = (nap * 2).min(100);
        let now = activity() + extra();
        if now != last {
            last = now;
            last_change = std::time::Instant::now();
        } else if last_change.elapsed().as_secs() >= quiet_secs() {
            for h in &hs {
                h.abort();
            }
            return true;
        }
    }
}

/// The node as the server builds it (PerformanceConfig); `adaptive`: with ShardConfig::with_adaptive(), i.e. the hot-key
/// detector and load balancer actors running beside the shards and every accessor the data path consults for them live.
fn build_state(pc: &PerformanceConfig, adaptive: bool) -> ShardedActorState {
    if adaptive {
        ShardedActorState::with_perf_config_and_time_source(pc, redis_sim::production::ShardConfig::with_shards(pc.num_shards).with_adaptive(), redis_sim::io::ProductionTimeSource::new())
    } else {
        ShardedActorState::with_perf_config(pc)
    }
}

/// Returns the history and the calls that were still pending when the system went quiet for good.
async fn run_history(cfg: &HistCfg, seed: u64) -> (Vec<Rec>, Vec<Rec>) {
    let mut pc: PerformanceConfig = toml_default();
    pc.num_shards = cfg.shards;
    pc.response_pool.capacity = cfg.pool.max(1);
    pc.response_pool.prewarm = cfg.pool.min(pc.response_pool.capacity);
    let st = build_state(&pc, cfg.adaptive);
    // the read-modify-write script is registered once, through the API, before the clients start
    let sha: Option<String> = if cfg.lua {
        match myresp::from_resp(&st.execute(&Command::ScriptLoad(SWAP_SCRIPT.to_string())).await) {
            Tree::Bulk(Some(b)) => String::from_utf8(b).ok(),
            _ => None,
        }
    } else {
        None
    };
    let log: Arc<Mutex<Vec<Rec>>> = Arc::new(Mutex::new(vec![]));
    let pending: Arc<Mutex<HashMap<usize, Vec<Rec>>>> = Arc::new(Mutex::new(HashMap::new()));
    let mut hs = vec![];
    // in half of the histories the TTL sweep (what the server's TTL manager calls periodically) runs beside the clients,
    // as fast as it can: it may only ever remove keys whose deadline has passed
    let sweep_stop = Arc::new(std::sync::atomic::AtomicBool::new(false));
    if seed % 2 == 0 {
        // ... and the history starts with keys whose deadline has already passed but which nobody has looked at yet
        // (written with PX 1 by a preliminary client, then 1.5 ms of real time): the sweep's first pass finds them
        // while the clients are already writing the same names again
        for k in 0..cfg.keys {
            if k % 3 == 2 {
                continue;
            }
            let v = format!("pre{}", k).into_bytes();
            let call = stamp();
            let r = do_op(&st, &key_name(k), &OpKind::SetPxShort(v.clone()), &Via::Generic, None).await;
            let ret = stamp();
            log.lock().unwrap().push(Rec { client: 99, key: k, op: OpKind::SetPxShort(v), via: Via::Generic, call, ret: Some((ret, r)) });
        }
        std::thread::sleep(std::time::Duration::from_micros(3200));
    }
    LONG_LISTS.store(seed % 7 == 3, Ordering::Relaxed);
    if seed % 7 == 3 {
        for k in (0..cfg.keys).filter(|k| k % 3 == 2) {
            let op = OpKind::RPushMany(1100 + (seed % 400) as u32);
            let call = stamp();
            let r = do_op(&st, &key_name(k), &op, &Via::Generic, None).await;
            let ret = stamp();
            log.lock().unwrap().push(Rec { client: 98, key: k, op, via: Via::Generic, call, ret: Some((ret, r)) });
        }
    }
    TTL_HEAVY.store(seed % 2 == 0, Ordering::Relaxed);
    let sweeper = if seed % 2 == 0 {
        let st = st.clone();
        let stop = sweep_stop.clone();
        Some(tokio::spawn(async move {
            let mut n = 0u64;
            if seed % 4 == 0 {
                // the server's own TTL manager actor (1 ms interval), prodded with Tick messages in between
                let metrics = Arc::new(redis_sim::observability::Metrics::new(&redis_sim::observability::DatadogConfig::from_env()));
                let h = redis_sim::production::TtlManagerActor::spawn_with_interval(st.clone(), 1, metrics);
                while !stop.load(Ordering::SeqCst) {
                    h.tick();
                    n += 1;
                    tokio::task::yield_now().await;
                }
                h.shutdown().await;
                TTL_MANAGER_TICKS.fetch_add(n, Ordering::SeqCst);
                return;
            }
            while !stop.load(Ordering::SeqCst) {
                st.evict_expired_all_shards().await;
                n += 1;
                tokio::task::yield_now().await;
            }
            SWEEPS.fetch_add(n, Ordering::SeqCst);
        }))
    } else {
        None
    };
    for c in 0..cfg.clients {
        let st = st.clone();
        let log = log.clone();
        let pending = pending.clone();
        let sha = sha.clone();
        let (keys, n, cancel, lua) = (cfg.keys, cfg.ops_per_client, cfg.cancel, cfg.lua);
        hs.push(tokio::spawn(async move {
            let mut rng = rng_from(seed, c as u64 + 1);
            let mut ctr = 0u32;
            for _ in 0..n {
                if keys > 1 && rng.gen_bool(0.1) {
                    // a pipeline batch over several keys (with repeats) through the batch entry points: one call,
                    // one reply vector; every element is an operation on its key with the call's stamps
                    let m = rng.gen_range(2..=4);
                    let ks: Vec<usize> = (0..m).map(|_| rng.gen_range(0..keys)).collect();
                    let mget = rng.gen_bool(0.3);
                    let sets = !mget && rng.gen_bool(0.4);
                    let ops: Vec<OpKind> = ks
                        .iter()
                        .map(|_| {
                            if mget {
                                OpKind::MGetElem
                            } else if sets {
                                ctr += 1;
                                OpKind::Set(format!("c{}v{}", c, ctr).into_bytes())
                            } else {
                                OpKind::Get
                            }
                        })
                        .collect();
                    let call = stamp();
                    pending.lock().unwrap().insert(c, ks.iter().zip(&ops).map(|(k, op)| Rec { client: c, key: *k, op: op.clone(), via: if mget { Via::Generic } else { Via::Batch }, call, ret: None }).collect());
                    let via_b = if mget { Via::Generic } else { Via::Batch };
                    let replies: Vec<Tree> = if mget {
                        // one MGET over keys that may live on different shards: the reply array is positional
                        match myresp::from_resp(&st.execute(&Command::MGet(ks.iter().map(|k| key_name(*k)).collect())).await) {
                            Tree::Arr(Some(v)) => v,
                            other => vec![other; ks.len()],
                        }
                    } else if sets {
                        let pairs = ks.iter().zip(&ops).map(|(k, op)| (Bytes::from(key_name(*k)), Bytes::copy_from_slice(match op { OpKind::Set(v) => v, _ => b"" }))).collect();
                        st.fast_batch_set_pipeline(pairs).await.iter().map(myresp::from_resp).collect()
                    } else {
                        st.fast_batch_get_pipeline(ks.iter().map(|k| Bytes::from(key_name(*k))).collect()).await.iter().map(myresp::from_resp).collect()
                    };
                    let ret = stamp();
                    pending.lock().unwrap().remove(&c);
                    let mut l = log.lock().unwrap();
                    for (i, (k, op)) in ks.iter().zip(&ops).enumerate() {
                        // a missing element of the reply vector is recorded as a protocol-level error reply
                        let r = replies.get(i).cloned().unwrap_or(Tree::Error(b"MISSING-BATCH-ELEMENT".to_vec()));
                        l.push(Rec { client: c, key: *k, op: op.clone(), via: via_b.clone(), call, ret: Some((ret, r)) });
                    }
                    continue;
                }
                let key = rng.gen_range(0..keys);
                let kname = key_name(key);
                let (op, via) = gen_op(&mut rng, c, &mut ctr, key, lua);
                let call = stamp();
                pending.lock().unwrap().insert(c, vec![Rec { client: c, key, op: op.clone(), via: via.clone(), call, ret: None }]);
                let fut = do_op(&st, &kname, &op, &via, sha.as_deref());
                let res = if cancel && rng.gen_bool(0.08) {
                    // abandon the call after a few scheduler turns: it may or may not take effect
                    let turns = rng.gen_range(0..3);
                    tokio::select! {
                        biased;
                        r = fut => Some(r),
                        _ = async { for _ in 0..turns { tokio::task::yield_now().await; } } => None,
                    }
                } else {
                    Some(fut.await)
                };
                let ret = res.map(|r| (stamp(), r));
                pending.lock().unwrap().remove(&c);
                log.lock().unwrap().push(Rec { client: c, key, op, via, call, ret });
                if rng.gen_bool(0.2) {
                    tokio::task::yield_now().await;
                }
            }
        }));
    }
    let stuck = join_or_stuck2(hs, &|| 0, sweeper.is_none()).await;
    sweep_stop.store(true, Ordering::SeqCst);
    if let Some(h) = sweeper {
        let _ = h.await;
    }
    let mut v = log.lock().unwrap().clone();
    let mut lost = vec![];
    if stuck {
        for (_, rs) in pending.lock().unwrap().drain() {
            for r in rs {
                lost.push(r.clone());
                v.push(r);
            }
        }
    }
    (v, lost)
}

fn toml_default() -> PerformanceConfig {
    // PerformanceConfig only implements Deserialize: an empty document yields all defaults
    serde_json::from_str::<PerformanceConfig>("{}").expect("default perf config")
}

/// Judge a whole history; pushes violations / counters into the report. Returns overlapping pairs.
fn judge(rep: &mut Report, hist: &[Rec], cfg_json: &Value) {
    judge_opt(rep, hist, cfg_json, "C02", false)
}

/// `pid`/`po`: the connection-level leg is registered under C02 (real-time order only) and under C04
/// (plus per-connection issue order: "the reply the command would get if sent alone after its
/// predecessors completed", under concurrency from other connections).
fn judge_opt(rep: &mut Report, hist: &[Rec], cfg_json: &Value, pid: &str, po: bool) {
    let mut by_key: HashMap<usize, Vec<Rec>> = HashMap::new();
    for r in hist {
        by_key.entry(r.key).or_default().push(r.clone());
    }
    // every value read must have been written to that key (unique values make this immediate)
    for (k, ops) in &by_key {
        let mut written: HashSet<Vec<u8>> = ops
            .iter()
            .filter_map(|o| match &o.op {
                OpKind::Set(v) | OpKind::GetSet(v) | OpKind::SetNx(v) | OpKind::LPush(v) | OpKind::EvalSwap(v) | OpKind::SetOptNx(v) | OpKind::SetOptXx(v) | OpKind::SetOptGet(v) => Some(v.clone()),
                _ => None,
            })
            .collect();
        for o in ops {
            if let OpKind::RPushMany(n) = &o.op {
                written.extend((0..*n).map(|i| format!("pre{:04}", i).into_bytes()));
            }
        }
        for o in ops {
            if let (OpKind::LPop, Some((_, Tree::Bulk(Some(v))))) = (&o.op, &o.ret) {
                if !written.contains(v) {
                    rep.violation(
                        format!("{}|foreign-value|op=LPop|via={:?}", pid, o.via),
                        format!("key lk{}: LPOP returned {:?}, which was never pushed to this key (a reply delivered to the wrong requester?)", k, lossy(v)),
                        json!({"cfg": cfg_json, "history": ops.iter().map(op_json).collect::<Vec<_>>()}),
                    );
                }
            }
        }
    }
    for (k, ops) in by_key.iter_mut() {
        ops.sort_by_key(|o| o.call);
        let mut overl = 0u64;
        for i in 0..ops.len() {
            for j in i + 1..ops.len() {
                let ri = ops[i].ret.as_ref().map(|r| r.0).unwrap_or(u64::MAX);
                if ops[j].call < ri && ops[i].client != ops[j].client {
                    overl += 1;
                }
            }
        }
        rep.add("overlapping_pairs", overl);
        rep.add("ops", ops.len() as u64);
        for o in ops.iter() {
            rep.count(&format!("via:{:?}", o.via));
            if o.ret.is_none() {
                rep.count("cancelled_calls");
            }
        }
        // a linearization that also follows every client's issue order is in particular a linearization:
        // try that (much smaller) search first, fall back to the unconstrained one
        let verdict = match check_key_po(ops, 3_000_000, true) {
            Verdict::Linearizable(o) => Verdict::Linearizable(o),
            v if po => v,
            _ => check_key_po(ops, 3_000_000, false),
        };
        match verdict {
            Verdict::Linearizable(order) => {
                if overl > 0 {
                    rep.distinct(&order.iter().map(|&i| (ops[i].client, format!("{:?}", std::mem::discriminant(&ops[i].op)))).collect::<Vec<_>>());
                }
                rep.count("keys_linearizable");
            }
            Verdict::Timeout => {
                rep.count("checker_timeouts");
            }
            Verdict::NotLinearizable => {
                // class: which op kinds / paths are involved around the first unexplainable reply
                let mut kinds: Vec<String> = ops.iter().map(|o| format!("{:?}", std::mem::discriminant(&o.op))).collect();
                kinds.sort();
                kinds.dedup();
                let mut vias: Vec<String> = ops.iter().map(|o| format!("{:?}", o.via)).collect();
                vias.sort();
                vias.dedup();
                let cancelled = ops.iter().any(|o| o.ret.is_none());
                rep.violation(
                    format!("{}|not-linearizable|paths={}|cancelled={}", pid, vias.join("+"), cancelled),
                    format!("key lk{}: no linearization of {} operations by {} clients respects real time", k, ops.len(), ops.iter().map(|o| o.client).collect::<HashSet<_>>().len()),
                    json!({"cfg": cfg_json, "history": ops.iter().map(op_json).collect::<Vec<_>>()}),
                );
            }
        }
    }
}

pub fn lin_leg(args: &Args) {
    let mut rep = Report::new("C02", "linearizability");
    if let Some(p) = &args.replay {
        let w: Value = serde_json::from_str(&std::fs::read_to_string(p).expect("replay")).expect("json");
        let hist: Vec<Rec> = w["witness"]["history"]
            .as_array()
            .unwrap()
            .iter()
            .map(|o| Rec {
                client: o["client"].as_u64().unwrap_or(0) as usize,
                key: o["key"].as_u64().unwrap_or(0) as usize,
                op: parse_opkind(o["op"].as_str().unwrap_or("Get")),
                via: Via::Generic,
                call: o["call"].as_u64().unwrap_or(0),
                ret: if o["ret"].is_null() { None } else { Some((o["ret"]["t"].as_u64().unwrap_or(0), tree_from(&o["ret"]["reply"]))) },
            })
            .collect();
        rep.evaluations += 1;
        judge(&mut rep, &hist, &w["witness"]["cfg"]);
        rep.note("replay re-judges the recorded history offline (schedules are not replayable by seed)");
        rep.finish(args);
        return;
    }
    let lua = cfg!(feature = "lua");
    let small = args.get_u64("small", 0) == 1; // Miri-sized run
    let n = args.get_u64("histories", if small { 2 } else if args.thorough() { 6000 } else { 600 });
    verif_hooks::set_pause(Some(pause_cb));
    let hits0 = verif_hooks::site_hits();
    let mut rng = args.rng(2);
    for h in 0..n {
        let workers = if small { 2 } else { [2usize, 4, 8][rng.gen_range(0..3)] };
        let cfg = HistCfg {
            shards: [1usize, 2, 4, 16][rng.gen_range(0..4)],
            clients: if small { 3 } else { rng.gen_range(2..9) },
            keys: rng.gen_range(1..5),
            ops_per_client: 0,
            pool: rng.gen_range(1..3),
            cancel: rng.gen_bool(0.5),
            lua,
            adaptive: false,
        };
        // keep every key's sub-history within the checker's 63-operation window
        let mut cfg = cfg;
        cfg.adaptive = h % 4 == 3;
        if cfg.adaptive {
            rep.count("histories_on_an_adaptive_node");
        }
        cfg.ops_per_client = if small { 6 } else { rng.gen_range(6..24).min(60 * cfg.keys / cfg.clients).max(3) };
        PAUSE_SEED.store(h64(&(args.seed, args.shard, h)), Ordering::Relaxed);
        let rt = tokio::runtime::Builder::new_multi_thread().worker_threads(workers).enable_all().build().unwrap();
        let seed = h64(&(args.seed, args.shard as u64, h, 77u8));
        let (hist, lost) = rt.block_on(run_history(&cfg, seed));
        rt.shutdown_background();
        rep.evaluations += 1;
        let cj = json!({"shards": cfg.shards, "clients": cfg.clients, "keys": cfg.keys, "ops_per_client": cfg.ops_per_client, "pool": cfg.pool, "cancel": cfg.cancel, "workers": workers});
        for r in &lost {
            rep.count("replies_never_delivered");
            rep.violation(
                format!("C02|reply-never-delivered|via={:?}", r.via),
                format!("client {} invoked {:?} on {} and never got a reply: every client, shard actor and hand-off site was silent for the whole quiet period while the call was pending", r.client, r.op, key_name(r.key)),
                json!({"cfg": cj, "history": hist.iter().filter(|o| o.key == r.key).map(op_json).collect::<Vec<_>>()}),
            );
        }
        judge(&mut rep, &hist, &cj);
        rep.count(&format!("shards:{}", cfg.shards));
        if h < 2 {
            rep.sample(json!({"cfg": cj, "first_ops": hist.iter().take(6).map(op_json).collect::<Vec<_>>()}));
        }
    }
    verif_hooks::set_pause(None);
    let hits1 = verif_hooks::site_hits();
    let names = ["exec_sent", "exec_done", "pooled_sent", "pooled_done", "actor_reply", "pool_release", "fast_sent"];
    for (i, nme) in names.iter().enumerate() {
        rep.add(&format!("h2:{}", nme), hits1[i] - hits0[i]);
        if i == 0 {
            rep.add("ttl_sweeps_beside_clients", SWEEPS.load(Ordering::SeqCst));
            rep.add("ttl_manager_actor_ticks_beside_clients", TTL_MANAGER_TICKS.load(Ordering::SeqCst));
        }
    }
    if rep.counters.get("overlapping_pairs").copied().unwrap_or(0) == 0 {
        rep.inconclusive("no two operations of different clients overlapped in time");
    }
    if let Some(t) = rep.counters.get("checker_timeouts") {
        if *t * 10 > rep.evaluations {
            rep.inconclusive("the linearizability checker timed out on more than 10% of the key histories");
        }
    }
    rep.finish(args);
}


// ------------------------------------------------------------------------------------------------
// Connection-level variant: N client tasks, each with its own connection (production handler via
// H1 over a ScriptedStream), one shared ShardedActorState, multi-thread runtime. Clients send
// pipelined bursts (whole or in fragments); call stamp before the bytes are handed to the stream,
// return stamp when the client has decoded the reply. A reply that never arrives although the
// handler is parked on an empty read is decided logically (no wall clock).

/// Key bytes on the wire: key 0 is not valid UTF-8 (a binary key must keep one identity whichever path - the
/// raw-bytes fast path or the generic parser - serves the command); the others are the API leg's names.
fn conn_key(i: usize) -> Vec<u8> {
    if i == 0 {
        vec![0xff, 0xfe, b'b', b'i', b'n', b':', b'0']
    } else {
        key_name(i).into_bytes()
    }
}

fn conn_frame(k: &[u8], op: &OpKind) -> Vec<u8> {
    match op {
        OpKind::Get => myresp::frame(&[b"GET", k]),
        OpKind::Set(v) => myresp::frame(&[b"SET", k, v]),
        OpKind::GetSet(v) => myresp::frame(&[b"GETSET", k, v]),
        OpKind::SetNx(v) => myresp::frame(&[b"SETNX", k, v]),
        OpKind::Del => myresp::frame(&[b"DEL", k]),
        OpKind::Incr => myresp::frame(&[b"INCR", k]),
        OpKind::Append(v) => myresp::frame(&[b"APPEND", k, v]),
        OpKind::LPush(v) => myresp::frame(&[b"LPUSH", k, v]),
        OpKind::LPop => myresp::frame(&[b"LPOP", k]),
        OpKind::LLen => myresp::frame(&[b"LLEN", k]),
        OpKind::GetDel => myresp::frame(&[b"GETDEL", k]),
        OpKind::LRangeAll => myresp::frame(&[b"LRANGE", k, b"0", b"-1"]),
        OpKind::RPushMany(n) => {
            let els: Vec<Vec<u8>> = (0..*n).map(|i| format!("pre{:04}", i).into_bytes()).collect();
            let mut parts: Vec<&[u8]> = vec![b"RPUSH", k];
            parts.extend(els.iter().map(|e| &e[..]));
            myresp::frame(&parts)
        }
        OpKind::EvalSwap(v) => myresp::frame(&[b"EVAL", SWAP_SCRIPT.as_bytes(), b"1", k, v]),
        OpKind::MGetElem => myresp::frame(&[b"MGET", k]),
        OpKind::EvalGlobalGet => myresp::frame(&[b"EVAL", GLOBAL_GET_SCRIPT.as_bytes(), b"1", k]),
        OpKind::SetOptNx(v) => myresp::frame(&[b"SET", k, v, b"NX"]),
        OpKind::SetOptXx(v) => myresp::frame(&[b"SET", k, v, b"XX"]),
        OpKind::SetOptGet(v) => myresp::frame(&[b"SET", k, v, b"GET"]),
        OpKind::SetPxShort(v) => myresp::frame(&[b"SET", k, v, b"PX", if v.len() % 3 == 0 { b"1" } else if v.len() % 3 == 1 { b"2" } else { b"3" }]),
        OpKind::SetPxLong(v) => myresp::frame(&[b"SET", k, v, b"PX", b"600000"]),
    }
}

struct ConnCfg {
    shards: usize,
    clients: usize,
    keys: usize,
    bursts: usize,
    max_burst: usize,
    batch_threshold: usize,
    min_pipeline_buffer: usize,
    read_size: usize,
    shared_pool: bool,
    lua: bool,
    adaptive: bool,
}

#[derive(Default)]
struct ConnOutcome {
    hist: Vec<Rec>,
    /// (client, description) of replies that never arrived / surplus bytes / undecodable output
    anomalies: Vec<(usize, String, Value)>,
    bursts_by_len: Vec<usize>,
}

async fn run_conn_history(cfg: &ConnCfg, seed: u64) -> ConnOutcome {
    use redis_sim::production::{ConnectionConfig, ConnectionPool};
    let mut pc: PerformanceConfig = toml_default();
    pc.num_shards = cfg.shards;
    let st = build_state(&pc, cfg.adaptive);
    let ccfg = ConnectionConfig { max_buffer_size: 1 << 20, read_buffer_size: cfg.read_size, min_pipeline_buffer: cfg.min_pipeline_buffer, batch_threshold: cfg.batch_threshold };
    let pool = if cfg.shared_pool { Some(Arc::new(ConnectionPool::new(2, 2))) } else { None };
    let log: Arc<Mutex<ConnOutcome>> = Arc::new(Mutex::new(ConnOutcome::default()));
    let pending: Arc<Mutex<HashMap<usize, Vec<Rec>>>> = Arc::new(Mutex::new(HashMap::new()));
    let mut ctls: Vec<crate::conn::Controller> = vec![];
    let mut hs = vec![];
    for c in 0..cfg.clients {
        let (stream, ctl) = crate::conn::scripted();
        ctls.push(ctl.clone());
        let pending = pending.clone();
        let stc = st.clone();
        let cc = ccfg.clone();
        let server = match pool.clone() {
            Some(p) => tokio::spawn(async move { verif_hooks::run_connection_with_pool(stream, stc, cc, p).await }),
            None => tokio::spawn(async move { verif_hooks::run_connection(stream, stc, cc).await }),
        };
        let log = log.clone();
        let (keys, bursts, max_burst, lua) = (cfg.keys, cfg.bursts, cfg.max_burst, cfg.lua);
        hs.push(tokio::spawn(async move {
            let mut rng = rng_from(seed, c as u64 + 101);
            let mut ctr = 0u32;
            let mut inbuf: Vec<u8> = vec![];
            'bursts: for _ in 0..bursts {
                // a burst: usually mixed; sometimes a run of plain GET/SET (what the batch collectors look for)
                let blen = rng.gen_range(1..=max_burst);
                let plain_run = rng.gen_bool(0.35);
                let mut ops: Vec<(usize, OpKind)> = vec![];
                for _ in 0..blen {
                    let key = rng.gen_range(0..keys);
                    let (op, _) = gen_op(&mut rng, c, &mut ctr, key, lua);
                    let op = if plain_run && !matches!(op, OpKind::Get | OpKind::Set(_)) {
                        if rng.gen_bool(0.5) { OpKind::Get } else { ctr += 1; OpKind::Set(format!("c{}v{}", c, ctr).into_bytes()) }
                    } else {
                        op
                    };
                    ops.push((key, op));
                }
                let mut bytes = vec![];
                for (k, op) in &ops {
                    bytes.extend_from_slice(&conn_frame(&conn_key(*k), op));
                }
                // hand the bytes over whole or in 2-3 fragments with scheduler turns in between
                let cuts = match rng.gen_range(0..4) { 0 => 1, 1 => 2, _ => 0 };
                let mut points: Vec<usize> = (0..cuts).map(|_| rng.gen_range(1..bytes.len().max(2))).filter(|p| *p < bytes.len()).collect();
                points.sort();
                points.dedup();
                let calls: Vec<u64> = ops.iter().map(|_| stamp()).collect();
                pending.lock().unwrap().insert(c, ops.iter().enumerate().map(|(i, (k, op))| Rec { client: c, key: *k, op: op.clone(), via: Via::Conn, call: calls[i], ret: None }).collect());
                let mut from = 0;
                for pnt in points {
                    ctl.send(&bytes[from..pnt]);
                    from = pnt;
                    for _ in 0..rng.gen_range(0..3) {
                        tokio::task::yield_now().await;
                    }
                }
                ctl.send(&bytes[from..]);
                // collect exactly ops.len() replies
                let mut got: Vec<(u64, Tree)> = vec![];
                let mut idle_confirmations = 0;
                loop {
                    let g = ctl.gen();
                    let idle = ctl.is_idle();
                    inbuf.extend_from_slice(&ctl.take_output());
                    let mut bad = None;
                    while got.len() < ops.len() && !inbuf.is_empty() {
                        match myresp::decode(&inbuf) {
                            myresp::Outcome::Value(t, n) => {
                                got.push((stamp(), t));
                                inbuf.drain(..n);
                            }
                            myresp::Outcome::Incomplete => break,
                            myresp::Outcome::Error(e) => {
                                bad = Some(e);
                                break;
                            }
                        }
                    }
                    if let Some(e) = bad {
                        let mut l = log.lock().unwrap();
                        l.anomalies.push((c, "undecodable-reply".into(), json!({"error": e, "bytes": lossy(&inbuf), "burst": ops.iter().map(|(k, o)| format!("lk{} {:?}", k, o)).collect::<Vec<_>>()})));
                        for (i, (k, op)) in ops.iter().enumerate() {
                            l.hist.push(Rec { client: c, key: *k, op: op.clone(), via: Via::Conn, call: calls[i], ret: got.get(i).cloned() });
                        }
                        pending.lock().unwrap().remove(&c);
                        break 'bursts;
                    }
                    if got.len() == ops.len() {
                        break;
                    }
                    if idle {
                        // the handler was parked on an empty read *before* we drained the output: nothing
                        // more can come from its own loop. Confirm twice (a reply written by another task
                        // would bump the generation) before calling it missing.
                        idle_confirmations += 1;
                        if idle_confirmations >= 3 {
                            let mut l = log.lock().unwrap();
                            l.anomalies.push((c, "reply-missing".into(), json!({"expected": ops.len(), "got": got.len(), "burst": ops.iter().map(|(k, o)| format!("lk{} {:?}", k, o)).collect::<Vec<_>>(), "server_closed": ctl.server_closed()})));
                            for (i, (k, op)) in ops.iter().enumerate() {
                                l.hist.push(Rec { client: c, key: *k, op: op.clone(), via: Via::Conn, call: calls[i], ret: got.get(i).cloned() });
                            }
                            drop(l);
                            pending.lock().unwrap().remove(&c);
                            break 'bursts;
                        }
                        for _ in 0..50 {
                            tokio::task::yield_now().await;
                        }
                        continue;
                    }
                    ctl.changed(g).await;
                }
                pending.lock().unwrap().remove(&c);
                {
                    let mut l = log.lock().unwrap();
                    l.bursts_by_len.push(ops.len());
                    for (i, (k, op)) in ops.iter().enumerate() {
                        l.hist.push(Rec { client: c, key: *k, op: op.clone(), via: Via::Conn, call: calls[i], ret: Some(got[i].clone()) });
                    }
                }
                if rng.gen_bool(0.3) {
                    tokio::task::yield_now().await;
                }
            }
            // surplus bytes: anything the server wrote beyond one reply per command
            let _ = ctl.wait_idle(crate::conn::STEP_BUDGET).await;
            inbuf.extend_from_slice(&ctl.take_output());
            if !inbuf.is_empty() {
                log.lock().unwrap().anomalies.push((c, "surplus-reply-bytes".into(), json!({"bytes": lossy(&inbuf)})));
            }
            ctl.close();
            let _ = server.await;
        }));
    }
    let stuck = join_or_stuck(hs, &|| ctls.iter().map(|c| c.gen()).sum()).await;
    let mut g = log.lock().unwrap();
    if stuck {
        // a connection handler that neither answers nor returns to reading while nothing else moves
        for (c, recs) in pending.lock().unwrap().drain() {
            g.anomalies.push((c, "reply-missing".into(), json!({"handler": "stuck: no reply, no return to reading, no hook-site or stream event for the whole quiet period", "burst": recs.iter().map(|r| format!("{} {:?}", key_name(r.key), r.op)).collect::<Vec<_>>()})));
            g.hist.extend(recs);
        }
    }
    std::mem::take(&mut *g)
}

pub fn conn_leg(args: &Args) {
    // --po 1: judged under C04 (adds per-connection issue order and "exactly one reply per command")
    let po = args.get_u64("po", 0) == 1;
    let pid = if po { "C04" } else { "C02" };
    let mut rep = Report::new(pid, "conn-concurrent");
    if let Some(p) = &args.replay {
        let w: Value = serde_json::from_str(&std::fs::read_to_string(p).expect("replay")).expect("json");
        if let Some(h) = w["witness"]["history"].as_array() {
            let hist: Vec<Rec> = h
                .iter()
                .map(|o| Rec {
                    client: o["client"].as_u64().unwrap_or(0) as usize,
                    key: o["key"].as_u64().unwrap_or(0) as usize,
                    op: parse_opkind(o["op"].as_str().unwrap_or("Get")),
                    via: Via::Conn,
                    call: o["call"].as_u64().unwrap_or(0),
                    ret: if o["ret"].is_null() { None } else { Some((o["ret"]["t"].as_u64().unwrap_or(0), tree_from(&o["ret"]["reply"]))) },
                })
                .collect();
            rep.evaluations += 1;
            judge_opt(&mut rep, &hist, &w["witness"]["cfg"], pid, po);
        }
        rep.note("replay re-judges the recorded history offline (schedules are not replayable by seed)");
        rep.finish(args);
        return;
    }
    let lua = cfg!(feature = "lua");
    let n = args.get_u64("histories", if args.thorough() { 3000 } else { 300 });
    verif_hooks::set_pause(Some(pause_cb));
    let mut rng = args.rng(22);
    for h in 0..n {
        let workers = [2usize, 4, 8][rng.gen_range(0..3)];
        let clients = rng.gen_range(2..7);
        let keys = rng.gen_range(1..4);
        let max_burst = [1usize, 3, 6, 10][rng.gen_range(0..4)];
        // keep each key's sub-history inside the checker's 63-operation window
        let budget_ops = (36 * keys / clients).max(3);
        let bursts = (budget_ops / ((max_burst + 1) / 2).max(1)).clamp(2, 12);
        let cfg = ConnCfg {
            shards: [1usize, 2, 4, 16][rng.gen_range(0..4)],
            clients,
            keys,
            bursts,
            max_burst,
            batch_threshold: [1usize, 2, 3][rng.gen_range(0..3)],
            min_pipeline_buffer: [0usize, 14, 60][rng.gen_range(0..3)],
            read_size: [24usize, 64, 8192][rng.gen_range(0..3)],
            shared_pool: rng.gen_bool(0.5),
            lua,
            adaptive: h % 4 == 3,
        };
        if cfg.adaptive {
            rep.count("histories_on_an_adaptive_node");
        }
        PAUSE_SEED.store(h64(&(args.seed, args.shard, h, 5u8)), Ordering::Relaxed);
        let rt = tokio::runtime::Builder::new_multi_thread().worker_threads(workers).enable_all().build().unwrap();
        let seed = h64(&(args.seed, args.shard as u64, h, 78u8));
        let out = rt.block_on(run_conn_history(&cfg, seed));
        rt.shutdown_background();
        rep.evaluations += 1;
        let cj = json!({"shards": cfg.shards, "clients": cfg.clients, "keys": cfg.keys, "bursts": cfg.bursts, "max_burst": cfg.max_burst, "batch_threshold": cfg.batch_threshold,
            "min_pipeline_buffer": cfg.min_pipeline_buffer, "read_size": cfg.read_size, "shared_pool": cfg.shared_pool, "workers": workers});
        for b in &out.bursts_by_len {
            rep.count(&format!("burst_len:{}", if *b >= 6 { "6+".to_string() } else { b.to_string() }));
        }
        for (c, what, w) in &out.anomalies {
            // a missing / surplus / undecodable reply is C04's "exactly one reply per command"; under C02 the
            // affected operations simply stay open (no verdict from them) and the anomaly is counted
            rep.count(&format!("anomaly:{}", what));
            if po {
                rep.violation(format!("C04|conc|{}", what), format!("client {} on a connection shared with {} other clients: {}", c, cfg.clients - 1, what), json!({"cfg": cj, "anomaly": w, "history": out.hist.iter().filter(|r| r.client == *c).map(op_json).collect::<Vec<_>>()}));
            }
        }
        if !po && !out.anomalies.is_empty() {
            rep.inconclusive(format!("{} connection(s) lost, gained or garbled a reply; that is C04's verdict (c04-conc leg), the history is judged with those operations left open", out.anomalies.len()));
        }
        judge_opt(&mut rep, &out.hist, &cj, pid, po);
        rep.count(&format!("shards:{}", cfg.shards));
        if h < 2 {
            rep.sample(json!({"cfg": cj, "first_ops": out.hist.iter().take(6).map(op_json).collect::<Vec<_>>()}));
        }
    }
    verif_hooks::set_pause(None);
    if rep.counters.get("overlapping_pairs").copied().unwrap_or(0) == 0 {
        rep.inconclusive("no two operations of different connections overlapped in time");
    }
    if let Some(t) = rep.counters.get("checker_timeouts") {
        if *t * 10 > rep.evaluations {
            rep.inconclusive("the linearizability checker timed out on more than 10% of the key histories");
        }
    }
    rep.finish(args);
}
