//! C07 — CRDT merge is commutative, associative and idempotent in everything it exposes.
//!
//! Values are *grown* through the real APIs in four small "worlds":
//!   shard : 2-4 `ShardReplicaState`s doing record_write / record_delete / record_hash_write /
//!           record_hash_delete on one key and exchanging deltas (and anti-entropy snapshots) in any order;
//!   api   : 2-4 replicas each owning one `ReplicatedValue` of any CRDT kind (`with_crdt`, `crdt_mut`,
//!           `set`, `hash_set`, `expiry_ms`, `with_replication_factor`) and merging each other's snapshots;
//!   inner : same as api but all replicas use ONE kind and the law subject is the inner lattice merge;
//!   vc    : bare `VectorClock`s.
//! Every snapshot a client/peer could have seen goes into the pool of that history; the three laws are then
//! checked exhaustively over the pool (all i; all i<j; all ordered triples) on the observable projection π.
use crate::common::*;
use rand::seq::SliceRandom;
use rand::Rng as _;
use redis_sim::redis::SDS;
use redis_sim::replication::anti_entropy::KeyDigest;
use redis_sim::replication::{
    ConsistencyLevel, CrdtValue, LamportClock, ReplicaId, ReplicatedValue, ReplicationDelta, ShardReplicaState, VectorClock,
};
use serde::{Deserialize, Serialize};
use serde_json::{json, Value};
use std::collections::BTreeSet;

/// replica ids used by the worlds; π probes per-replica state (counter entries, next tag, clock entry) for all of them
const UNIVERSE: [u64; 6] = [1, 2, 3, 4, 7, 9];
const KINDS: [&str; 6] = ["lww", "hash", "gcounter", "pncounter", "gset", "orset"];
const KEY: &str = "k";

#[derive(Clone, Debug, Serialize, Deserialize)]
struct Setup {
    world: String, // shard | api | inner | vc
    rids: Vec<u64>,
    causal: bool,
    kind: String, // inner world only
}

#[derive(Clone, Debug, Serialize, Deserialize, PartialEq)]
enum Op {
    Nop,
    // shard world (r / to / from are indices into Setup.rids)
    Write { r: usize, v: String, exp: Option<u64> },
    Del { r: usize },
    HSet { r: usize, f: Vec<(String, String)> },
    HDel { r: usize, f: Vec<String> },
    Other { r: usize },               // a write to another key: only advances r's clock
    Deliver { op: usize, to: usize }, // apply the delta produced by ops[op] at `to` (any order, duplicates allowed)
    Sync { from: usize, to: usize },  // anti-entropy: `from` sends its current value of the key as a delta
    // api / inner / vc worlds
    Create { r: usize, kind: String },
    Mut { r: usize, m: u32, peer: usize }, // kind-appropriate local mutation number m
    Retype { r: usize, hash: bool, m: u32 }, // SET / HSET on a key of another kind (fresh stamp)
    Exp { r: usize, e: u64 },
    Rf { r: usize, rf: u8 },
    Recv { from: usize, to: usize }, // `to` merges the current snapshot of `from`
    Inc { r: usize },
}

#[derive(Clone, Debug)]
enum V {
    Rv(ReplicatedValue),
    Crdt(CrdtValue),
    Vc(VectorClock),
}

fn merge(a: &V, b: &V) -> V {
    match (a, b) {
        (V::Rv(a), V::Rv(b)) => V::Rv(a.merge(b)),
        (V::Crdt(a), V::Crdt(b)) => V::Crdt(a.try_merge(b).expect("inner pools hold a single kind")),
        (V::Vc(a), V::Vc(b)) => V::Vc(a.merge(b)),
        _ => unreachable!("pools are homogeneous"),
    }
}

/// In a debug-assertions build the tree's own invariant checks run on every pairwise merge result.
fn verify(v: &V) {
    let c = match v {
        V::Rv(r) => &r.crdt,
        V::Crdt(c) => c,
        V::Vc(vc) => return vc.verify_invariants(),
    };
    match c {
        CrdtValue::Lww(l) => l.verify_invariants(),
        CrdtValue::GCounter(g) => g.verify_invariants(),
        CrdtValue::PNCounter(p) => p.verify_invariants(),
        CrdtValue::GSet(s) => s.verify_invariants(),
        CrdtValue::ORSet(s) => s.verify_invariants(),
        CrdtValue::Hash(h) => h.values().for_each(|l| l.verify_invariants()),
    }
}

// ---------------------------------------------------------------- observable projection π

/// (name, numbers, bytes): one observable fact about the content
type Atom = (String, [u64; 3], Option<Vec<u8>>);

#[derive(Clone, Debug, PartialEq, Eq, Hash, Default)]
struct Pi {
    kind: &'static str,
    value: Vec<Atom>, // canonical (sorted) content: live value/tombstone, fields+stamps, totals+entries, members+tags
    expiry: Option<u64>,
    vc: Option<Vec<(u64, u64)>>,
    rf: Option<u8>,
    stamp: Option<(u64, u64)>, // outer (time, replica)
    digest: u64,               // anti-entropy KeyDigest.value_hash
}

fn vc_entries(vc: &VectorClock) -> Vec<(u64, u64)> {
    UNIVERSE.iter().map(|&r| (r, vc.get(&ReplicaId(r)))).filter(|e| e.1 > 0).collect()
}

fn json_counts(v: &Value, tag: &str, out: &mut Vec<Atom>) {
    if let Some(m) = v["counts"].as_object() {
        for (k, c) in m {
            let c = c.as_u64().unwrap_or(0);
            if c > 0 {
                out.push((tag.to_string(), [k.parse().unwrap_or(u64::MAX), c, 0], None));
            }
        }
    }
}

fn pi_crdt(c: &CrdtValue) -> Pi {
    let reg = |name: &str, l: &redis_sim::replication::LwwRegister<SDS>| -> Atom {
        (name.to_string(), [l.timestamp.time, l.timestamp.replica_id.0, l.tombstone as u64], l.get().map(|s| s.as_bytes().to_vec()))
    };
    let mut a: Vec<Atom> = vec![];
    match c {
        CrdtValue::Lww(l) => a.push(reg("", l)),
        CrdtValue::Hash(h) => a.extend(h.iter().map(|(f, l)| reg(f, l))),
        CrdtValue::GCounter(g) => {
            a.push(("\0total".into(), [g.value(), g.is_empty() as u64, 0], None));
            for &r in &UNIVERSE {
                let n = g.get_replica_count(&ReplicaId(r));
                if n > 0 {
                    a.push(("entry".into(), [r, n, 0], None));
                }
            }
        }
        CrdtValue::PNCounter(p) => {
            a.push(("\0total".into(), [p.value() as u64, p.is_empty() as u64, 0], None));
            // per-replica entries are private; a peer sees them in the serialised delta
            let j = serde_json::to_value(p).expect("PNCounter serialises");
            json_counts(&j["positive"], "p", &mut a);
            json_counts(&j["negative"], "n", &mut a);
        }
        CrdtValue::GSet(s) => {
            a.push(("\0len".into(), [s.len() as u64, s.is_empty() as u64, 0], None));
            a.extend(s.elements().map(|e| (e.clone(), [s.contains(e) as u64, 0, 0], None)));
        }
        CrdtValue::ORSet(s) => {
            a.push(("\0len".into(), [s.len() as u64, s.is_empty() as u64, 0], None));
            for e in s.elements() {
                for t in s.get_tags(e).into_iter().flatten() {
                    a.push((e.clone(), [t.replica_id.0, t.sequence, s.contains(e) as u64], None));
                }
            }
            // the tag each replica would mint next (what `next_sequence` is for)
            for &r in &UNIVERSE {
                let seq = s.clone().add("\0probe".into(), ReplicaId(r)).sequence;
                if seq > 0 {
                    a.push(("\0next".into(), [r, seq, 0], None));
                }
            }
        }
    }
    a.sort();
    Pi { kind: c.type_name(), value: a, ..Pi::default() }
}

fn pi(v: &V) -> Pi {
    match v {
        V::Crdt(c) => pi_crdt(c),
        V::Vc(vc) => Pi { kind: "vclock", value: vc_entries(vc).into_iter().map(|(r, n)| ("entry".to_string(), [r, n, 0], None)).collect(), ..Pi::default() },
        V::Rv(r) => {
            let mut p = pi_crdt(&r.crdt);
            // the client-level accessors must agree with the inner view
            p.value.push(("\0client".into(), [r.is_tombstone() as u64, r.is_hash() as u64, 0], r.get().map(|s| s.as_bytes().to_vec())));
            p.expiry = r.expiry_ms;
            p.vc = r.vector_clock.as_ref().map(vc_entries);
            p.rf = r.replication_factor;
            p.stamp = Some((r.timestamp.time, r.timestamp.replica_id.0));
            p.digest = KeyDigest::new(KEY, r).value_hash;
            p
        }
    }
}

fn show(p: &Pi) -> Value {
    let atoms: Vec<Value> = p
        .value
        .iter()
        .map(|(n, x, b)| json!({"name": lossy(n.as_bytes()), "nums": x, "bytes": b.as_ref().map(|b| lossy(b))}))
        .collect();
    json!({"kind": p.kind, "content": atoms, "expiry": p.expiry, "vector_clock": p.vc, "rf": p.rf, "outer_stamp": p.stamp})
}

fn diff_component(l: &Pi, r: &Pi) -> Option<&'static str> {
    Some(if l.kind != r.kind || l.value != r.value {
        "value"
    } else if l.expiry != r.expiry {
        "expiry"
    } else if l.vc != r.vc {
        "vector-clock"
    } else if l.rf != r.rf {
        "replication-factor"
    } else if l.stamp.map(|s| s.0) != r.stamp.map(|s| s.0) {
        "outer-stamp.time"
    } else if l.stamp != r.stamp {
        "outer-stamp.replica"
    } else if l.digest != r.digest {
        "digest"
    } else {
        return None;
    })
}

fn site(s: &Setup) -> &'static str {
    match (s.world.as_str(), s.kind.as_str()) {
        ("vc", _) => "VectorClock::merge",
        ("inner", "lww") => "LwwRegister::merge",
        ("inner", "hash") => "CrdtValue::try_merge[hash]",
        ("inner", "gcounter") => "GCounter::merge",
        ("inner", "pncounter") => "PNCounter::merge",
        ("inner", "gset") => "GSet::merge",
        ("inner", "orset") => "ORSet::merge",
        _ => "ReplicatedValue::merge",
    }
}

/// Stable signature: site, law, first differing component of π (in the order value, expiry, vector clock, rf,
/// outer stamp), and for a value difference of whole `ReplicatedValue`s the operand class.
fn signature(s: &Setup, law: &str, operands: &[&Pi], l: &Pi, r: &Pi) -> String {
    let comp = diff_component(l, r).unwrap_or("none");
    if comp != "value" || s.world == "inner" || s.world == "vc" {
        return format!("C07|{}|{}|{}", site(s), law, comp);
    }
    let kinds = if operands.iter().all(|p| p.kind == operands[0].kind) { format!("same:{}", operands[0].kind) } else { "mixed".to_string() };
    let mut tied = false;
    for i in 0..operands.len() {
        for j in 0..i {
            tied |= operands[i].stamp == operands[j].stamp && operands[i] != operands[j];
        }
    }
    format!("C07|{}|{}|value|kinds={}|outer-stamps={}", site(s), law, kinds, if tied { "tied" } else { "distinct" })
}

// ---------------------------------------------------------------- worlds

fn sds(s: &str) -> SDS {
    SDS::from_str(s)
}

fn run_shard(s: &Setup, ops: &[Op]) -> Vec<V> {
    let lvl = if s.causal { ConsistencyLevel::Causal } else { ConsistencyLevel::Eventual };
    let mut reps: Vec<ShardReplicaState> = s.rids.iter().map(|&r| ShardReplicaState::new(ReplicaId(r), lvl)).collect();
    let n = reps.len();
    let mut deltas: Vec<Option<ReplicationDelta>> = vec![None; ops.len()];
    let mut pool = vec![];
    for (i, op) in ops.iter().enumerate() {
        let mut touched = None;
        match op {
            Op::Write { r, v, exp } => {
                deltas[i] = Some(reps[r % n].record_write(KEY.into(), sds(v), *exp));
                touched = Some(r % n);
            }
            Op::Del { r } => {
                deltas[i] = reps[r % n].record_delete(KEY.into());
                touched = Some(r % n);
            }
            Op::HSet { r, f } if !f.is_empty() => {
                deltas[i] = Some(reps[r % n].record_hash_write(KEY.into(), f.iter().map(|(a, b)| (a.clone(), sds(b))).collect()));
                touched = Some(r % n);
            }
            Op::HDel { r, f } if !f.is_empty() => {
                deltas[i] = reps[r % n].record_hash_delete(KEY.into(), f.clone());
                touched = Some(r % n);
            }
            Op::Other { r } => {
                reps[r % n].record_write("other".into(), sds("x"), None);
            }
            Op::Deliver { op, to } => {
                if let Some(Some(d)) = deltas.get(*op).filter(|_| *op < i) {
                    if d.source_replica != reps[to % n].replica_id {
                        reps[to % n].apply_remote_delta(d.clone());
                        touched = Some(to % n);
                    }
                }
            }
            Op::Sync { from, to } if from % n != to % n => {
                if let Some(v) = reps[from % n].get_replicated(KEY) {
                    let d = ReplicationDelta::new(KEY.into(), v.clone(), reps[from % n].replica_id);
                    reps[to % n].apply_remote_delta(d.clone());
                    deltas[i] = Some(d);
                    touched = Some(to % n);
                }
            }
            _ => {}
        }
        if let Some(d) = &deltas[i] {
            pool.push(V::Rv(d.value.clone()));
        }
        if let Some(v) = touched.and_then(|t| reps[t].get_replicated(KEY)) {
            pool.push(V::Rv(v.clone()));
        }
    }
    pool
}

struct ARep {
    rid: ReplicaId,
    clock: LamportClock,
    vc: VectorClock,
    val: Option<ReplicatedValue>,
}

fn pick<'a>(xs: &[&'a str], m: u32) -> &'a str {
    xs[(m as usize / 4) % xs.len()]
}

/// One local, kind-appropriate mutation through the public API.
fn mutate(reps: &mut [ARep], r: usize, m: u32, peer: usize, causal: bool) {
    let rid = reps[r].rid;
    let ARep { clock, vc, val, .. } = &mut reps[r];
    let Some(v) = val.as_mut() else { return };
    let (val_s, field, elem) = (pick(&["a", "b", "", "c"], m), pick(&["f", "g", "h"], m), pick(&["x", "y", "z"], m));
    let mut removed = None;
    match v.crdt_type() {
        // (whatever these mutators return is not used: a changed return type must not stop the harness from building)
        "lww" if m % 4 == 3 => {
            let _ = v.delete(clock);
        }
        "lww" => {
            let _ = v.set(sds(val_s), clock, if causal { Some(vc) } else { None });
        }
        "hash" if m % 4 == 3 => {
            let _ = v.hash_delete(field, clock);
        }
        "hash" => {
            let _ = v.hash_set(field.into(), sds(val_s), clock);
        }
        "gcounter" => {
            let g = v.crdt_mut().as_gcounter_mut().unwrap();
            if m % 2 == 0 { g.increment(rid) } else { g.increment_by(rid, (m as u64 / 2) % 4) }
        }
        "pncounter" => {
            let p = v.crdt_mut().as_pncounter_mut().unwrap();
            match m % 4 {
                0 => p.increment(rid),
                1 => p.decrement(rid),
                2 => p.increment_by(rid, (m as u64 / 4) % 4),
                _ => p.decrement_by(rid, (m as u64 / 4) % 4),
            }
        }
        "gset" => {
            v.crdt_mut().as_gset_mut().unwrap().add(elem.into());
        }
        _ => {
            let s = v.crdt_mut().as_orset_mut().unwrap();
            if m % 4 < 2 {
                s.add(elem.into(), rid);
            } else {
                removed = Some(s.remove(&elem.to_string()));
            }
        }
    }
    // an observed remove is also shipped to a peer as an explicit remove operation
    if let (Some(tags), true) = (removed, m % 4 == 3) {
        let n = reps.len();
        if let Some(s) = reps[peer % n].val.as_mut().and_then(|v| v.crdt_mut().as_orset_mut()) {
            s.apply_remove(&elem.to_string(), &tags);
        }
    }
}

fn run_api(s: &Setup, ops: &[Op]) -> Vec<V> {
    let inner = s.world == "inner";
    let mut reps: Vec<ARep> =
        s.rids.iter().map(|&r| ARep { rid: ReplicaId(r), clock: LamportClock::new(ReplicaId(r)), vc: VectorClock::new(), val: None }).collect();
    let n = reps.len();
    let mut pool = vec![];
    for op in ops {
        let touched = match op {
            Op::Create { r, kind } if reps[r % n].val.is_none() => {
                let rid = reps[r % n].rid;
                reps[r % n].val = Some(match kind.as_str() {
                    "lww" => ReplicatedValue::new(rid),
                    "hash" => ReplicatedValue::with_crdt(CrdtValue::new_hash(), rid),
                    "gcounter" => ReplicatedValue::with_crdt(CrdtValue::new_gcounter(), rid),
                    "pncounter" => ReplicatedValue::with_crdt(CrdtValue::new_pncounter(), rid),
                    "gset" => ReplicatedValue::with_crdt(CrdtValue::new_gset(), rid),
                    _ => ReplicatedValue::with_crdt(CrdtValue::new_orset(), rid),
                });
                r % n
            }
            Op::Mut { r, m, peer } => {
                mutate(&mut reps, r % n, *m, *peer, s.causal);
                r % n
            }
            Op::Retype { r, hash, m } if !inner => {
                let ARep { clock, vc, val, .. } = &mut reps[r % n];
                if let Some(v) = val.as_mut() {
                    if *hash {
                        v.hash_set(pick(&["f", "g"], *m).into(), sds(pick(&["a", "b"], *m)), clock);
                    } else {
                        v.set(sds(pick(&["a", "b"], *m)), clock, if s.causal { Some(vc) } else { None });
                    }
                }
                r % n
            }
            Op::Exp { r, e } if !inner => {
                if let Some(v) = reps[r % n].val.as_mut() {
                    v.expiry_ms = Some(*e);
                }
                r % n
            }
            Op::Rf { r, rf } if !inner => {
                let v = reps[r % n].val.take();
                reps[r % n].val = v.map(|v| v.with_replication_factor(*rf));
                r % n
            }
            Op::Recv { from, to } if from % n != to % n => {
                if let Some(snap) = reps[from % n].val.clone() {
                    let t = &mut reps[to % n];
                    t.clock.update(&snap.timestamp);
                    t.val = Some(match t.val.take() {
                        Some(l) => l.merge(&snap),
                        None => snap,
                    });
                }
                to % n
            }
            _ => continue,
        };
        if let Some(v) = &reps[touched].val {
            pool.push(if inner { V::Crdt(v.crdt.clone()) } else { V::Rv(v.clone()) });
        }
    }
    if inner {
        pool.retain(|v| matches!(v, V::Crdt(c) if c.type_name() == s.kind));
    }
    pool
}

fn run_vc(s: &Setup, ops: &[Op]) -> Vec<V> {
    let mut reps: Vec<VectorClock> = s.rids.iter().map(|_| VectorClock::new()).collect();
    let n = reps.len();
    let mut pool = vec![V::Vc(VectorClock::new())];
    for op in ops {
        let t = match op {
            Op::Inc { r } => {
                reps[r % n].increment(ReplicaId(s.rids[r % n]));
                r % n
            }
            Op::Recv { from, to } => {
                reps[to % n] = reps[to % n].merge(&reps[from % n]);
                to % n
            }
            _ => continue,
        };
        pool.push(V::Vc(reps[t].clone()));
    }
    pool
}

/// Run a history and return its pool: distinct (by π) snapshots, at most `cap`, evenly thinned.
fn run(s: &Setup, ops: &[Op], cap: usize) -> Vec<V> {
    let raw = match s.world.as_str() {
        "shard" => run_shard(s, ops),
        "vc" => run_vc(s, ops),
        _ => run_api(s, ops),
    };
    let mut seen = BTreeSet::new();
    let uniq: Vec<V> = raw.into_iter().filter(|v| seen.insert(h64(&pi(v)))).collect();
    if uniq.len() <= cap {
        return uniq;
    }
    (0..cap).map(|i| uniq[i * uniq.len() / cap].clone()).collect()
}

// ---------------------------------------------------------------- generators

/// history length: mostly 6-16 operations, one history in four 17-28 (larger pools, deeper merges)
fn hist_len(rng: &mut Rng) -> usize {
    if rng.gen_bool(0.25) {
        rng.gen_range(17..=28)
    } else {
        rng.gen_range(6..=16)
    }
}

fn gen_setup(rng: &mut Rng, world: &str, kind: &str) -> Setup {
    let mut ids = UNIVERSE.to_vec();
    ids.shuffle(rng);
    ids.truncate(rng.gen_range(2..=4));
    Setup { world: world.into(), rids: ids, causal: rng.gen_bool(0.4), kind: kind.into() }
}

fn gen_shard(rng: &mut Rng) -> (Setup, Vec<Op>) {
    let s = gen_setup(rng, "shard", "");
    let n = s.rids.len();
    let mut ops = vec![];
    let mut producers: Vec<usize> = vec![];
    let vals = ["a", "b", "", "c"];
    let fields = ["f", "g", "h"];
    for i in 0..hist_len(rng) {
        let r = rng.gen_range(0..n);
        let op = match rng.gen_range(0..100) {
            0..=17 => Op::Write { r, v: vals[rng.gen_range(0..4)].into(), exp: [None, None, Some(100), Some(200)][rng.gen_range(0..4)] },
            18..=25 => Op::Del { r },
            26..=41 => Op::HSet {
                r,
                f: (0..rng.gen_range(1..=2)).map(|_| (fields[rng.gen_range(0..3)].to_string(), vals[rng.gen_range(0..4)].to_string())).collect(),
            },
            42..=49 => Op::HDel { r, f: (0..rng.gen_range(1..=2)).map(|_| fields[rng.gen_range(0..3)].to_string()).collect() },
            50..=59 => Op::Other { r },
            60..=87 if !producers.is_empty() => Op::Deliver { op: producers[rng.gen_range(0..producers.len())], to: r },
            _ => Op::Sync { from: r, to: (r + rng.gen_range(1..n)) % n },
        };
        if !matches!(op, Op::Other { .. } | Op::Deliver { .. }) {
            producers.push(i);
        }
        ops.push(op);
    }
    (s, ops)
}

fn gen_api(rng: &mut Rng, kind: Option<&str>) -> (Setup, Vec<Op>) {
    let s = gen_setup(rng, if kind.is_some() { "inner" } else { "api" }, kind.unwrap_or(""));
    let n = s.rids.len();
    let mut ops = vec![];
    for r in 0..n {
        if r == 0 || rng.gen_bool(0.8) {
            ops.push(Op::Create { r, kind: kind.unwrap_or(KINDS[rng.gen_range(0..KINDS.len())]).to_string() });
        }
    }
    for _ in 0..hist_len(rng) {
        let r = rng.gen_range(0..n);
        let other = (r + rng.gen_range(1..n)) % n;
        ops.push(match rng.gen_range(0..100) {
            0..=44 => Op::Mut { r, m: rng.gen_range(0..64), peer: other },
            45..=74 => Op::Recv { from: other, to: r },
            75..=84 if kind.is_none() => Op::Retype { r, hash: rng.gen_bool(0.5), m: rng.gen_range(0..16) },
            85..=92 if kind.is_none() => Op::Exp { r, e: [100, 200, 300][rng.gen_range(0..3)] },
            93..=99 if kind.is_none() => Op::Rf { r, rf: rng.gen_range(1..=3) },
            _ => Op::Mut { r, m: rng.gen_range(0..64), peer: other },
        });
    }
    (s, ops)
}

fn gen_vc(rng: &mut Rng) -> (Setup, Vec<Op>) {
    let s = gen_setup(rng, "vc", "");
    let n = s.rids.len();
    let ops = (0..hist_len(rng))
        .map(|_| {
            let r = rng.gen_range(0..n);
            if rng.gen_bool(0.6) { Op::Inc { r } } else { Op::Recv { from: (r + rng.gen_range(1..n)) % n, to: r } }
        })
        .collect();
    (s, ops)
}

// ---------------------------------------------------------------- the oracle

struct Finding {
    sig: String,
    law: &'static str,
    idx: [usize; 3],
    left: Pi,
    right: Pi,
}

/// Both sides of one law instance, computed directly (used for replay and for building witnesses).
fn eval_case(pool: &[V], law: &str, idx: [usize; 3]) -> (Pi, Pi) {
    let (a, b, c) = (&pool[idx[0]], &pool[idx[1]], &pool[idx[2]]);
    match law {
        "idempotence" => (pi(&merge(a, a)), pi(a)),
        "commutativity" => (pi(&merge(a, b)), pi(&merge(b, a))),
        _ => (pi(&merge(a, &merge(b, c))), pi(&merge(&merge(a, b), c))),
    }
}

/// 0 lt / 1 gt by time, 2/3 same time ordered by replica, 4 identical stamp, 9 no stamp
fn stamp_rel(a: &Pi, b: &Pi) -> u8 {
    let lww = |p: &Pi| if p.kind == "lww" { p.value.iter().find(|x| x.0.is_empty()).map(|x| (x.1[0], x.1[1])) } else { None };
    match (a.stamp.or(lww(a)), b.stamp.or(lww(b))) {
        (Some(x), Some(y)) if x == y => 4,
        (Some(x), Some(y)) if x.0 == y.0 => 2 + (x.1 > y.1) as u8,
        (Some(x), Some(y)) => (x.0 > y.0) as u8,
        _ => 9,
    }
}

fn tomb(p: &Pi) -> u8 {
    p.value.iter().filter(|a| !a.0.starts_with('\0')).fold(0, |t, a| t | (a.1[2] == 1 && a.2.is_none() && (p.kind == "lww" || p.kind == "hash")) as u8)
}

/// Exhaustive check of the three laws over one pool. Returns the first failing case per signature.
fn check_pool(s: &Setup, pool: &[V], rep: &mut Report) -> Vec<Finding> {
    let n = pool.len();
    let p: Vec<Pi> = pool.iter().map(pi).collect();
    let m: Vec<Vec<V>> = (0..n).map(|i| (0..n).map(|j| merge(&pool[i], &pool[j])).collect()).collect();
    let mp: Vec<Vec<Pi>> = m.iter().map(|row| row.iter().map(pi).collect()).collect();
    m.iter().flatten().for_each(verify);
    // lattice relation of two pool values as observed through merge: 0 equal, 1 a<=b, 2 b<=a, 3 concurrent
    let rel = |i: usize, j: usize| -> u8 {
        if p[i] == p[j] { 0 } else if mp[i][j] == p[j] { 1 } else if mp[i][j] == p[i] { 2 } else { 3 }
    };
    let st = site(s);
    let mut out: Vec<Finding> = vec![];
    let mut fail = |rep: &mut Report, law: &'static str, idx: [usize; 3], l: &Pi, r: &Pi| {
        let k = if law == "idempotence" { 1 } else if law == "commutativity" { 2 } else { 3 };
        let operands: Vec<&Pi> = idx[..k].iter().map(|&i| &p[i]).collect();
        let sig = signature(s, law, &operands, l, r);
        rep.count(&format!("fail:{}", &sig[4..]));
        if !out.iter().any(|f| f.sig == sig) {
            out.push(Finding { sig, law, idx, left: l.clone(), right: r.clone() });
        }
    };
    for i in 0..n {
        rep.evaluations += 1;
        rep.count("cases:idempotence");
        if mp[i][i] != p[i] {
            fail(rep, "idempotence", [i, 0, 0], &mp[i][i], &p[i]);
        }
        for j in i + 1..n {
            rep.evaluations += 1;
            rep.count("cases:commutativity");
            let (sr, rl) = (stamp_rel(&p[i], &p[j]), rel(i, j));
            rep.distinct(&("pair", st, p[i].kind, p[j].kind, sr, tomb(&p[i]), tomb(&p[j]), rl));
            if p[i].kind != p[j].kind {
                rep.count("pairs:mixed-kinds");
            }
            if sr == 2 || sr == 3 {
                rep.count("pairs:equal-time-different-replica");
            }
            if sr == 4 {
                // pools hold distinct values, so an identical stamp here means different content
                rep.count("pairs:identical-stamp-different-content");
                if st == "LwwRegister::merge" {
                    rep.count("pairs:lww-register-identical-stamp-different-content");
                }
            }
            if rl == 3 {
                rep.count(&format!("pairs:concurrent:{}", st));
            }
            if mp[i][j] != mp[j][i] {
                fail(rep, "commutativity", [i, j, 0], &mp[i][j], &mp[j][i]);
            }
        }
    }
    for i in 0..n {
        for j in 0..n {
            for k in 0..n {
                rep.evaluations += 1;
                if i != j || j != k {
                    let cls = (
                        ("triple", st, p[i].kind, p[j].kind, p[k].kind),
                        (stamp_rel(&p[i], &p[j]), stamp_rel(&p[j], &p[k]), stamp_rel(&p[i], &p[k])),
                        (tomb(&p[i]), tomb(&p[j]), tomb(&p[k])),
                        (rel(i, j), rel(j, k), rel(i, k)),
                    );
                    rep.distinct(&cls);
                }
                let l = pi(&merge(&pool[i], &m[j][k]));
                let r = pi(&merge(&m[i][j], &pool[k]));
                if l != r {
                    fail(rep, "associativity", [i, j, k], &l, &r);
                }
            }
        }
    }
    rep.add("cases:associativity", (n * n * n) as u64);
    out
}

/// Greedy history minimisation: blank ops (keeping indices stable) while the same signature is still found,
/// then drop the blanks. Returns the shrunk history and the failing case in *its* pool.
fn shrink(s: &Setup, ops: &[Op], cap: usize, sig: &str) -> (Vec<Op>, Option<Finding>) {
    let find = |ops: &[Op]| -> Option<Finding> {
        guard(|| check_pool(s, &run(s, ops, cap), &mut Report::new("C07", "scratch"))).ok()?.into_iter().find(|f| f.sig == sig)
    };
    let mut cur = ops.to_vec();
    for i in (0..cur.len()).rev() {
        let saved = std::mem::replace(&mut cur[i], Op::Nop);
        if saved == Op::Nop || find(&cur).is_none() {
            cur[i] = saved;
        }
    }
    // compact: remove Nops and renumber Deliver references
    let map: Vec<usize> = cur.iter().scan(0, |k, o| { let at = *k; *k += (*o != Op::Nop) as usize; Some(at) }).collect();
    let compact: Vec<Op> = cur
        .iter()
        .filter(|o| **o != Op::Nop)
        .map(|o| match o {
            Op::Deliver { op, to } => Op::Deliver { op: map[*op], to: *to },
            o => o.clone(),
        })
        .collect();
    match find(&compact) {
        Some(f) => (compact, Some(f)),
        None => { let f = find(&cur); (cur, f) }
    }
}

fn witness(s: &Setup, ops: &[Op], cap: usize, pool: &[V], f: &Finding) -> Value {
    let k = if f.law == "idempotence" { 1 } else if f.law == "commutativity" { 2 } else { 3 };
    json!({"setup": s, "ops": ops, "cap": cap, "law": f.law, "pick": f.idx,
           "operands": f.idx[..k].iter().map(|&i| show(&pi(&pool[i]))).collect::<Vec<_>>(),
           "left": show(&f.left), "right": show(&f.right)})
}

fn sides(law: &str) -> &'static str {
    match law {
        "idempotence" => "merge(a,a) vs a",
        "commutativity" => "merge(a,b) vs merge(b,a)",
        _ => "merge(a,merge(b,c)) vs merge(merge(a,b),c)",
    }
}

/// Grow one history, check its pool, report (shrunk) violations.
fn do_pool(rep: &mut Report, s: &Setup, ops: &[Op], cap: usize) {
    let pool = match guard(|| run(s, ops, cap)) {
        Ok(p) => p,
        Err(p) => {
            rep.count("growth_panics");
            rep.note(format!("a history panicked while being grown (not a C07 matter): {}", panic_class(&p)));
            return;
        }
    };
    rep.count(&format!("pools:{}", if s.world == "inner" { site(s) } else { &s.world }));
    rep.add("pool_values", pool.len() as u64);
    rep.max("pool_size", pool.len() as u64);
    for v in &pool {
        let p = pi(v);
        rep.count(&format!("values:{}", p.kind));
        for (on, name) in [(tomb(&p) == 1, "values:tombstoned"), (p.expiry.is_some(), "values:with-expiry"), (p.vc.is_some(), "values:with-vector-clock"), (p.rf.is_some(), "values:with-rf")] {
            if on {
                rep.count(name);
            }
        }
    }
    let findings = match guard(|| check_pool(s, &pool, rep)) {
        Ok(f) => f,
        Err(p) => {
            let sig = format!("C07|{}|panic|{}", site(s), panic_class(&p));
            if !rep.has_sig(&sig) {
                rep.violation(sig, format!("panic while merging pool values: {}", p), json!({"setup": s, "ops": ops, "cap": cap, "law": "panic"}));
            }
            return;
        }
    };
    for f in findings {
        if rep.has_sig(&f.sig) {
            rep.count("violations_raw");
            continue;
        }
        let (sops, sf) = shrink(s, ops, cap, &f.sig);
        let (wops, wf) = match sf { Some(sf) => (sops, sf), None => (ops.to_vec(), f) };
        let wpool = run(s, &wops, cap);
        let detail = format!("{} differ in {} ({} ops after shrinking)", sides(wf.law), diff_component(&wf.left, &wf.right).unwrap_or("?"), wops.len());
        rep.violation(wf.sig.clone(), detail, witness(s, &wops, cap, &wpool, &wf));
    }
    if rep.samples.len() < 4 && pool.len() >= 4 && (rep.samples.is_empty() || rep.samples.iter().all(|x| x["setup"]["world"] != s.world.as_str())) {
        rep.sample(json!({"setup": s, "ops": ops, "pool_size": pool.len(), "pool": pool.iter().take(6).map(|v| show(&pi(v))).collect::<Vec<_>>()}));
    }
}

pub fn laws_leg(args: &Args) {
    let mut rep = Report::new("C07", "laws");
    if let Some(path) = &args.replay {
        let w: Value = serde_json::from_str(&std::fs::read_to_string(path).expect("replay file")).expect("json");
        let w = &w["witness"];
        let s: Setup = serde_json::from_value(w["setup"].clone()).expect("setup");
        let ops: Vec<Op> = serde_json::from_value(w["ops"].clone()).expect("ops");
        let cap = w["cap"].as_u64().unwrap_or(40) as usize;
        let law = w["law"].as_str().unwrap_or("panic").to_string();
        if law == "panic" {
            do_pool(&mut rep, &s, &ops, cap);
        } else {
            let pool = run(&s, &ops, cap);
            let idx = [0, 1, 2].map(|i| w["pick"][i].as_u64().unwrap_or(0) as usize);
            rep.evaluations += 1;
            if idx.iter().all(|&i| i < pool.len()) {
                let (l, r) = eval_case(&pool, &law, idx);
                if l != r {
                    let k = if law == "idempotence" { 1 } else if law == "commutativity" { 2 } else { 3 };
                    let ps: Vec<Pi> = idx[..k].iter().map(|&i| pi(&pool[i])).collect();
                    let sig = signature(&s, &law, &ps.iter().collect::<Vec<_>>(), &l, &r);
                    rep.violation(sig, format!("{} differ", sides(&law)), json!({"left": show(&l), "right": show(&r)}));
                }
            } else {
                rep.inconclusive("witness indices are outside the regrown pool");
            }
        }
        rep.finish(args);
        return;
    }
    let mut rng = args.rng(7);
    let t = args.thorough();
    // reported even when 0: only such a pair could tell `>=` from `>` in LwwRegister::merge
    rep.add("pairs:lww-register-identical-stamp-different-content", 0);
    let cap = args.get_u64("cap", if t { 32 } else { 24 }) as usize;
    let n_shard = args.get_u64("shard-pools", if t { 6000 } else { 3000 });
    let n_api = args.get_u64("api-pools", if t { 4000 } else { 2000 });
    let n_inner = args.get_u64("inner-pools", if t { 600 } else { 300 });
    for _ in 0..n_shard {
        let (s, ops) = gen_shard(&mut rng);
        do_pool(&mut rep, &s, &ops, cap);
    }
    for _ in 0..n_api {
        let (s, ops) = gen_api(&mut rng, None);
        do_pool(&mut rep, &s, &ops, cap);
    }
    for kind in KINDS {
        for _ in 0..n_inner {
            let (s, ops) = gen_api(&mut rng, Some(kind));
            do_pool(&mut rep, &s, &ops, cap);
        }
    }
    for _ in 0..n_inner {
        let (s, ops) = gen_vc(&mut rng);
        do_pool(&mut rep, &s, &ops, cap);
    }
    // did the run observe what it is supposed to quantify over?
    let c = |k: &str| rep.counters.get(k).copied().unwrap_or(0);
    let mut missing: Vec<String> = vec![];
    for k in ["pairs:mixed-kinds", "pairs:equal-time-different-replica", "values:tombstoned", "values:with-expiry", "values:with-vector-clock", "values:with-rf", "values:vclock"] {
        if c(k) == 0 {
            missing.push(k.to_string());
        }
    }
    for kind in KINDS {
        if c(&format!("values:{}", kind)) == 0 {
            missing.push(format!("values:{}", kind));
        }
    }
    for st in ["ReplicatedValue::merge", "CrdtValue::try_merge[hash]", "GCounter::merge", "PNCounter::merge", "GSet::merge", "ORSet::merge", "VectorClock::merge"] {
        if c(&format!("pairs:concurrent:{}", st)) == 0 {
            missing.push(format!("concurrent (incomparable) pairs for {}", st));
        }
    }
    if rep.counters.get("max:pool_size").copied().unwrap_or(0) < 8 {
        missing.push("a pool of at least 8 values".into());
    }
    let growth_panics = c("growth_panics");
    if !missing.is_empty() {
        rep.inconclusive(format!("never observed: {}", missing.join(", ")));
    }
    if growth_panics > 0 {
        rep.inconclusive("some histories panicked while being grown");
    }
    rep.exhaustive = true;
    rep.note(format!("laws checked exhaustively (all values, all unordered pairs, all ordered triples) over each pool of <= {} distinct snapshots; the space of histories (<= 28 ops, 2-4 replicas) is sampled", cap));
    rep.finish(args);
}
