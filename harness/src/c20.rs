//! C20 — simulation is reproducible: same (harness, preset, seed) => same trace, state, verdict.
//!
//! `c20-dump`  : run ONE (harness, preset, hseed, ops) and print its canonical dump on stdout
//!               (maps rendered in key order, sequences in their own order); a per-process
//!               RandomState probe goes to stderr (side channel).
//! `c20-repro` : the leg. Per case: two runs back-to-back on one fresh thread of this process
//!               (relation `rerun-same-thread`) and three fresh child processes running `c20-dump`
//!               (relation `cross-process`), all compared byte for byte, section by section.
use crate::common::*;
use rand::Rng as _;
use redis_sim::buggify::{self, FaultConfig};
use redis_sim::io::simulation::{NodeId, SimulatedRng};
use redis_sim::redis::*;
use redis_sim::replication::crdt_dst::*;
use redis_sim::simulator::dst_integration::RedisDSTSimulation;
use redis_sim::simulator::{self as sim, *};
use redis_sim::streaming::*;
use serde_json::json;
use std::collections::{BTreeMap, BTreeSet, HashMap};
use std::fmt::{Debug, Write as _};
use std::hash::BuildHasher;

const SEC: &str = "@@section ";
/// Section holding thread-cumulative counters (always last in a dump).
const ACCUMULATOR: &str = "result.buggify_stats";

/// Canonical dump: ordered named sections. Order = causal order (trace, final state, result,
/// accumulated statistics last) so that the FIRST differing section names the root divergence.
#[derive(Default)]
struct Dump {
    sections: Vec<(String, String)>,
    trace_items: usize,
}

impl Dump {
    fn sec(&mut self, name: &str, text: impl Into<String>) {
        self.sections.push((name.to_string(), text.into()));
    }
    /// A sequence section (kept in its own order); counts towards "non-empty trace".
    fn seq(&mut self, name: &str, items: impl IntoIterator<Item = String>) {
        let mut s = String::new();
        for (i, it) in items.into_iter().enumerate() {
            let _ = writeln!(s, "{} {}", i, it);
            self.trace_items += 1;
        }
        self.sec(name, s);
    }
    fn render(&self) -> String {
        let mut out = String::new();
        for (n, t) in &self.sections {
            out.push_str(SEC);
            out.push_str(n);
            out.push('\n');
            out.push_str(t);
            if !t.ends_with('\n') {
                out.push('\n');
            }
        }
        let _ = writeln!(out, "{}meta\ntrace_items={}", SEC, self.trace_items);
        out
    }
}

fn parse_sections(text: &str) -> Vec<(String, String)> {
    let mut out: Vec<(String, String)> = vec![];
    for line in text.lines() {
        if let Some(n) = line.strip_prefix(SEC) {
            out.push((n.to_string(), String::new()));
        } else if let Some(last) = out.last_mut() {
            last.1.push_str(line);
            last.1.push('\n');
        } else {
            out.push(("<preamble>".into(), format!("{}\n", line)));
        }
    }
    out
}

/// First section (in dump order) whose text differs; detail = first differing line of it.
fn first_diff(a: &str, b: &str) -> Option<(String, String)> {
    if a == b {
        return None;
    }
    let (sa, sb) = (parse_sections(a), parse_sections(b));
    for i in 0..sa.len().max(sb.len()) {
        match (sa.get(i), sb.get(i)) {
            (Some(x), Some(y)) if x.0 == y.0 && x.1 == y.1 => continue,
            (Some(x), Some(y)) if x.0 == y.0 => {
                let (mut la, mut lb) = (x.1.lines(), y.1.lines());
                let mut n = 0;
                loop {
                    n += 1;
                    let (p, q) = (la.next(), lb.next());
                    if p != q || p.is_none() {
                        let cut = |s: Option<&str>| s.map(|s| s.chars().take(240).collect::<String>()).unwrap_or("<end>".into());
                        return Some((x.0.clone(), format!("line {}: {:?}  VERSUS  {:?}", n, cut(p), cut(q))));
                    }
                }
            }
            (x, y) => {
                let nm = |s: Option<&(String, String)>| s.map(|s| s.0.clone()).unwrap_or("<none>".into());
                return Some(("<section-list>".into(), format!("section #{}: {} VERSUS {}", i, nm(x), nm(y))));
            }
        }
    }
    Some(("<whitespace>".into(), "dumps differ outside any section".into()))
}

// ---------------------------------------------------------------- canonical rendering helpers

fn sorted_map<K: Ord + Debug, V: Debug>(it: impl IntoIterator<Item = (K, V)>) -> String {
    let m: BTreeMap<K, V> = it.into_iter().collect();
    format!("{:?}", m)
}

fn dbg<T: Debug>(t: T) -> String {
    format!("{:?}", t)
}

fn value_text(v: &Value) -> String {
    match v {
        Value::String(s) => format!("string {}", lossy(s.as_bytes())),
        Value::List(l) => format!("list {:?}", l.range(0, -1).iter().map(|s| lossy(s.as_bytes())).collect::<Vec<_>>()),
        Value::Set(s) => format!("set {:?}", s.members().iter().map(|m| lossy(m.as_bytes())).collect::<BTreeSet<_>>()),
        Value::Hash(h) => format!("hash {}", sorted_map(h.get_all().iter().map(|(k, v)| (lossy(k.as_bytes()), lossy(v.as_bytes()))))),
        // a sorted set is a sequence ordered by (score, member): kept in its own order
        Value::SortedSet(z) => format!("zset {:?}", z.iter().map(|(m, s)| (m.to_string(), s)).collect::<Vec<_>>()),
        Value::Null => "null".into(),
    }
}

/// Final keyspace of an executor, keys in order; `live` = not logically expired.
fn exec_state(ex: &CommandExecutor) -> String {
    let mut m = BTreeMap::new();
    for (k, v) in ex.get_data().iter() {
        let live = ex.execute_readonly(&Command::Exists(vec![k.clone()])) == RespValue::Integer(1);
        m.insert(k.clone(), format!("live={} {}", live, value_text(v)));
    }
    let mut s = format!("time={:?} keys={}\n", ex.get_current_time(), m.len());
    for (k, v) in m {
        let _ = writeln!(s, "{} => {}", k, v);
    }
    s
}

/// Replies that are mathematically sets/maps are rendered in element order.
fn canon_reply(cmd: &Command, r: &RespValue) -> String {
    let sort = |v: &Vec<RespValue>| {
        let mut t: Vec<String> = v.iter().map(|e| format!("{:?}", e)).collect();
        t.sort();
        format!("unordered{:?}", t)
    };
    match (cmd, r) {
        (Command::SMembers(_) | Command::HKeys(_) | Command::HVals(_) | Command::Keys(_), RespValue::Array(Some(v))) => sort(v),
        (Command::HGetAll(_), RespValue::Array(Some(v))) => {
            let mut t: Vec<String> = v.chunks(2).map(|p| format!("{:?}", p)).collect();
            t.sort();
            format!("unordered-pairs{:?}", t)
        }
        _ => format!("{:?}", r),
    }
}

fn sds(s: &str) -> SDS {
    SDS::from_str(s)
}

// ---------------------------------------------------------------- the harness catalogue

const REDIS_OPS: u64 = 300;

/// (harness name, presets, default ops). A "harness name" is a distinct code path.
fn catalogue() -> Vec<(&'static str, Vec<&'static str>, u64)> {
    vec![
        ("ExecutorDSTHarness", vec!["new", "calm", "chaos", "string_heavy"], REDIS_OPS),
        ("ListDSTHarness", vec!["new", "high_churn", "modify_heavy"], REDIS_OPS),
        ("SetDSTHarness", vec!["new", "small_members", "high_churn", "large_members"], REDIS_OPS),
        ("HashDSTHarness", vec!["new", "small_fields", "high_churn"], REDIS_OPS),
        ("SortedSetDSTHarness", vec!["new", "small_keyspace", "large_keyspace"], REDIS_OPS),
        ("TransactionDSTHarness", vec!["new", "high_conflict", "error_heavy"], 150),
        ("GCounterDSTHarness", vec!["calm", "moderate", "chaos"], 200),
        ("PNCounterDSTHarness", vec!["calm", "moderate", "chaos"], 200),
        ("ORSetDSTHarness", vec!["calm", "moderate", "chaos"], 200),
        ("VectorClockDSTHarness", vec!["calm", "moderate", "chaos"], 200),
        ("MultiNodeSimulation.broadcast", vec!["lossless", "lossy", "burst"], 120),
        ("MultiNodeSimulation.partitioned", vec!["lossless", "lossy", "burst"], 120),
        ("run_partition_test", vec!["isolate_node", "split_brain", "asymmetric", "ring", "ring_heavy", "split_heavy", "mutual3_heavy"], 50),
        ("DSTSimulation", vec!["new", "calm", "chaos"], 400),
        ("RedisDSTSimulation", vec!["zipfian", "uniform", "zipfian+chaos-faults"], 120),
        ("Simulation", vec!["reliable", "drop30", "partition"], 60),
        ("SimulationHarness", vec!["script", "script+buggify", "script+eviction", "script+lua-random", "script+maxmemory"], 200),
        ("SimulationHarness.set-pick-script", vec!["spop+randomkey"], 200),
        ("SimulatedConnection", vec!["batched", "unbatched", "partial-reads", "partial-arrivals"], 120),
        ("PipelineSimulator", vec!["default", "odd-sizes"], 1),
        ("StreamingDSTHarness", vec!["new", "calm", "moderate", "chaos", "tight-backpressure"], 150),
        ("CompactionDSTHarness", vec!["new", "calm", "aggressive", "chaos"], 150),
        ("WalDSTHarness", vec!["default", "baseline", "crash_only", "chaos"], 100),
        ("buggify", vec!["disabled", "calm", "moderate", "chaos"], 40),
    ]
}

const NOT_REACHED: &str = "not reached: SimulatedRuntime/SimulatedNetwork/SimulatedStream (io/simulation.rs; only reachable through \
Runtime::clock()/network(), which fabricate references to temporaries), the #[cfg(feature=\"simulation\")] BUGGIFY blocks of SimulatedConnection \
(feature off in this build; they draw from ProductionRng), Lua scripting inside DST, stateright models (cfg(test))";

/// `h.run(1)` repeated: the harness exposes only `last_op`, so stepping it yields the operation log.
macro_rules! stepwise {
    ($d:expr, $h:expr, $ops:expr, $fin_name:expr, $fin:expr) => {{
        let mut tr = vec![];
        for _ in 0..$ops {
            $h.run(1);
            tr.push(format!("{:?}", $h.result().last_op));
            if !$h.result().invariant_violations.is_empty() {
                break; // `run(n)` stops at the first violation
            }
        }
        $d.seq("trace(last_op per step)", tr);
        $d.sec($fin_name, $fin);
        $d.sec("result", format!("{:?}\nsuccess={}", $h.result(), $h.result().is_success()));
    }};
}

/// Async object-store harnesses: own history + result struct (history printed once, as a sequence).
macro_rules! async_dst {
    ($d:expr, $H:ident, $cfg:expr, $ops:expr) => {{
        let mut r = rt().block_on(async {
            let mut hh = $H::new($cfg).await;
            hh.run($ops).await;
            hh.check_invariants().await;
            hh.into_result()
        });
        $d.seq("history", r.history.iter().map(dbg));
        r.history.clear();
        $d.sec("result", format!("{:?}\nsuccess={}", r, r.is_success()));
    }};
}

macro_rules! crdt {
    ($d:expr, $H:ident, $cfg:expr, $ops:expr) => {{
        let mut h = $H::new($cfg);
        let mut tr = vec![];
        let mut prev: BTreeMap<usize, u64> = BTreeMap::new();
        for _ in 0..$ops {
            h.run(1);
            let cur: BTreeMap<usize, u64> = h.result().ops_per_replica.iter().map(|(k, v)| (*k, *v)).collect();
            tr.push(format!("{:?}", cur.iter().find(|(k, v)| prev.get(k) != Some(v)).map(|(k, _)| *k)));
            prev = cur;
        }
        $d.seq("trace(replica chosen per step)", tr);
        h.sync_all();
        h.check_convergence();
        let r = h.result();
        $d.sec(
            "result",
            format!(
                "seed={} total_operations={} ops_per_replica={} syncs={} dropped={} converged={} success={}\nviolations={:?}",
                r.seed,
                r.total_operations,
                sorted_map(r.ops_per_replica.iter()),
                r.syncs_performed,
                r.messages_dropped,
                r.converged,
                r.is_success(),
                r.invariant_violations
            ),
        );
    }};
}

fn crdt_cfg(p: &str, s: u64) -> CRDTDSTConfig {
    match p {
        "calm" => CRDTDSTConfig::calm(s),
        "moderate" => CRDTDSTConfig::moderate(s),
        _ => CRDTDSTConfig::chaos(s),
    }
}

fn sim_result(d: &mut Dump, r: &SimulationResult) {
    d.seq("operation_history", r.operation_history.iter().map(dbg));
    d.sec(
        "result",
        format!(
            "seed={} total_time_ms={} total_operations={} operations_by_type={} crashes={} recoveries={} linearizable={} converged={} success={}\nerrors={:?}",
            r.seed,
            r.total_time_ms,
            r.total_operations,
            sorted_map(r.operations_by_type.iter()),
            r.crashes,
            r.recoveries,
            r.linearizable,
            r.converged,
            r.is_success(),
            r.errors
        ),
    );
    // thread-local BUGGIFY counters: last, because any earlier divergence changes them too
    d.sec(
        ACCUMULATOR,
        format!("checks={}\ntriggers={}", sorted_map(r.buggify_stats.checks.iter()), sorted_map(r.buggify_stats.triggers.iter())),
    );
}

fn rt() -> tokio::runtime::Runtime {
    // current-thread (the BUGGIFY context is thread-local); paused clock: the simulated object
    // store injects latency with tokio::time::sleep, which auto-advances instead of waiting
    tokio::runtime::Builder::new_current_thread().enable_all().start_paused(true).build().expect("runtime")
}

/// A scripted client workload (the "configuration" of the script-driven harnesses), derived
/// deterministically from the harness seed.
fn script(hseed: u64, n: u64, set_pick: bool) -> Vec<(u64, usize, Command)> {
    let mut g = rng_from(hseed, 2020);
    let mut t = 0u64;
    let mut out = vec![];
    for i in 0..n {
        if g.gen_bool(0.6) {
            t += g.gen_range(0..400); // ties (same time) are frequent and intended
        }
        let k = |g: &mut Rng, p: &str| format!("{}{}", p, g.gen_range(0..4));
        let v = format!("v{}", i);
        let c = match g.gen_range(0..if set_pick { 30 } else { 26 }) {
            0 | 1 => Command::set(k(&mut g, "s"), sds(&v)),
            2 => Command::setex(k(&mut g, "s"), g.gen_range(1..3), sds(&v)),
            3 => Command::Get(k(&mut g, "s")),
            4 => Command::Del(vec![k(&mut g, "s"), k(&mut g, "l")]),
            5 => Command::Incr(k(&mut g, "n")),
            6 => Command::Append(k(&mut g, "s"), sds("+")),
            7 => Command::expire(k(&mut g, "h"), 1),
            8 => Command::LPush(k(&mut g, "l"), vec![sds(&v), sds("x")]),
            9 => Command::RPush(k(&mut g, "l"), vec![sds(&v)]),
            10 => Command::LPop(k(&mut g, "l")),
            11 => Command::LRange(k(&mut g, "l"), 0, -1),
            12 | 13 => Command::SAdd(k(&mut g, "t"), (0..g.gen_range(1..6)).map(|_| sds(&format!("m{}", g.gen_range(0..12)))).collect()),
            14 => Command::SRem(k(&mut g, "t"), vec![sds(&format!("m{}", g.gen_range(0..12)))]),
            15 => Command::SMembers(k(&mut g, "t")),
            16 => Command::SCard(k(&mut g, "t")),
            17 | 18 => Command::HSet(k(&mut g, "h"), (0..g.gen_range(1..5)).map(|_| (sds(&format!("f{}", g.gen_range(0..9))), sds(&v))).collect()),
            19 => Command::HGetAll(k(&mut g, "h")),
            20 => Command::HKeys(k(&mut g, "h")),
            21 => Command::HDel(k(&mut g, "h"), vec![sds(&format!("f{}", g.gen_range(0..9)))]),
            22 => Command::Keys("*".into()),
            23 => Command::DbSize,
            24 => Command::TypeOf(k(&mut g, if i % 2 == 0 { "s" } else { "t" })),
            25 => Command::MGet(vec![k(&mut g, "s"), k(&mut g, "n"), k(&mut g, "s")]),
            26 | 27 => Command::SPop(k(&mut g, "t"), None),
            28 => Command::SPop(k(&mut g, "t"), Some(2)),
            _ => Command::RandomKey,
        };
        out.push((t, g.gen_range(0..3), c));
    }
    out
}

fn history_lines<'a>(it: impl Iterator<Item = (&'a Command, &'a RespValue, String)>) -> Vec<String> {
    it.map(|(c, r, extra)| format!("{:?} -> {} {}", c, canon_reply(c, r), extra)).collect()
}

/// Run one (harness, preset, seed, ops) through the public API of redis_sim and dump it.
fn run_case(h: &str, p: &str, s: u64, ops: u64) -> Dump {
    let mut d = Dump::default();
    let n = ops as usize;
    match h {
        "ExecutorDSTHarness" => {
            let c = match p {
                "new" => ExecutorDSTConfig::new(s),
                "calm" => ExecutorDSTConfig::calm(s),
                "chaos" => ExecutorDSTConfig::chaos(s),
                _ => ExecutorDSTConfig::string_heavy(s),
            };
            let mut hh = ExecutorDSTHarness::new(c);
            stepwise!(d, hh, n, "final.executor", exec_state(hh.executor()));
        }
        "ListDSTHarness" => {
            let c = match p {
                "new" => ListDSTConfig::new(s),
                "high_churn" => ListDSTConfig::high_churn(s),
                _ => ListDSTConfig::modify_heavy(s),
            };
            let mut hh = ListDSTHarness::new(c);
            stepwise!(d, hh, n, "final.list", value_text(&Value::List(hh.list().clone())));
        }
        "SetDSTHarness" => {
            let c = match p {
                "new" => SetDSTConfig::new(s),
                "small_members" => SetDSTConfig::small_members(s),
                "high_churn" => SetDSTConfig::high_churn(s),
                _ => SetDSTConfig::large_members(s),
            };
            let mut hh = SetDSTHarness::new(c);
            stepwise!(d, hh, n, "final.set", value_text(&Value::Set(hh.set().clone())));
        }
        "HashDSTHarness" => {
            let c = match p {
                "new" => HashDSTConfig::new(s),
                "small_fields" => HashDSTConfig::small_fields(s),
                _ => HashDSTConfig::high_churn(s),
            };
            let mut hh = HashDSTHarness::new(c);
            stepwise!(d, hh, n, "final.hash", value_text(&Value::Hash(hh.hash().clone())));
        }
        "SortedSetDSTHarness" => {
            let c = match p {
                "new" => SortedSetDSTConfig::new(s),
                "small_keyspace" => SortedSetDSTConfig::small_keyspace(s),
                _ => SortedSetDSTConfig::large_keyspace(s),
            };
            let mut hh = SortedSetDSTHarness::new(c);
            stepwise!(d, hh, n, "final.zset", value_text(&Value::SortedSet(hh.sorted_set().clone())));
        }
        "TransactionDSTHarness" => {
            let c = match p {
                "new" => TransactionDSTConfig::new(s),
                "high_conflict" => TransactionDSTConfig::high_conflict(s),
                _ => TransactionDSTConfig::error_heavy(s),
            };
            let mut hh = TransactionDSTHarness::new(c);
            stepwise!(d, hh, n, "final", "(no state accessor)".to_string());
        }
        "GCounterDSTHarness" => crdt!(d, GCounterDSTHarness, crdt_cfg(p, s), n),
        "PNCounterDSTHarness" => crdt!(d, PNCounterDSTHarness, crdt_cfg(p, s), n),
        "ORSetDSTHarness" => crdt!(d, ORSetDSTHarness, crdt_cfg(p, s), n),
        "VectorClockDSTHarness" => crdt!(d, VectorClockDSTHarness, crdt_cfg(p, s), n),
        "MultiNodeSimulation.broadcast" | "MultiNodeSimulation.partitioned" => {
            let nodes = 5;
            let mut m = if h.ends_with("partitioned") { MultiNodeSimulation::new_partitioned(nodes, 3, s) } else { MultiNodeSimulation::new(nodes, s) };
            if p == "lossy" {
                m = m.with_packet_loss(0.2).with_message_delay(1, 30);
            }
            let mut g = rng_from(s, 2021);
            let key = |g: &mut Rng| format!("k{}", g.gen_range(0..8));
            if p == "burst" {
                // more writes on one node than a shard's pending-delta queue holds, over many keys, before any gossip round
                for i in 0..140u64 {
                    m.execute(0, 0, Command::set(format!("b{}", i % 37), sds(&format!("w{}", i))));
                }
                m.gossip_round();
                m.advance_time_ms(5);
                m.gossip_round();
            }
            for i in 0..n {
                let node = g.gen_range(0..nodes);
                match g.gen_range(0..20) {
                    0..=10 => {
                        m.execute(i % 4, node, Command::set(key(&mut g), sds(&format!("v{}", i))));
                    }
                    11..=13 => {
                        m.execute(i % 4, node, Command::Get(key(&mut g)));
                    }
                    14 => {
                        m.execute(i % 4, node, Command::del(key(&mut g)));
                    }
                    15 | 16 => m.partition(node, (node + g.gen_range(1..nodes)) % nodes),
                    17 | 18 => {
                        // heal one existing partition (chosen by rank in sorted order): triggers anti-entropy
                        let cur: BTreeSet<(usize, usize)> = m.partitions.iter().cloned().collect();
                        if let Some(&(a, b)) = cur.iter().nth(g.gen_range(0..cur.len().max(1))) {
                            m.heal_partition(a, b);
                        }
                    }
                    _ => {}
                }
                m.advance_time_ms(g.gen_range(0..15));
                m.gossip_round();
            }
            let in_flight: Vec<_> = m.message_queue.iter().map(|q| (q.from, q.to, q.delivery_time, q.deltas.iter().map(|x| x.key.clone()).collect::<Vec<_>>())).collect();
            let parts: BTreeSet<_> = m.partitions.iter().cloned().collect();
            for (a, b) in parts.iter() {
                m.heal_partition(*a, *b);
            }
            m.converge(20);
            d.seq("history", history_lines(m.history.iter().map(|o| (&o.command, &o.response, format!("client={} node={} t={:?}..{:?}", o.client_id, o.node_id, o.invoke_time, o.complete_time)))));
            d.seq("in_flight_before_heal", in_flight.iter().map(dbg));
            let mut st = format!("time={:?} partitions_before_heal={:?} anti_entropy_syncs={}\n", m.current_time, parts, m.anti_entropy_syncs);
            for k in 0..8 {
                let k = format!("k{}", k);
                let _ = writeln!(st, "{} => {:?} converged={}", k, m.get_all_values(&k), m.check_key_convergence(&k));
            }
            if p == "burst" {
                for k in 0..37 {
                    let k = format!("b{}", k);
                    let _ = writeln!(st, "{} => {:?} converged={}", k, m.get_all_values(&k), m.check_key_convergence(&k));
                }
            }
            d.sec("final.replicated", st);
            for nd in &m.nodes {
                d.sec(&format!("final.executor.node{}", nd.node_id), exec_state(&nd.executor));
            }
            let lin = check_single_key_linearizability(&m.history, "k0");
            d.sec("verdict", format!("{:?}", lin));
        }
        "run_partition_test" => {
            let (nodes, cfg) = match p {
                "isolate_node" => (3, PartitionConfig::isolate_node(2, 3)),
                "split_brain" => (5, PartitionConfig::split_brain(vec![0, 1], vec![2, 3, 4])),
                "asymmetric" => (4, PartitionConfig::asymmetric(0, 3)),
                _ => (5, PartitionConfig::ring(5)),
            };
            let (nodes, cfg) = match p {
                "ring_heavy" => (5, PartitionConfig::ring(5)),
                "split_heavy" => (5, PartitionConfig::split_brain(vec![0, 1], vec![2, 3, 4])),
                "mutual3_heavy" => (3, PartitionConfig { partitioned_pairs: vec![(0, 1), (0, 2), (1, 2)], description: "three mutually isolated nodes".to_string() }),
                _ => (nodes, cfg),
            };
            // the heavy presets: very unequal amounts of history behind the partition (1, 8 and 30 keys), then two writers
            // racing on one key right after the heal - the winner depends on every node's clock, i.e. on everything the heal did
            let heavy = p.ends_with("_heavy");
            let names: Vec<String> = (0..30).map(|i| format!("hk{}", i)).collect();
            // (the harness reports final values for the first key named)
            let mut during: Vec<(usize, &str, &str)> = if heavy { vec![(0, "race", "initial"), (nodes - 1, "key1", "fromlast"), (1, "key2", "c")] } else { vec![(0, "key1", "from0"), (nodes - 1, "key1", "fromlast"), (1, "key2", "c")] };
            if heavy {
                during.extend(names.iter().take(8).map(|k| (1usize, k.as_str(), "eight")));
                during.extend(names.iter().map(|k| (nodes - 1, k.as_str(), "thirty")));
            }
            let after = if heavy { vec![(0, "race", "from-node-0"), (1, "race", "from-node-1"), (nodes - 1, "key2", "final2")] } else { vec![(0, "key1", "final"), (nodes - 1, "key2", "final2")] };
            let r = run_partition_test(p, nodes, s, cfg, during, after, n);
            d.trace_items += r.convergence_rounds + r.final_values.len();
            d.sec("result", format!("{:?}", r));
        }
        "DSTSimulation" => {
            let c = match p {
                "new" => DSTConfig::new(s),
                "calm" => DSTConfig::calm(s),
                _ => DSTConfig::chaos(s),
            };
            let (nodes, max_t) = (c.node_count, c.max_time_ms);
            let mut x = DSTSimulation::with_config(c);
            let mut tr = vec![];
            for _ in 0..n {
                x.step(); // `run_operations` = step + time limit + finalize
                let st: Vec<String> = (0..nodes).map(|i| format!("{:?}@{}", x.crash_simulator().get_state(HostId(i)), x.context().local_time(NodeId(i)).as_millis())).collect();
                tr.push(format!("t={} {}", x.current_time().0, st.join(" ")));
                if x.current_time().0 >= max_t {
                    break;
                }
            }
            d.seq("trace(time, node states, local clocks per step)", tr);
            let cs = x.crash_simulator().stats().clone();
            d.sec(
                "final.crash_stats",
                format!(
                    "crashes={} recoveries={} by_reason={} state_loss={} avg_recovery_ms={}",
                    cs.total_crashes,
                    cs.total_recoveries,
                    sorted_map(cs.crashes_by_reason.iter()),
                    cs.total_state_loss_events,
                    cs.average_recovery_time_ms
                ),
            );
            let r = x.finalize().clone();
            sim_result(&mut d, &r);
        }
        "RedisDSTSimulation" => {
            let mut x = match p {
                "zipfian" => RedisDSTSimulation::new(s, 5),
                "uniform" => RedisDSTSimulation::new_uniform(s, 3, 50),
                _ => RedisDSTSimulation::new(s, 5).with_faults(FaultConfig::chaos()),
            };
            let r = x.run(n).clone();
            let conv = x.check_convergence();
            d.sec("stats", format!("{:?} convergence={}", x.stats(), conv));
            sim_result(&mut d, &r);
        }
        "Simulation" => {
            let mut x = Simulation::new(SimulationConfig { seed: s, max_time: VirtualTime::from_millis(3_000), simulation_start_epoch: 0 });
            let hosts: Vec<HostId> = (0..4).map(|i| x.add_host(format!("host{}", i))).collect();
            if p == "drop30" {
                x.set_network_drop_rate(0.3);
            }
            let mut tr: Vec<String> = vec![];
            let mut timers = 0u64;
            let budget = ops * 4;
            x.run(|sm, ev| {
                tr.push(format!("t={} host={} {:?}", ev.time.0, ev.host_id.0, ev.event_type));
                let nh = hosts.len() as u64;
                match &ev.event_type {
                    EventType::HostStart => {
                        let dl = sm.rng().gen_range(0, 4) * 10; // many equal deadlines: ties in the queue
                        sm.schedule_timer(ev.host_id, sim::Duration::from_millis(dl));
                    }
                    EventType::Timer(_) => {
                        timers += 1;
                        if p == "partition" && timers == 10 {
                            sm.partition_hosts(hosts[0], hosts[1]);
                        }
                        if p == "partition" && timers == 40 {
                            sm.heal_partition(hosts[0], hosts[1]);
                        }
                        let to = HostId(sm.rng().gen_range(0, nh) as usize);
                        sm.send_message(ev.host_id, to, vec![0]);
                        if timers < budget {
                            let dl = sm.rng().gen_range(1, 4) * 5;
                            sm.schedule_timer(ev.host_id, sim::Duration::from_millis(dl));
                        }
                    }
                    EventType::NetworkMessage(msg) => {
                        if msg.payload[0] < 3 && sm.rng().gen_bool(0.6) {
                            sm.send_message(msg.to, msg.from, vec![msg.payload[0] + 1]);
                        }
                    }
                }
            });
            let fin = format!("time={:?} events={}", x.current_time(), tr.len());
            d.seq("trace(events)", tr);
            d.sec("final", fin);
        }
        "SimulationHarness" | "SimulationHarness.set-pick-script" => {
            let mut sc = script(s, ops, h.ends_with("set-pick-script"));
            if p == "script+lua-random" {
                // several scripts that draw from math.random within one virtual millisecond (pipelined EVALs): every
                // script run must be seeded from the simulation, not from the Lua VM's own start-up seed
                let mut extra = vec![];
                for (i, (t, client, _)) in sc.iter().enumerate().filter(|(i, _)| i % 5 == 0) {
                    for j in 0..3u64 {
                        extra.push((*t, *client, Command::Eval { script: format!("local r = math.random(1000000); redis.call('SET', KEYS[1], r); return r + {}", j), keys: vec![format!("rnd{}", i % 3)], args: vec![] }));
                    }
                }
                // the script cache is part of the simulated server's state: a script is probed (EVALSHA, SCRIPT EXISTS)
                // before anything in this run has loaded it, then loaded, used, flushed and probed again. The digest is
                // SHA-1 of the fixed text below, written out so that computing it does not touch any cache.
                const S: &str = "redis.call('INCR', KEYS[1]); return redis.call('GET', KEYS[1])";
                const SHA: &str = "386e43170995de8d6518c32dd98dd38a9eb49668";
                let t_end = sc.last().map_or(0, |x| x.0);
                let sha = |k: &str| Command::EvalSha { sha1: SHA.into(), keys: vec![k.into()], args: vec![] };
                extra.push((0, 0, sha("cnt0")));
                extra.push((0, 0, Command::ScriptExists(vec![SHA.into()])));
                extra.push((t_end / 3, 1, Command::ScriptLoad(S.into())));
                extra.push((t_end / 3 + 1, 0, sha("cnt0")));
                extra.push((t_end / 2, 1, Command::ScriptFlush));
                extra.push((t_end / 2 + 1, 0, sha("cnt1")));
                extra.push((t_end / 2 + 2, 0, Command::ScriptExists(vec![SHA.into()])));
                // loaded again and left loaded when the run ends (a cache that outlives the run would show in the next one)
                extra.push((2 * t_end / 3, 1, Command::ScriptLoad(S.into())));
                extra.push((2 * t_end / 3 + 1, 0, sha("cnt1")));
                sc.extend(extra);
                sc.sort_by_key(|x| x.0);
            }
            if p == "script+maxmemory" {
                // a memory limit is part of the simulated server's configuration; what it is compared with must be the simulated
                // data set, not anything of the host process (see the host-memory relation in one_case)
                sc.insert(0, (0, 0, Command::ConfigSet("maxmemory".into(), (400u64 << 20).to_string())));
            }
            let mut b = ScenarioBuilder::new(s).with_start_epoch(1_700_000_000);
            if p == "script+buggify" {
                b = b.with_buggify(0.3);
            }
            for (t, client, c) in sc {
                b = b.at_time(t).client(client, c);
            }
            let hh = if p == "script+eviction" { b.run_with_eviction(100) } else { b.run() };
            d.seq("history", history_lines(hh.history().iter().map(|o| (&o.command, &o.response, format!("client={} t={:?}..{:?}", o.client_id, o.invoke_time, o.complete_time)))));
            d.sec("final", format!("time={:?}", hh.current_time()));
        }
        "SimulatedConnection" => {
            let mut c = SimulatedConnection::new(s);
            match p {
                "unbatched" => c = c.with_unbatched_flush(),
                "partial-reads" => c = c.with_partial_reads(0.6),
                _ => {}
            }
            let mut g = rng_from(s, 2022);
            let mut replies = vec![];
            let mut left = n;
            while left > 0 {
                let burst = g.gen_range(1..12usize).min(left);
                left -= burst;
                let cmds: Vec<Command> = (0..burst)
                    .map(|i| {
                        let k = format!("c{}", g.gen_range(0..5));
                        match g.gen_range(0..6) {
                            0 | 1 => Command::set(k, sds(&format!("v{}", i))),
                            2 => Command::Get(k),
                            3 => Command::Incr(format!("n{}", g.gen_range(0..2))),
                            4 => Command::Del(vec![k, "c0".into()]),
                            _ => Command::Ping(None),
                        }
                    })
                    .collect();
                if burst == 1 {
                    c.send_command(cmds[0].clone());
                } else {
                    c.send_pipeline(cmds);
                }
                let r = if p == "partial-arrivals" { c.process_with_partial_arrivals(3) } else { c.process() };
                replies.push(format!("{:?}", r));
            }
            d.seq("history", c.history().iter().map(dbg));
            d.seq("replies(per process call)", replies);
            d.sec("final", format!("executed={} flushes={} bytes_per_flush={:?} avg={}", c.commands_executed(), c.flush_count(), c.bytes_per_flush(), c.avg_bytes_per_flush()));
        }
        "PipelineSimulator" => {
            let mut x = PipelineSimulator::new(s);
            if p == "odd-sizes" {
                x = x.with_sizes(vec![1, 3, 7, 100, 0]);
            }
            let r: Vec<PipelineResult> = x.run().to_vec();
            d.seq("results", r.iter().map(dbg));
            d.sec("summary", x.summary());
        }
        "StreamingDSTHarness" => {
            let c = match p {
                "new" => StreamingDSTConfig::new(s),
                "calm" => StreamingDSTConfig::calm(s),
                "moderate" => StreamingDSTConfig::moderate(s),
                "tight-backpressure" => tight_backpressure(s),
                _ => StreamingDSTConfig::chaos(s),
            };
            async_dst!(d, StreamingDSTHarness, c, n);
        }
        "CompactionDSTHarness" => {
            let c = match p {
                "new" => CompactionDSTConfig::new(s),
                "calm" => CompactionDSTConfig::calm(s),
                "aggressive" => CompactionDSTConfig::aggressive(s),
                _ => CompactionDSTConfig::chaos(s),
            };
            async_dst!(d, CompactionDSTHarness, c, n);
        }
        "WalDSTHarness" => {
            let mut c = match p {
                "default" => WalDSTConfig::default(),
                "baseline" => WalDSTConfig::baseline(),
                "crash_only" => WalDSTConfig::crash_only(),
                _ => WalDSTConfig::chaos(),
            };
            c.num_writes = n;
            let r = WalDSTHarness::new(s, c).run();
            d.trace_items += r.acknowledged_writes + r.failed_writes;
            d.sec("result", format!("{:?}", r));
        }
        "buggify" => {
            buggify::reset_stats(); // the counters are thread-cumulative by contract; the driver starts from zero
            buggify::set_config(match p {
                "disabled" => FaultConfig::disabled(),
                "calm" => FaultConfig::calm(),
                "moderate" => FaultConfig::moderate(),
                _ => FaultConfig::chaos(),
            });
            let mut g = SimulatedRng::new(s);
            let mut tr = vec![];
            for round in 0..n {
                let mut bits = String::new();
                for f in buggify::ALL_FAULTS {
                    bits.push(if buggify::should_buggify(&mut g, f) { '1' } else { '0' });
                    if round % 4 == 0 {
                        bits.push(if buggify::should_buggify_with_prob(&mut g, f, 0.2) { 'P' } else { 'p' });
                    }
                }
                tr.push(bits);
            }
            d.seq("trace(decisions per round)", tr);
            let st = buggify::get_stats();
            d.sec("stats", format!("checks={}\ntriggers={}", sorted_map(st.checks.iter()), sorted_map(st.triggers.iter())));
        }
        other => d.sec("unknown-harness", other.to_string()),
    }
    d
}

/// One run, panics of the code under test captured as a section of their own.
/// The asynchronous persistence harnesses run in chunks (cut after operations 4, 8, 13, 20, 35 and n/2); with `pause_ms > 0` the driving thread really
/// sleeps between the chunks (what a loaded machine or a stopped process does). A simulation that is a pure
/// function of seed and configuration cannot tell the difference; one that consults the wall clock can.
/// A streaming configuration in which the buffer really reaches the back-pressure threshold between flushes
/// (the presets never do): whether a write is accepted or rejected must then still be a function of the seed.
fn tight_backpressure(s: u64) -> StreamingDSTConfig {
    let mut c = StreamingDSTConfig::calm(s);
    c.write_buffer_config.backpressure_threshold_bytes = 600;
    c.write_buffer_config.max_size_bytes = 100_000;
    c.write_buffer_config.max_deltas = 100_000;
    c.flush_probability = 0.04;
    c
}

/// A tracing subscriber that is interested in everything and keeps nothing (events are counted so that the evidence can say
/// the harnesses really logged while it listened).
#[derive(Default)]
struct ListenToEverything {
    next: std::sync::atomic::AtomicU64,
}
static EVENTS_HEARD: std::sync::atomic::AtomicU64 = std::sync::atomic::AtomicU64::new(0);
impl tracing::Subscriber for ListenToEverything {
    fn enabled(&self, _: &tracing::Metadata<'_>) -> bool {
        true
    }
    fn new_span(&self, _: &tracing::span::Attributes<'_>) -> tracing::span::Id {
        tracing::span::Id::from_u64(1 + self.next.fetch_add(1, std::sync::atomic::Ordering::Relaxed))
    }
    fn record(&self, _: &tracing::span::Id, _: &tracing::span::Record<'_>) {}
    fn record_follows_from(&self, _: &tracing::span::Id, _: &tracing::span::Id) {}
    fn event(&self, _: &tracing::Event<'_>) {
        EVENTS_HEARD.fetch_add(1, std::sync::atomic::Ordering::Relaxed);
    }
    fn enter(&self, _: &tracing::span::Id) {}
    fn exit(&self, _: &tracing::span::Id) {}
}

fn paced_dump(h: &str, p: &str, s: u64, ops: u64, pause_ms: u64) -> String {
    let n = ops as usize;
    // pauses early in the run (few segments, first compactions) and in the middle
    let marks: Vec<usize> = [4usize, 8, 13, 20, 35, n / 2].iter().copied().filter(|m| *m < n).collect();
    let mut chunks: Vec<usize> = vec![];
    let mut at = 0;
    for m in &marks {
        if *m > at {
            chunks.push(*m - at);
            at = *m;
        }
    }
    chunks.push(n - at);
    let last = chunks.len() - 1;
    macro_rules! paced {
        ($H:ident, $cfg:expr) => {{
            let runtime = rt();
            let mut hh = runtime.block_on($H::new($cfg));
            for (i, c) in chunks.iter().enumerate() {
                runtime.block_on(hh.run(*c));
                if pause_ms > 0 && i < last {
                    std::thread::sleep(std::time::Duration::from_millis(pause_ms));
                }
            }
            runtime.block_on(hh.check_invariants());
            let r = hh.into_result();
            format!("{:?}\nsuccess={}", r, r.is_success())
        }};
    }
    let out = guard(|| match h {
        "StreamingDSTHarness" => paced!(
            StreamingDSTHarness,
            match p {
                "new" => StreamingDSTConfig::new(s),
                "calm" => StreamingDSTConfig::calm(s),
                "moderate" => StreamingDSTConfig::moderate(s),
                "tight-backpressure" => tight_backpressure(s),
                _ => StreamingDSTConfig::chaos(s),
            }
        ),
        _ => paced!(
            CompactionDSTHarness,
            match p {
                "new" => CompactionDSTConfig::new(s),
                "calm" => CompactionDSTConfig::calm(s),
                "aggressive" => CompactionDSTConfig::aggressive(s),
                _ => CompactionDSTConfig::chaos(s),
            }
        ),
    });
    out.unwrap_or_else(|m| format!("panic: {}", m))
}

fn dump_text(h: &str, p: &str, s: u64, ops: u64) -> (String, usize) {
    match guard(|| run_case(h, p, s, ops)) {
        Ok(d) => (d.render(), d.trace_items),
        Err(m) => {
            let mut d = Dump::default();
            d.sec("panic", m);
            (d.render(), 0)
        }
    }
}

/// Per-process probes: std RandomState (SipHash keys) and the ahash keys used by the executor's maps.
fn probes() -> (u64, u64) {
    let a = std::collections::hash_map::RandomState::new().hash_one(0xC20u64);
    let b = CommandExecutor::new().get_data().hasher().hash_one(0xC20u64);
    (a, b)
}

struct Case {
    h: String,
    p: String,
    s: u64,
    ops: u64,
}

impl Case {
    fn json(&self) -> serde_json::Value {
        json!({"harness": self.h, "preset": self.p, "hseed": self.s, "ops": self.ops})
    }
}

pub fn dump_cmd(args: &Args) {
    let h = args.get_str("harness").unwrap_or("SetDSTHarness").to_string();
    let p = args.get_str("preset").unwrap_or("new").to_string();
    let s = args.get_u64("hseed", 0);
    let ops = args.get_u64("ops", catalogue().iter().find(|c| c.0 == h).map(|c| c.2).unwrap_or(100));
    let (a, b) = probes();
    eprintln!("C20PROBE std={:016x} ahash={:016x}", a, b);
    let (text, _) = dump_text(&h, &p, s, ops);
    use std::io::Write;
    let mut o = std::io::stdout().lock();
    o.write_all(text.as_bytes()).expect("write dump");
    o.flush().expect("flush dump");
}

fn spawn_child(c: &Case) -> std::io::Result<std::process::Child> {
    use std::process::Stdio;
    std::process::Command::new(std::env::current_exe()?)
        .args(["c20-dump", "--harness", &c.h, "--preset", &c.p, "--hseed", &c.s.to_string(), "--ops", &c.ops.to_string()])
        .stdin(Stdio::null())
        .stdout(Stdio::piped())
        .stderr(Stdio::piped())
        .spawn()
}

/// Evaluate one case: `reruns` consecutive runs on one fresh thread + `children` fresh processes.
fn eval_case(rep: &mut Report, c: &Case, reruns: usize, children: usize, probes_seen: &mut (BTreeSet<String>, BTreeSet<String>)) {
    rep.evaluations += 1;
    let kids: Vec<_> = (0..children).map(|_| spawn_child(c)).collect();
    let (h, p, s, ops) = (c.h.clone(), c.p.clone(), c.s, c.ops);
    // a fresh thread: fresh thread-locals (BUGGIFY context), as in a fresh process; the reruns
    // then follow each other on that thread, as in a batch runner
    let runs: Vec<(String, usize)> = std::thread::Builder::new()
        .stack_size(32 << 20)
        .spawn(move || (0..reruns).map(|_| dump_text(&h, &p, s, ops)).collect())
        .expect("spawn")
        .join()
        .unwrap_or_default();
    if runs.is_empty() {
        rep.inconclusive(format!("in-process runner thread died for {:?}", c.json()));
        return;
    }
    // a run must not depend on what ran before it on the same thread: precede the case by a *different*
    // case (another preset of the same harness with another seed, and a fault-heavy DSTSimulation run)
    let after_other: Option<(String, usize)> = {
        let (h, p, s, ops) = (c.h.clone(), c.p.clone(), c.s, c.ops);
        let other_p = catalogue().iter().find(|x| x.0 == c.h).and_then(|x| x.1.iter().rev().find(|q| **q != c.p).map(|q| q.to_string())).unwrap_or_else(|| c.p.clone());
        let contaminator = if c.p == "chaos" { "calm" } else { "chaos" };
        std::thread::Builder::new()
            .stack_size(32 << 20)
            .spawn(move || {
                let _ = dump_text(&h, &other_p, s.wrapping_add(7919), ops);
                let _ = dump_text("DSTSimulation", contaminator, s.wrapping_add(1), 60);
                let _ = dump_text("buggify", contaminator, s.wrapping_add(2), 40);
                dump_text(&h, &p, s, ops)
            })
            .expect("spawn")
            .join()
            .ok()
    };
    let base = &runs[0].0;
    rep.add("runs_in_process", runs.len() as u64);
    rep.count(&format!("cases:{}", c.h));
    if runs[0].1 > 0 {
        rep.distinct(&(&c.h, &c.p, c.s));
        rep.count(&format!("nontrivial:{}", c.h));
    }
    if base.contains(&format!("{}panic\n", SEC)) {
        rep.count(&format!("harness_panicked:{}", c.h));
    }
    let report = |rep: &mut Report, relation: &str, other: &str| {
        rep.add("bytes_compared", base.len().min(other.len()) as u64);
        rep.count("comparisons");
        if let Some((section, detail)) = first_diff(base, other) {
            // Signature = harness + kind of divergence. Which section differs first, in which
            // preset and whether it shows between two runs of one process or only across
            // processes depends on the per-map hash keys of the runs compared (a random
            // variable), so those go into the detail and the counters, not the signature.
            // The one distinction that is not luck: everything identical except the
            // thread-cumulative BUGGIFY counters the second run inherited from the first.
            let kind = if relation == "rerun-same-thread" && section == ACCUMULATOR { "rerun-result-carries-previous-run-stats" } else { "same-seed-runs-diverge" };
            let mut w = c.json();
            w["relation"] = json!(relation);
            w["section"] = json!(section);
            rep.violation(
                format!("C20|{}|{}", c.h, kind),
                format!("{} preset {} seed {} ops {}: first differing section `{}`, {}", relation, c.p, c.s, c.ops, section, detail),
                w,
            );
            rep.count(&format!("divergent:{}:{}/{}:{}", relation, c.h, c.p, section));
        }
    };
    for r in &runs[1..] {
        report(rep, "rerun-same-thread", &r.0);
    }
    // wall-clock pacing (persistence harnesses, a quarter of the seeds): same chunked run with and without real pauses
    if (c.h == "StreamingDSTHarness" || c.h == "CompactionDSTHarness") && c.s % 4 == 0 {
        let (h, p, s, ops) = (c.h.clone(), c.p.clone(), c.s, c.ops);
        let pair = std::thread::Builder::new()
            .stack_size(32 << 20)
            .spawn(move || (paced_dump(&h, &p, s, ops, 0), paced_dump(&h, &p, s, ops, 120)))
            .expect("spawn")
            .join()
            .ok();
        match pair {
            Some((plain, paused)) => {
                rep.count("runs_with_real_pauses");
                rep.add("bytes_compared", plain.len().min(paused.len()) as u64);
                if plain != paused {
                    let at = plain.bytes().zip(paused.bytes()).position(|(a, b)| a != b).unwrap_or(plain.len().min(paused.len()));
                    let mut w = c.json();
                    w["relation"] = json!("paced");
                    rep.violation(
                        format!("C20|{}|result-depends-on-wall-clock-pacing", c.h),
                        format!("preset {} seed {} ops {}: the same chunked run gives a different result when the driving thread sleeps 120 ms between chunks; first difference at byte {}: ...{} | ...{}", c.p, c.s, c.ops, at, &plain[at.saturating_sub(60)..(at + 60).min(plain.len())], &paused[at.saturating_sub(60)..(at + 60).min(paused.len())]),
                        w,
                    );
                }
            }
            None => rep.inconclusive(format!("runner thread died for the paced relation of {:?}", c.json())),
        }
    }
    // host memory (the maxmemory preset, a quarter of the seeds): the same run before and after the process has grown by 600 MiB
    if c.p == "script+maxmemory" && c.s % 4 == 0 {
        let rss_mib = std::fs::read_to_string("/proc/self/statm").ok().and_then(|t| t.split_whitespace().nth(1).and_then(|x| x.parse::<u64>().ok())).map(|pages| pages * 4096 >> 20).unwrap_or(u64::MAX);
        if rss_mib < 300 {
            let (h, p, s, ops) = (c.h.clone(), c.p.clone(), c.s, c.ops);
            let pair = std::thread::Builder::new()
                .stack_size(32 << 20)
                .spawn(move || {
                    let a = run_case(&h, &p, s, ops).render();
                    let mut ballast = vec![0u8; 600 << 20];
                    for i in (0..ballast.len()).step_by(4096) {
                        ballast[i] = 1;
                    }
                    let b = run_case(&h, &p, s, ops).render();
                    std::hint::black_box(&ballast);
                    drop(ballast);
                    (a, b)
                })
                .expect("spawn")
                .join()
                .ok();
            match pair {
                Some((small, big)) => {
                    rep.count("runs_with_grown_host_process");
                    if small != big {
                        let at = small.bytes().zip(big.bytes()).position(|(a, b)| a != b).unwrap_or(small.len().min(big.len()));
                        let mut w = c.json();
                        w["relation"] = json!("host-memory");
                        rep.violation(
                            format!("C20|{}|result-depends-on-host-process-memory", c.h),
                            format!("preset {} seed {}: the same run differs after the host process has grown by 600 MiB; first difference at byte {}: ...{} | ...{}", c.p, c.s, at, &small[at.saturating_sub(60)..(at + 60).min(small.len())], &big[at.saturating_sub(60)..(at + 60).min(big.len())]),
                            w,
                        );
                    }
                }
                None => rep.inconclusive(format!("runner thread died for the host-memory relation of {:?}", c.json())),
            }
        } else {
            rep.count("host_memory_relation_skipped_process_already_large");
        }
    }
    // ambient log level (a quarter of the seeds): the same run on a thread where a tracing subscriber listens at every level.
    // What a harness logs is not part of its configuration: trace, state and verdict must not depend on who listens.
    // (not for a case the plain relations already show to be irreproducible - two runs on one thread differ, or the preset
    // built around the listed SPOP/RANDOMKEY hash-order finding: a difference there says nothing about the listener)
    let unstable = runs[1..].iter().any(|r| first_diff(base, &r.0).is_some()) || c.h.contains("set-pick-script");
    if unstable && c.s % 4 == 1 {
        rep.count("ambient_log_level_relation_skipped:case_irreproducible_anyway");
    }
    if c.s % 4 == 1 && !unstable {
        let mut continue_after_ambient = false;
        let (h, p, s, ops) = (c.h.clone(), c.p.clone(), c.s, c.ops);
        let listened = std::thread::Builder::new()
            .stack_size(32 << 20)
            .spawn(move || tracing::subscriber::with_default(ListenToEverything::default(), || dump_text(&h, &p, s, ops)))
            .expect("spawn")
            .join()
            .ok();
        match listened {
            Some(r) => {
                rep.count("runs_with_a_tracing_subscriber_at_every_level");
                rep.add("bytes_compared", base.len().min(r.0.len()) as u64);
                if let Some((section, detail)) = first_diff(base, &r.0) {
                    // control: the same run on another fresh thread with nobody listening. If that differs from the base run as
                    // well, the subscriber is not what made the difference (the case diverges between any two threads) and it is
                    // reported under the plain relation.
                    let (h, p, s, ops) = (c.h.clone(), c.p.clone(), c.s, c.ops);
                    let control = std::thread::Builder::new().stack_size(32 << 20).spawn(move || dump_text(&h, &p, s, ops)).expect("spawn").join().ok();
                    if control.as_ref().map_or(true, |k| first_diff(base, &k.0).is_some()) {
                        if let Some(k) = &control {
                            report(rep, "fresh-thread", &k.0);
                        }
                        continue_after_ambient = true;
                    }
                    if continue_after_ambient {
                        // fallthrough: nothing attributed to the log level
                    } else {
                    let mut w = c.json();
                    w["relation"] = json!("ambient-log-level");
                    w["section"] = json!(section);
                    rep.violation(
                        format!("C20|{}|result-depends-on-ambient-log-level", c.h),
                        format!("preset {} seed {} ops {}: the same run differs when a tracing subscriber listens at TRACE level; first differing section `{}`, {}", c.p, c.s, c.ops, section, detail),
                        w,
                    );
                    }
                }
            }
            None => rep.inconclusive(format!("runner thread died for the ambient-log-level relation of {:?}", c.json())),
        }
    }
    match &after_other {
        Some(r) => {
            rep.count("runs_after_a_different_run");
            report(rep, "after-a-different-run-on-the-same-thread", &r.0);
        }
        None => rep.inconclusive(format!("runner thread died for the after-a-different-run relation of {:?}", c.json())),
    }
    for k in kids {
        use std::os::unix::process::ExitStatusExt;
        let mut out = k.and_then(|k| k.wait_with_output());
        // a child killed from outside (TERM/KILL/INT/HUP) says nothing about the code: one retry
        if matches!(&out, Ok(o) if matches!(o.status.signal(), Some(1 | 2 | 9 | 15))) {
            rep.count("child_killed_externally_retried");
            out = spawn_child(c).and_then(|k| k.wait_with_output());
        }
        let out = match out {
            Ok(o) if !matches!(o.status.signal(), Some(1 | 2 | 9 | 15)) => o,
            other => {
                rep.inconclusive(format!("could not run a child process to completion: {:?}", other.map(|o| o.status)));
                continue;
            }
        };
        let err = String::from_utf8_lossy(&out.stderr);
        match err.lines().find_map(|l| l.strip_prefix("C20PROBE ")) {
            Some(l) => {
                let mut it = l.split_whitespace();
                probes_seen.0.insert(it.next().unwrap_or("").to_string());
                probes_seen.1.insert(it.next().unwrap_or("").to_string());
            }
            None => rep.count("child_without_probe"),
        }
        rep.add("runs_child_process", 1);
        if !out.status.success() {
            rep.violation(
                format!("C20|{}|child-process-abnormal-exit", c.h),
                format!("child {:?}: {}", out.status, err.chars().take(300).collect::<String>()),
                c.json(),
            );
            continue;
        }
        report(rep, "cross-process", &String::from_utf8_lossy(&out.stdout));
    }
    if rep.samples.len() < 6 && (rep.evaluations % 97 == 1 || rep.samples.len() < 2) {
        let secs: Vec<String> = parse_sections(base).iter().map(|(n, t)| format!("{} ({} lines)", n, t.lines().count())).collect();
        let head: Vec<&str> = base.lines().skip(1).take(3).collect();
        rep.sample(json!({"case": c.json(), "dump_bytes": base.len(), "sections": secs, "first_lines": head,
            "compared": format!("{} same-thread runs + {} child processes", runs.len(), children)}));
    }
}

pub fn repro_leg(args: &Args) {
    let mut rep = Report::new("C20", "repro");
    let mut probes_seen = (BTreeSet::new(), BTreeSet::new());
    let (a, b) = probes();
    probes_seen.0.insert(format!("std={:016x}", a));
    probes_seen.1.insert(format!("ahash={:016x}", b));
    if let Some(path) = &args.replay {
        let w: serde_json::Value = serde_json::from_str(&std::fs::read_to_string(path).expect("replay file")).expect("json");
        let w = &w["witness"];
        let c = Case {
            h: w["harness"].as_str().unwrap_or("").into(),
            p: w["preset"].as_str().unwrap_or("").into(),
            s: w["hseed"].as_u64().unwrap_or(0),
            ops: w["ops"].as_u64().unwrap_or(100),
        };
        // hash-order dependent divergence is probabilistic per pair of runs: use more of them
        eval_case(&mut rep, &c, 6, 10, &mut probes_seen);
        rep.finish(args);
        return;
    }
    // harness seeds: corners + a seed-dependent remainder (quick: 16 per preset)
    let mut g = args.rng(20);
    let fixed: u64 = if args.thorough() { 360 } else { 10 };
    let mut hseeds: Vec<u64> = (0..args.get_u64("hseeds", fixed)).collect();
    hseeds.extend([u64::MAX, 1 << 32]);
    for _ in 0..if args.thorough() { 38 } else { 4 } {
        hseeds.push(g.gen());
    }
    let only = args.get_str("harness").map(|s| s.to_string());
    let mut idx = 0usize;
    let mut per_harness: HashMap<&'static str, u64> = HashMap::new();
    let cat = catalogue();
    for &s in &hseeds {
        for (h, presets, ops) in &cat {
            if only.as_deref().map(|o| !h.starts_with(o)).unwrap_or(false) {
                continue;
            }
            for p in presets {
                idx += 1;
                if idx % args.shards != args.shard {
                    continue;
                }
                let c = Case { h: h.to_string(), p: p.to_string(), s, ops: args.get_u64("ops", *ops) };
                eval_case(&mut rep, &c, 2, 3, &mut probes_seen);
                *per_harness.entry(h).or_insert(0) += 1;
            }
        }
    }
    rep.add("distinct_std_randomstate_probes", probes_seen.0.len() as u64);
    rep.add("distinct_ahash_probes", probes_seen.1.len() as u64);
    rep.add("harness_preset_pairs", cat.iter().map(|c| c.1.len() as u64).sum());
    if probes_seen.0.len() < 2 || probes_seen.1.len() < 2 {
        rep.inconclusive("all processes reported the same RandomState probe: process boundaries did not vary the hash seeds");
    }
    for (h, _, _) in &cat {
        if only.is_none() && per_harness.contains_key(h) && rep.counters.get(&format!("nontrivial:{}", h)).copied().unwrap_or(0) == 0 {
            rep.inconclusive(format!("{}: no case with a non-empty trace", h));
        }
        if rep.counters.get(&format!("harness_panicked:{}", h)).is_some() {
            rep.note(format!("{}: some runs ended in a panic of the harness (compared as part of the dump)", h));
        }
    }
    if rep.counters.get("runs_child_process").copied().unwrap_or(0) == 0 {
        rep.inconclusive("no child process produced a dump");
    }
    rep.note("a case = one (harness, preset, harness-seed, ops): 2 consecutive runs on a fresh thread + 3 fresh processes, dumps compared byte-for-byte");
    rep.note("trace source: redis/CRDT DST harnesses are stepped with run(1) and `last_op`/ops_per_replica recorded per step; DSTSimulation is stepped with step(); \
        RedisDSTSimulation/Streaming/Compaction/MultiNode/SimulationHarness/SimulatedConnection expose their own history; WalDSTHarness, run_partition_test and \
        PipelineSimulator expose only a result struct (compared on result alone)");
    rep.note(NOT_REACHED);
    rep.add("tracing_events_heard_by_the_ambient_subscriber", EVENTS_HEARD.load(std::sync::atomic::Ordering::Relaxed));
    rep.finish(args);
}

/// Interpreter-sized leg (Miri): small presets of the synchronous harnesses, each run twice
/// in-process and compared; undefined behaviour is itself a source of non-reproducibility.
pub fn small_leg(args: &Args) {
    let mut rep = Report::new("C20", "small");
    let ops = args.get_u64("ops", 25);
    let sync = [
        "ExecutorDSTHarness", "ListDSTHarness", "SetDSTHarness", "HashDSTHarness", "SortedSetDSTHarness", "TransactionDSTHarness", "GCounterDSTHarness",
        "PNCounterDSTHarness", "ORSetDSTHarness", "VectorClockDSTHarness", "MultiNodeSimulation.broadcast", "DSTSimulation", "Simulation", "SimulationHarness",
        "SimulatedConnection", "buggify",
    ];
    let mut i = 0usize;
    for (h, presets, _) in catalogue() {
        if !sync.contains(&h) {
            continue;
        }
        for p in presets {
            i += 1;
            if i % args.shards != args.shard {
                continue;
            }
            let s = args.seed;
            let (a, n) = dump_text(h, p, s, ops);
            let (b, _) = dump_text(h, p, s, ops);
            rep.evaluations += 1;
            rep.distinct(&(h, p, n > 0));
            if a != b {
                rep.violation(format!("C20|{}|same-seed-runs-diverge", h), format!("preset {} seed {} ops {}: two in-process runs differ", p, s, ops), serde_json::json!({"h": h, "p": p, "s": s, "ops": ops}));
            }
            if rep.samples.len() < 3 {
                rep.sample(serde_json::json!({"harness": h, "preset": p, "seed": s, "ops": ops, "dump_bytes": a.len()}));
            }
        }
    }
    rep.finish(args);
}
