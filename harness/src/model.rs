//! Independent reference model of Redis 7 semantics for the data commands this server supports.
//! Written from Redis behaviour, not from /repo's executor or its DST shadow models.
//! Input is the argv a client sends; output is an expectation (`Exp`) on the reply.
#![allow(dead_code)]

use crate::myresp::Tree;
use std::collections::{BTreeMap, BTreeSet, VecDeque};

#[derive(Clone, Debug, PartialEq)]
pub enum V {
    Str(Vec<u8>),
    List(VecDeque<Vec<u8>>),
    Set(BTreeSet<Vec<u8>>),
    Hash(BTreeMap<Vec<u8>, Vec<u8>>),
    ZSet(BTreeMap<Vec<u8>, f64>),
}

impl V {
    pub fn tname(&self) -> &'static str {
        match self {
            V::Str(_) => "string",
            V::List(_) => "list",
            V::Set(_) => "set",
            V::Hash(_) => "hash",
            V::ZSet(_) => "zset",
        }
    }
}

/// What the reply must look like.
#[derive(Clone, Debug)]
pub enum Exp {
    Exact(Tree),
    /// error whose first word is this class (ERR, WRONGTYPE, …)
    Err(&'static str),
    /// array, order free
    Multiset(Vec<Tree>),
    /// flat array of pairs, pair order free
    PairSet(Vec<(Tree, Tree)>),
    /// bulk string holding a float close to this
    Float(f64),
    /// flat array member,score,… in this member order; scores compared numerically
    Scored(Vec<(Vec<u8>, f64)>),
    /// implementation picks; handled by the harness (SPOP, RANDOMKEY)
    Pick(PickKind),
    /// any of these
    OneOf(Vec<Exp>),
}

#[derive(Clone, Debug)]
pub enum PickKind {
    RandomKey,
    SpopOne(Vec<u8>),
    SpopN(Vec<u8>, usize),
}

pub const WRONGTYPE: Exp = Exp::Err("WRONGTYPE");
pub const ERR: Exp = Exp::Err("ERR");

fn ok() -> Exp {
    Exp::Exact(Tree::Simple(b"OK".to_vec()))
}
fn int(n: i64) -> Exp {
    Exp::Exact(Tree::Int(n))
}
fn nil() -> Exp {
    Exp::Exact(Tree::Bulk(None))
}
fn bulk(b: &[u8]) -> Exp {
    Exp::Exact(Tree::Bulk(Some(b.to_vec())))
}
fn arr(v: Vec<Tree>) -> Exp {
    Exp::Exact(Tree::Arr(Some(v)))
}
fn tb(b: &[u8]) -> Tree {
    Tree::Bulk(Some(b.to_vec()))
}

/// Redis string2ll: optional '-', digits, no leading zeros (except "0"), no '+', no spaces, fits i64.
pub fn s2ll(s: &[u8]) -> Option<i64> {
    if s.is_empty() || s.len() > 20 {
        return None;
    }
    if s == b"0" {
        return Some(0);
    }
    let (neg, d) = if s[0] == b'-' { (true, &s[1..]) } else { (false, s) };
    if d.is_empty() || d[0] == b'0' || !d.iter().all(|c| c.is_ascii_digit()) {
        return None;
    }
    let mut v: i128 = 0;
    for &c in d {
        v = v * 10 + (c - b'0') as i128;
    }
    if neg {
        v = -v;
    }
    if v < i64::MIN as i128 || v > i64::MAX as i128 {
        None
    } else {
        Some(v as i64)
    }
}

/// Redis getDoubleFromObject (strtod on the whole string, no leading space, NaN rejected).
pub fn s2d(s: &[u8]) -> Option<f64> {
    if s.is_empty() || s[0].is_ascii_whitespace() {
        return None;
    }
    let t = std::str::from_utf8(s).ok()?;
    let l = t.to_ascii_lowercase();
    let v = match l.as_str() {
        "inf" | "+inf" | "infinity" | "+infinity" => f64::INFINITY,
        "-inf" | "-infinity" => f64::NEG_INFINITY,
        _ => {
            if l.contains("nan") || l.contains("inf") || l.ends_with(char::is_whitespace) {
                return None;
            }
            // strtod accepts hex floats and such; the generator does not produce them
            t.parse::<f64>().ok()?
        }
    };
    if v.is_nan() {
        None
    } else {
        Some(v)
    }
}

fn up(b: &[u8]) -> String {
    String::from_utf8_lossy(b).to_uppercase()
}

fn norm_range(start: i64, end: i64, len: i64) -> Option<(usize, usize)> {
    // Redis list/zset index normalisation; returns inclusive bounds or None when empty
    let mut s = if start < 0 { len.saturating_add(start) } else { start };
    let mut e = if end < 0 { len.saturating_add(end) } else { end };
    if s < 0 {
        s = 0;
    }
    if s > e || s >= len {
        return None;
    }
    if e >= len {
        e = len - 1;
    }
    if e < 0 {
        return None;
    }
    Some((s as usize, e as usize))
}

pub fn glob(p: &[u8], s: &[u8]) -> bool {
    // Redis stringmatchlen (case sensitive)
    let (mut pi, mut si) = (0usize, 0usize);
    while pi < p.len() {
        match p[pi] {
            b'*' => {
                while pi + 1 < p.len() && p[pi + 1] == b'*' {
                    pi += 1;
                }
                if pi + 1 == p.len() {
                    return true;
                }
                for k in si..=s.len() {
                    if glob(&p[pi + 1..], &s[k..]) {
                        return true;
                    }
                }
                return false;
            }
            b'?' => {
                if si >= s.len() {
                    return false;
                }
                si += 1;
                pi += 1;
            }
            b'[' => {
                if si >= s.len() {
                    return false;
                }
                pi += 1;
                let not = pi < p.len() && p[pi] == b'^';
                if not {
                    pi += 1;
                }
                let mut matched = false;
                loop {
                    if pi >= p.len() {
                        pi = p.len().saturating_sub(1);
                        break;
                    }
                    if p[pi] == b'\\' && pi + 1 < p.len() {
                        pi += 1;
                        if p[pi] == s[si] {
                            matched = true;
                        }
                    } else if p[pi] == b']' {
                        break;
                    } else if pi + 2 < p.len() && p[pi + 1] == b'-' && p[pi + 2] != b']' {
                        let (mut a, mut z) = (p[pi], p[pi + 2]);
                        if a > z {
                            std::mem::swap(&mut a, &mut z);
                        }
                        pi += 2;
                        if s[si] >= a && s[si] <= z {
                            matched = true;
                        }
                    } else if p[pi] == s[si] {
                        matched = true;
                    }
                    pi += 1;
                }
                if not {
                    matched = !matched;
                }
                if !matched {
                    return false;
                }
                si += 1;
                pi += 1;
            }
            b'\\' if pi + 1 < p.len() => {
                pi += 1;
                if si >= s.len() || s[si] != p[pi] {
                    return false;
                }
                si += 1;
                pi += 1;
            }
            c => {
                if si >= s.len() || s[si] != c {
                    return false;
                }
                si += 1;
                pi += 1;
            }
        }
    }
    si == s.len()
}

pub fn fmt_score(f: f64) -> Vec<u8> {
    if f == f64::INFINITY {
        return b"inf".to_vec();
    }
    if f == f64::NEG_INFINITY {
        return b"-inf".to_vec();
    }
    if f == f.trunc() && f.abs() < 1e17 {
        return format!("{}", f as i64).into_bytes();
    }
    format!("{}", f).into_bytes()
}

#[derive(Clone, Debug, Default)]
pub struct Model {
    pub db: BTreeMap<Vec<u8>, (V, Option<i64>)>,
    /// absolute unix milliseconds
    pub now: i64,
    /// label of the model branch that produced the last expectation (input class for signatures)
    pub why: &'static str,
}

const MAX_STR: i64 = 512 * 1024 * 1024;

impl Model {
    pub fn new(now: i64) -> Model {
        Model { db: BTreeMap::new(), now, why: "" }
    }

    pub fn advance(&mut self, ms: i64) {
        self.now = self.now.saturating_add(ms);
    }

    fn purge(&mut self, k: &[u8]) {
        if let Some((_, Some(d))) = self.db.get(k) {
            if *d <= self.now {
                self.db.remove(k);
            }
        }
    }

    pub fn live_keys(&mut self) -> Vec<Vec<u8>> {
        let ks: Vec<Vec<u8>> = self.db.keys().cloned().collect();
        for k in &ks {
            self.purge(k);
        }
        self.db.keys().cloned().collect()
    }

    fn get(&mut self, k: &[u8]) -> Option<&V> {
        self.purge(k);
        self.db.get(k).map(|e| &e.0)
    }

    fn ttl_of(&mut self, k: &[u8]) -> Option<Option<i64>> {
        self.purge(k);
        self.db.get(k).map(|e| e.1)
    }

    fn put(&mut self, k: &[u8], v: V, ttl: Option<i64>) {
        self.db.insert(k.to_vec(), (v, ttl));
    }

    /// replace value keeping the deadline (in-place modification)
    fn put_keep(&mut self, k: &[u8], v: V) {
        let ttl = self.db.get(k).and_then(|e| e.1);
        self.db.insert(k.to_vec(), (v, ttl));
    }

    fn drop_if_empty(&mut self, k: &[u8]) {
        let empty = match self.db.get(k).map(|e| &e.0) {
            Some(V::List(l)) => l.is_empty(),
            Some(V::Set(s)) => s.is_empty(),
            Some(V::Hash(h)) => h.is_empty(),
            Some(V::ZSet(z)) => z.is_empty(),
            _ => false,
        };
        if empty {
            self.db.remove(k);
        }
    }

    /// Visible keyspace: key -> (type, canonical value, remaining ms or -1)
    pub fn snapshot(&mut self) -> BTreeMap<Vec<u8>, (String, Vec<Vec<u8>>, i64)> {
        let mut out = BTreeMap::new();
        for k in self.live_keys() {
            let (v, d) = self.db.get(&k).unwrap().clone();
            let canon: Vec<Vec<u8>> = match &v {
                V::Str(s) => vec![s.clone()],
                V::List(l) => l.iter().cloned().collect(),
                V::Set(s) => s.iter().cloned().collect(),
                V::Hash(h) => h.iter().flat_map(|(f, v)| vec![f.clone(), v.clone()]).collect(),
                V::ZSet(z) => zsorted(z).into_iter().flat_map(|(m, s)| vec![m, fmt_score(s)]).collect(),
            };
            out.insert(k, (v.tname().to_string(), canon, d.map(|d| d - self.now).unwrap_or(-1)));
        }
        out
    }

    /// Apply the implementation's random choice (SPOP / RANDOMKEY need no change for the latter).
    pub fn apply_spop(&mut self, k: &[u8], members: &[Vec<u8>]) {
        if let Some((V::Set(s), _)) = self.db.get_mut(k) {
            for m in members {
                s.remove(m);
            }
        }
        self.drop_if_empty(k);
    }

    /// Type a command's first key must have (None: any / no key).
    fn family_type(name: &str) -> Option<&'static str> {
        Some(match name {
            "GET" | "SETNX" | "GETSET" | "APPEND" | "STRLEN" | "INCR" | "DECR" | "INCRBY" | "DECRBY" | "INCRBYFLOAT" | "GETRANGE" | "SUBSTR" | "SETRANGE" | "GETDEL"
            | "GETEX" => "string",
            "LPUSH" | "RPUSH" | "LPOP" | "RPOP" | "LLEN" | "LINDEX" | "LRANGE" | "LSET" | "LTRIM" | "RPOPLPUSH" | "LMOVE" => "list",
            "SADD" | "SREM" | "SMEMBERS" | "SISMEMBER" | "SCARD" | "SPOP" => "set",
            "HSET" | "HGET" | "HDEL" | "HGETALL" | "HKEYS" | "HVALS" | "HLEN" | "HEXISTS" | "HINCRBY" => "hash",
            "ZADD" | "ZREM" | "ZCARD" | "ZSCORE" | "ZRANK" | "ZRANGE" | "ZREVRANGE" | "ZCOUNT" | "ZRANGEBYSCORE" => "zset",
            _ => return None,
        })
    }

    /// Expectation for one command. When two independent faults are present at once (a malformed
    /// argument AND a key of the wrong type / a second bad operand) Redis's answer depends on
    /// its per-command order of checks; the model then accepts either error.
    pub fn exec(&mut self, a: &[Vec<u8>]) -> Option<Exp> {
        self.why = "";
        if a.is_empty() {
            return None;
        }
        let name = up(&a[0]);
        let wrong_type = match (Self::family_type(&name), a.get(1)) {
            (Some(t), Some(k)) => self.get(k).map(|v| v.tname() != t).unwrap_or(false),
            _ => false,
        };
        let mut shadow = if wrong_type { Some(self.clone()) } else { None };
        let e = self.exec_inner(a)?;
        let why = self.why;
        let out = match (&e, shadow.as_mut()) {
            (Exp::Err("ERR"), Some(_)) if why != "arity" => Exp::OneOf(vec![ERR, WRONGTYPE]),
            (Exp::Err("WRONGTYPE"), Some(sh)) => {
                // would the arguments alone have been rejected?
                sh.db.remove(&a[1]);
                match sh.exec_inner(a) {
                    Some(Exp::Err(c)) => {
                        self.why = "two-faults";
                        Exp::OneOf(vec![WRONGTYPE, Exp::Err(c)])
                    }
                    _ => e,
                }
            }
            _ => e,
        };
        Some(out)
    }

    fn exec_inner(&mut self, a: &[Vec<u8>]) -> Option<Exp> {
        let name = up(&a[0]);
        let n = a.len();
        macro_rules! arity {
            ($cond:expr) => {
                if !($cond) {
                    self.why = "arity";
                    return Some(ERR);
                }
            };
        }
        macro_rules! parse_ll {
            ($b:expr) => {
                match s2ll($b) {
                    Some(v) => v,
                    None => {
                        self.why = "arg-not-int";
                        return Some(ERR);
                    }
                }
            };
        }
        macro_rules! bad {
            ($why:expr) => {{
                self.why = $why;
                return Some(ERR);
            }};
        }
        Some(match name.as_str() {
            // ------------------------------------------------------------------ strings
            "GET" => {
                arity!(n == 2);
                match self.get(&a[1]) {
                    None => nil(),
                    Some(V::Str(s)) => bulk(s),
                    Some(_) => WRONGTYPE,
                }
            }
            "SET" => {
                arity!(n >= 3);
                return Some(self.set_cmd(a));
            }
            "SETNX" => {
                arity!(n == 3);
                if self.get(&a[1]).is_some() {
                    int(0)
                } else {
                    self.put(&a[1], V::Str(a[2].clone()), None);
                    int(1)
                }
            }
            "SETEX" | "PSETEX" => {
                arity!(n == 4);
                let t = parse_ll!(&a[2]);
                let unit = if name == "SETEX" { 1000 } else { 1 };
                if t <= 0 || t > i64::MAX / unit {
                    { self.why = "expire-invalid"; return Some(ERR) };
                }
                let ms = t * unit;
                if ms > i64::MAX - self.now {
                    { self.why = "expire-invalid"; return Some(ERR) };
                }
                self.put(&a[1], V::Str(a[3].clone()), Some(self.now + ms));
                ok()
            }
            "GETSET" => {
                arity!(n == 3);
                let old = match self.get(&a[1]) {
                    None => nil(),
                    Some(V::Str(s)) => bulk(s),
                    Some(_) => return Some(WRONGTYPE),
                };
                self.put(&a[1], V::Str(a[2].clone()), None);
                old
            }
            "APPEND" => {
                arity!(n == 3);
                match self.get(&a[1]).cloned() {
                    None => {
                        self.put(&a[1], V::Str(a[2].clone()), None);
                        int(a[2].len() as i64)
                    }
                    Some(V::Str(mut s)) => {
                        s.extend_from_slice(&a[2]);
                        let l = s.len() as i64;
                        self.put_keep(&a[1], V::Str(s));
                        int(l)
                    }
                    Some(_) => WRONGTYPE,
                }
            }
            "STRLEN" => {
                arity!(n == 2);
                match self.get(&a[1]) {
                    None => int(0),
                    Some(V::Str(s)) => int(s.len() as i64),
                    Some(_) => WRONGTYPE,
                }
            }
            "INCR" | "DECR" | "INCRBY" | "DECRBY" => {
                let by = if name == "INCR" || name == "DECR" {
                    arity!(n == 2);
                    1i64
                } else {
                    arity!(n == 3);
                    parse_ll!(&a[2])
                };
                let neg = name.starts_with("DECR");
                let cur = match self.get(&a[1]) {
                    None => 0,
                    Some(V::Str(s)) => match s2ll(s) {
                        Some(v) => v,
                        None => { self.why = "value-not-int"; return Some(ERR) },
                    },
                    Some(_) => return Some(WRONGTYPE),
                };
                let delta = if neg {
                    match by.checked_neg() {
                        Some(d) => d,
                        None => { self.why = "overflow"; return Some(ERR) },
                    }
                } else {
                    by
                };
                match cur.checked_add(delta) {
                    None => { self.why = "overflow"; ERR }
                    Some(v) => {
                        self.put_keep(&a[1], V::Str(v.to_string().into_bytes()));
                        int(v)
                    }
                }
            }
            "INCRBYFLOAT" => {
                arity!(n == 3);
                let by = match s2d(&a[2]) {
                    Some(v) => v,
                    None => { self.why = "arg-not-float"; return Some(ERR) },
                };
                let cur = match self.get(&a[1]) {
                    None => 0.0,
                    Some(V::Str(s)) => match s2d(s) {
                        Some(v) => v,
                        None => { self.why = "value-not-float"; return Some(ERR) },
                    },
                    Some(_) => return Some(WRONGTYPE),
                };
                let v = cur + by;
                if v.is_nan() || v.is_infinite() {
                    { self.why = "result-nan-or-inf"; return Some(ERR) };
                }
                // the stored text follows the implementation's rendering (harness patches it in)
                self.put_keep(&a[1], V::Str(fmt_score(v)));
                Exp::Float(v)
            }
            "MGET" => {
                arity!(n >= 2);
                let mut out = vec![];
                for k in &a[1..] {
                    out.push(match self.get(k) {
                        Some(V::Str(s)) => tb(s),
                        _ => Tree::Bulk(None),
                    });
                }
                arr(out)
            }
            "MSET" => {
                arity!(n >= 3 && n % 2 == 1);
                for p in a[1..].chunks(2) {
                    self.put(&p[0], V::Str(p[1].clone()), None);
                }
                ok()
            }
            "MSETNX" => {
                arity!(n >= 3 && n % 2 == 1);
                let mut any = false;
                for p in a[1..].chunks(2) {
                    if self.get(&p[0]).is_some() {
                        any = true;
                    }
                }
                if any {
                    int(0)
                } else {
                    for p in a[1..].chunks(2) {
                        self.put(&p[0], V::Str(p[1].clone()), None);
                    }
                    int(1)
                }
            }
            "GETRANGE" | "SUBSTR" => {
                arity!(n == 4);
                let (s0, e0) = (parse_ll!(&a[2]), parse_ll!(&a[3]));
                let s = match self.get(&a[1]) {
                    None => return Some(bulk(b"")),
                    Some(V::Str(s)) => s.clone(),
                    Some(_) => return Some(WRONGTYPE),
                };
                let len = s.len() as i64;
                if s0 < 0 && e0 < 0 && s0 > e0 {
                    return Some(bulk(b""));
                }
                let mut st = if s0 < 0 { len.saturating_add(s0) } else { s0 };
                let mut en = if e0 < 0 { len.saturating_add(e0) } else { e0 };
                if st < 0 {
                    st = 0;
                }
                if en < 0 {
                    en = 0;
                }
                if en >= len {
                    en = len - 1;
                }
                if len == 0 || st > en {
                    bulk(b"")
                } else {
                    bulk(&s[st as usize..=en as usize])
                }
            }
            "SETRANGE" => {
                arity!(n == 4);
                let off = parse_ll!(&a[2]);
                if off < 0 {
                    { self.why = "offset-negative"; return Some(ERR) };
                }
                let cur = match self.get(&a[1]) {
                    None => None,
                    Some(V::Str(s)) => Some(s.clone()),
                    Some(_) => return Some(WRONGTYPE),
                };
                if a[3].is_empty() {
                    return Some(int(cur.map(|s| s.len() as i64).unwrap_or(0)));
                }
                if off.saturating_add(a[3].len() as i64) > MAX_STR {
                    { self.why = "string-too-long"; return Some(ERR) };
                }
                let mut s = cur.unwrap_or_default();
                let off = off as usize;
                if s.len() < off + a[3].len() {
                    s.resize(off + a[3].len(), 0);
                }
                s[off..off + a[3].len()].copy_from_slice(&a[3]);
                let l = s.len() as i64;
                self.put_keep(&a[1], V::Str(s));
                int(l)
            }
            "GETDEL" => {
                arity!(n == 2);
                match self.get(&a[1]).cloned() {
                    None => nil(),
                    Some(V::Str(s)) => {
                        self.db.remove(&a[1]);
                        bulk(&s)
                    }
                    Some(_) => WRONGTYPE,
                }
            }
            "GETEX" => {
                arity!(n >= 2);
                return Some(self.getex_cmd(a));
            }
            // ------------------------------------------------------------------ keys
            "DEL" | "UNLINK" => {
                arity!(n >= 2);
                let mut c = 0;
                for k in &a[1..] {
                    self.purge(k);
                    if self.db.remove(k).is_some() {
                        c += 1;
                    }
                }
                int(c)
            }
            "EXISTS" => {
                arity!(n >= 2);
                let mut c = 0;
                for k in &a[1..] {
                    if self.get(k).is_some() {
                        c += 1;
                    }
                }
                int(c)
            }
            "TYPE" => {
                arity!(n == 2);
                let t = self.get(&a[1]).map(|v| v.tname()).unwrap_or("none");
                Exp::Exact(Tree::Simple(t.as_bytes().to_vec()))
            }
            "KEYS" => {
                arity!(n == 2);
                let ks: Vec<Tree> = self.live_keys().into_iter().filter(|k| glob(&a[1], k)).map(|k| tb(&k)).collect();
                Exp::Multiset(ks)
            }
            "DBSIZE" => {
                arity!(n == 1);
                int(self.live_keys().len() as i64)
            }
            "FLUSHDB" | "FLUSHALL" => {
                self.db.clear();
                ok()
            }
            "RANDOMKEY" => {
                arity!(n == 1);
                Exp::Pick(PickKind::RandomKey)
            }
            "RENAME" | "RENAMENX" => {
                arity!(n == 3);
                self.purge(&a[1]);
                self.purge(&a[2]);
                let src = match self.db.get(&a[1]).cloned() {
                    None => { self.why = "no-such-key"; return Some(ERR) },
                    Some(e) => e,
                };
                let nx = name == "RENAMENX";
                if a[1] == a[2] {
                    return Some(if nx { int(0) } else { ok() });
                }
                if nx && self.db.contains_key(&a[2]) {
                    return Some(int(0));
                }
                self.db.remove(&a[1]);
                self.db.insert(a[2].clone(), src);
                if nx {
                    int(1)
                } else {
                    ok()
                }
            }
            "EXPIRE" | "PEXPIRE" | "EXPIREAT" | "PEXPIREAT" => {
                arity!(n >= 3);
                return Some(self.expire_cmd(&name, a));
            }
            "TTL" | "PTTL" | "EXPIRETIME" | "PEXPIRETIME" => {
                arity!(n == 2);
                match self.ttl_of(&a[1]) {
                    None => int(-2),
                    Some(None) => int(-1),
                    Some(Some(d)) => match name.as_str() {
                        "PTTL" => int(d - self.now),
                        "TTL" => int((d - self.now + 500) / 1000),
                        "PEXPIRETIME" => int(d),
                        _ => int((d + 500) / 1000),
                    },
                }
            }
            "PERSIST" => {
                arity!(n == 2);
                match self.ttl_of(&a[1]) {
                    Some(Some(_)) => {
                        if let Some(e) = self.db.get_mut(&a[1]) {
                            e.1 = None;
                        }
                        int(1)
                    }
                    _ => int(0),
                }
            }
            // ------------------------------------------------------------------ lists
            "LPUSH" | "RPUSH" => {
                arity!(n >= 3);
                let mut l = match self.get(&a[1]).cloned() {
                    None => VecDeque::new(),
                    Some(V::List(l)) => l,
                    Some(_) => return Some(WRONGTYPE),
                };
                for v in &a[2..] {
                    if name == "LPUSH" {
                        l.push_front(v.clone());
                    } else {
                        l.push_back(v.clone());
                    }
                }
                let len = l.len() as i64;
                self.put_keep(&a[1], V::List(l));
                int(len)
            }
            "LPOP" | "RPOP" => {
                arity!(n == 2);
                match self.get(&a[1]).cloned() {
                    None => nil(),
                    Some(V::List(mut l)) => {
                        let v = if name == "LPOP" { l.pop_front() } else { l.pop_back() };
                        self.put_keep(&a[1], V::List(l));
                        self.drop_if_empty(&a[1]);
                        match v {
                            Some(v) => bulk(&v),
                            None => nil(),
                        }
                    }
                    Some(_) => WRONGTYPE,
                }
            }
            "LLEN" => {
                arity!(n == 2);
                match self.get(&a[1]) {
                    None => int(0),
                    Some(V::List(l)) => int(l.len() as i64),
                    Some(_) => WRONGTYPE,
                }
            }
            "LINDEX" => {
                arity!(n == 3);
                let idx = s2ll(&a[2]);
                let l = match self.get(&a[1]) {
                    None => return Some(if idx.is_none() { Exp::OneOf(vec![nil(), ERR]) } else { nil() }),
                    Some(V::List(l)) => l.clone(),
                    Some(_) => return Some(if idx.is_none() { Exp::OneOf(vec![WRONGTYPE, ERR]) } else { WRONGTYPE }),
                };
                let idx = match idx {
                    Some(i) => i,
                    None => { self.why = "arg-not-int"; return Some(ERR) },
                };
                let len = l.len() as i64;
                let i = if idx < 0 { len + idx } else { idx };
                if i < 0 || i >= len {
                    nil()
                } else {
                    bulk(&l[i as usize])
                }
            }
            "LRANGE" => {
                arity!(n == 4);
                let (s, e) = (s2ll(&a[2]), s2ll(&a[3]));
                if s.is_none() || e.is_none() {
                    { self.why = "arg-not-int"; return Some(ERR) };
                }
                let l = match self.get(&a[1]) {
                    None => return Some(arr(vec![])),
                    Some(V::List(l)) => l.clone(),
                    Some(_) => return Some(WRONGTYPE),
                };
                match norm_range(s.unwrap(), e.unwrap(), l.len() as i64) {
                    None => arr(vec![]),
                    Some((x, y)) => arr(l.iter().skip(x).take(y - x + 1).map(|v| tb(v)).collect()),
                }
            }
            "LSET" => {
                arity!(n == 4);
                let idx = s2ll(&a[2]);
                let mut l = match self.get(&a[1]).cloned() {
                    None => { self.why = "no-such-key"; return Some(ERR) },
                    Some(V::List(l)) => l,
                    Some(_) => return Some(if idx.is_none() { Exp::OneOf(vec![WRONGTYPE, ERR]) } else { WRONGTYPE }),
                };
                let idx = match idx {
                    Some(i) => i,
                    None => { self.why = "arg-not-int"; return Some(ERR) },
                };
                let len = l.len() as i64;
                let i = if idx < 0 { len + idx } else { idx };
                if i < 0 || i >= len {
                    { self.why = "index-out-of-range"; ERR }
                } else {
                    l[i as usize] = a[3].clone();
                    self.put_keep(&a[1], V::List(l));
                    ok()
                }
            }
            "LTRIM" => {
                arity!(n == 4);
                let (s, e) = (s2ll(&a[2]), s2ll(&a[3]));
                if s.is_none() || e.is_none() {
                    { self.why = "arg-not-int"; return Some(ERR) };
                }
                let l = match self.get(&a[1]).cloned() {
                    None => return Some(ok()),
                    Some(V::List(l)) => l,
                    Some(_) => return Some(WRONGTYPE),
                };
                let nl: VecDeque<Vec<u8>> = match norm_range(s.unwrap(), e.unwrap(), l.len() as i64) {
                    None => VecDeque::new(),
                    Some((x, y)) => l.iter().skip(x).take(y - x + 1).cloned().collect(),
                };
                self.put_keep(&a[1], V::List(nl));
                self.drop_if_empty(&a[1]);
                ok()
            }
            "RPOPLPUSH" | "LMOVE" => {
                let (from_left, to_left) = if name == "RPOPLPUSH" {
                    arity!(n == 3);
                    (false, true)
                } else {
                    arity!(n == 5);
                    let f = match up(&a[3]).as_str() {
                        "LEFT" => true,
                        "RIGHT" => false,
                        _ => { self.why = "lmove-direction"; return Some(ERR) },
                    };
                    let t = match up(&a[4]).as_str() {
                        "LEFT" => true,
                        "RIGHT" => false,
                        _ => { self.why = "lmove-direction"; return Some(ERR) },
                    };
                    (f, t)
                };
                let mut src = match self.get(&a[1]).cloned() {
                    None => return Some(nil()),
                    Some(V::List(l)) => l,
                    Some(_) => return Some(WRONGTYPE),
                };
                match self.get(&a[2]) {
                    None | Some(V::List(_)) => {}
                    Some(_) => return Some(WRONGTYPE),
                }
                let v = if from_left { src.pop_front() } else { src.pop_back() }.unwrap();
                if a[1] == a[2] {
                    if to_left {
                        src.push_front(v.clone());
                    } else {
                        src.push_back(v.clone());
                    }
                    self.put_keep(&a[1], V::List(src));
                } else {
                    self.put_keep(&a[1], V::List(src));
                    self.drop_if_empty(&a[1]);
                    let mut dst = match self.get(&a[2]).cloned() {
                        Some(V::List(l)) => l,
                        _ => VecDeque::new(),
                    };
                    if to_left {
                        dst.push_front(v.clone());
                    } else {
                        dst.push_back(v.clone());
                    }
                    self.put_keep(&a[2], V::List(dst));
                }
                bulk(&v)
            }
            // ------------------------------------------------------------------ sets
            "SADD" | "SREM" => {
                arity!(n >= 3);
                let mut s = match self.get(&a[1]).cloned() {
                    None => BTreeSet::new(),
                    Some(V::Set(s)) => s,
                    Some(_) => return Some(WRONGTYPE),
                };
                let mut c = 0;
                for m in &a[2..] {
                    let ch = if name == "SADD" { s.insert(m.clone()) } else { s.remove(m) };
                    if ch {
                        c += 1;
                    }
                }
                if !(name == "SREM" && self.get(&a[1]).is_none()) {
                    self.put_keep(&a[1], V::Set(s));
                    self.drop_if_empty(&a[1]);
                }
                int(c)
            }
            "SMEMBERS" => {
                arity!(n == 2);
                match self.get(&a[1]) {
                    None => Exp::Multiset(vec![]),
                    Some(V::Set(s)) => Exp::Multiset(s.iter().map(|m| tb(m)).collect()),
                    Some(_) => WRONGTYPE,
                }
            }
            "SISMEMBER" => {
                arity!(n == 3);
                match self.get(&a[1]) {
                    None => int(0),
                    Some(V::Set(s)) => int(s.contains(&a[2]) as i64),
                    Some(_) => WRONGTYPE,
                }
            }
            "SCARD" => {
                arity!(n == 2);
                match self.get(&a[1]) {
                    None => int(0),
                    Some(V::Set(s)) => int(s.len() as i64),
                    Some(_) => WRONGTYPE,
                }
            }
            "SPOP" => {
                arity!(n == 2 || n == 3);
                let cnt = if n == 3 {
                    match s2ll(&a[2]) {
                        Some(c) if c >= 0 => Some(c as usize),
                        _ => { self.why = "spop-count-invalid"; return Some(ERR) },
                    }
                } else {
                    None
                };
                match self.get(&a[1]) {
                    None => {
                        if cnt.is_some() {
                            arr(vec![])
                        } else {
                            nil()
                        }
                    }
                    Some(V::Set(_)) => match cnt {
                        None => Exp::Pick(PickKind::SpopOne(a[1].clone())),
                        Some(0) => arr(vec![]),
                        Some(c) => Exp::Pick(PickKind::SpopN(a[1].clone(), c)),
                    },
                    Some(_) => WRONGTYPE,
                }
            }
            // ------------------------------------------------------------------ hashes
            "HSET" => {
                arity!(n >= 4 && n % 2 == 0);
                let mut h = match self.get(&a[1]).cloned() {
                    None => BTreeMap::new(),
                    Some(V::Hash(h)) => h,
                    Some(_) => return Some(WRONGTYPE),
                };
                let mut c = 0;
                for p in a[2..].chunks(2) {
                    if h.insert(p[0].clone(), p[1].clone()).is_none() {
                        c += 1;
                    }
                }
                self.put_keep(&a[1], V::Hash(h));
                int(c)
            }
            "HGET" => {
                arity!(n == 3);
                match self.get(&a[1]) {
                    None => nil(),
                    Some(V::Hash(h)) => h.get(&a[2]).map(|v| bulk(v)).unwrap_or(nil()),
                    Some(_) => WRONGTYPE,
                }
            }
            "HDEL" => {
                arity!(n >= 3);
                let mut h = match self.get(&a[1]).cloned() {
                    None => return Some(int(0)),
                    Some(V::Hash(h)) => h,
                    Some(_) => return Some(WRONGTYPE),
                };
                let mut c = 0;
                for f in &a[2..] {
                    if h.remove(f).is_some() {
                        c += 1;
                    }
                }
                self.put_keep(&a[1], V::Hash(h));
                self.drop_if_empty(&a[1]);
                int(c)
            }
            "HGETALL" | "HKEYS" | "HVALS" => {
                arity!(n == 2);
                match self.get(&a[1]) {
                    None => Exp::Multiset(vec![]),
                    Some(V::Hash(h)) => match name.as_str() {
                        "HGETALL" => Exp::PairSet(h.iter().map(|(f, v)| (tb(f), tb(v))).collect()),
                        "HKEYS" => Exp::Multiset(h.keys().map(|f| tb(f)).collect()),
                        _ => Exp::Multiset(h.values().map(|v| tb(v)).collect()),
                    },
                    Some(_) => WRONGTYPE,
                }
            }
            "HLEN" => {
                arity!(n == 2);
                match self.get(&a[1]) {
                    None => int(0),
                    Some(V::Hash(h)) => int(h.len() as i64),
                    Some(_) => WRONGTYPE,
                }
            }
            "HEXISTS" => {
                arity!(n == 3);
                match self.get(&a[1]) {
                    None => int(0),
                    Some(V::Hash(h)) => int(h.contains_key(&a[2]) as i64),
                    Some(_) => WRONGTYPE,
                }
            }
            "HINCRBY" => {
                arity!(n == 4);
                let by = s2ll(&a[3]);
                let mut h = match self.get(&a[1]).cloned() {
                    None => BTreeMap::new(),
                    Some(V::Hash(h)) => h,
                    Some(_) => return Some(if by.is_none() { Exp::OneOf(vec![WRONGTYPE, ERR]) } else { WRONGTYPE }),
                };
                let by = match by {
                    Some(b) => b,
                    None => { self.why = "arg-not-int"; return Some(ERR) },
                };
                let cur = match h.get(&a[2]) {
                    None => 0,
                    Some(v) => match s2ll(v) {
                        Some(x) => x,
                        None => { self.why = "hash-value-not-int"; return Some(ERR) },
                    },
                };
                match cur.checked_add(by) {
                    None => { self.why = "overflow"; ERR }
                    Some(v) => {
                        h.insert(a[2].clone(), v.to_string().into_bytes());
                        self.put_keep(&a[1], V::Hash(h));
                        int(v)
                    }
                }
            }
            // ------------------------------------------------------------------ sorted sets
            "ZADD" => {
                arity!(n >= 4);
                return Some(self.zadd_cmd(a));
            }
            "ZREM" => {
                arity!(n >= 3);
                let mut z = match self.get(&a[1]).cloned() {
                    None => return Some(int(0)),
                    Some(V::ZSet(z)) => z,
                    Some(_) => return Some(WRONGTYPE),
                };
                let mut c = 0;
                for m in &a[2..] {
                    if z.remove(m).is_some() {
                        c += 1;
                    }
                }
                self.put_keep(&a[1], V::ZSet(z));
                self.drop_if_empty(&a[1]);
                int(c)
            }
            "ZCARD" => {
                arity!(n == 2);
                match self.get(&a[1]) {
                    None => int(0),
                    Some(V::ZSet(z)) => int(z.len() as i64),
                    Some(_) => WRONGTYPE,
                }
            }
            "ZSCORE" => {
                arity!(n == 3);
                match self.get(&a[1]) {
                    None => nil(),
                    Some(V::ZSet(z)) => z.get(&a[2]).map(|s| Exp::Float(*s)).unwrap_or(nil()),
                    Some(_) => WRONGTYPE,
                }
            }
            "ZRANK" => {
                arity!(n == 3);
                match self.get(&a[1]) {
                    None => nil(),
                    Some(V::ZSet(z)) => match zsorted(z).iter().position(|(m, _)| m == &a[2]) {
                        Some(i) => int(i as i64),
                        None => nil(),
                    },
                    Some(_) => WRONGTYPE,
                }
            }
            "ZRANGE" | "ZREVRANGE" => {
                arity!(n == 4 || n == 5);
                let (s, e) = (s2ll(&a[2]), s2ll(&a[3]));
                let ws = if n == 5 {
                    if up(&a[4]) != "WITHSCORES" {
                        { self.why = "syntax"; return Some(ERR) };
                    }
                    true
                } else {
                    false
                };
                if s.is_none() || e.is_none() {
                    { self.why = "arg-not-int"; return Some(ERR) };
                }
                let z = match self.get(&a[1]) {
                    None => return Some(arr(vec![])),
                    Some(V::ZSet(z)) => z.clone(),
                    Some(_) => return Some(WRONGTYPE),
                };
                let mut items = zsorted(&z);
                if name == "ZREVRANGE" {
                    items.reverse();
                }
                let sel: Vec<(Vec<u8>, f64)> = match norm_range(s.unwrap(), e.unwrap(), items.len() as i64) {
                    None => vec![],
                    Some((x, y)) => items[x..=y].to_vec(),
                };
                if ws {
                    Exp::Scored(sel)
                } else {
                    arr(sel.iter().map(|(m, _)| tb(m)).collect())
                }
            }
            "ZCOUNT" | "ZRANGEBYSCORE" => {
                arity!(n >= 4);
                return Some(self.zbyscore_cmd(&name, a));
            }
            _ => return None,
        })
    }

    fn set_cmd(&mut self, a: &[Vec<u8>]) -> Exp {
        let (mut nx, mut xx, mut get, mut keep) = (false, false, false, false);
        let mut exp: Option<(String, Vec<u8>)> = None;
        let mut i = 3;
        while i < a.len() {
            let o = up(&a[i]);
            match o.as_str() {
                "NX" if !xx => nx = true,
                "XX" if !nx => xx = true,
                "GET" => get = true,
                "KEEPTTL" if exp.is_none() => keep = true,
                "EX" | "PX" | "EXAT" | "PXAT" if exp.is_none() && !keep && i + 1 < a.len() => {
                    exp = Some((o.clone(), a[i + 1].clone()));
                    i += 1;
                }
                _ => { self.why = "set-syntax-or-conflicting-options"; return ERR },
            }
            i += 1;
        }
        let mut deadline = None;
        if let Some((unit, v)) = &exp {
            let t = match s2ll(v) {
                Some(t) => t,
                None => { self.why = "expire-not-int"; return ERR },
            };
            if t <= 0 {
                { self.why = "expire-invalid"; return ERR };
            }
            let ms = match unit.as_str() {
                "EX" | "EXAT" => match t.checked_mul(1000) {
                    Some(m) => m,
                    None => { self.why = "expire-invalid"; return ERR },
                },
                _ => t,
            };
            let abs = if unit == "EX" || unit == "PX" {
                match ms.checked_add(self.now) {
                    Some(d) => d,
                    None => { self.why = "expire-invalid"; return ERR },
                }
            } else {
                ms
            };
            deadline = Some(abs);
        }
        let cur = self.get(&a[1]).cloned();
        if get {
            if let Some(v) = &cur {
                if !matches!(v, V::Str(_)) {
                    return WRONGTYPE;
                }
            }
        }
        let old = match &cur {
            Some(V::Str(s)) => bulk(s),
            _ => nil(),
        };
        if (nx && cur.is_some()) || (xx && cur.is_none()) {
            return if get { old } else { nil() };
        }
        let ttl = if keep { self.db.get(&a[1]).and_then(|e| e.1) } else { deadline };
        self.put(&a[1], V::Str(a[2].clone()), ttl);
        self.purge(&a[1]);
        if get {
            old
        } else {
            ok()
        }
    }

    fn getex_cmd(&mut self, a: &[Vec<u8>]) -> Exp {
        let mut persist = false;
        let mut exp: Option<(String, Vec<u8>)> = None;
        let mut i = 2;
        while i < a.len() {
            let o = up(&a[i]);
            match o.as_str() {
                "PERSIST" if exp.is_none() && !persist => persist = true,
                "EX" | "PX" | "EXAT" | "PXAT" if exp.is_none() && !persist && i + 1 < a.len() => {
                    exp = Some((o.clone(), a[i + 1].clone()));
                    i += 1;
                }
                _ => { self.why = "getex-syntax"; return ERR },
            }
            i += 1;
        }
        let mut deadline = None;
        if let Some((unit, v)) = &exp {
            let t = match s2ll(v) {
                Some(t) => t,
                None => { self.why = "expire-not-int"; return ERR },
            };
            if t <= 0 {
                { self.why = "expire-invalid"; return ERR };
            }
            let ms = match unit.as_str() {
                "EX" | "EXAT" => match t.checked_mul(1000) {
                    Some(m) => m,
                    None => { self.why = "expire-invalid"; return ERR },
                },
                _ => t,
            };
            deadline = Some(if unit == "EX" || unit == "PX" {
                match ms.checked_add(self.now) {
                    Some(d) => d,
                    None => { self.why = "expire-invalid"; return ERR },
                }
            } else {
                ms
            });
        }
        let s = match self.get(&a[1]) {
            None => return nil(),
            Some(V::Str(s)) => s.clone(),
            Some(_) => return WRONGTYPE,
        };
        if persist {
            if let Some(e) = self.db.get_mut(&a[1]) {
                e.1 = None;
            }
        } else if let Some(d) = deadline {
            if let Some(e) = self.db.get_mut(&a[1]) {
                e.1 = Some(d);
            }
            self.purge(&a[1]);
        }
        bulk(&s)
    }

    fn expire_cmd(&mut self, name: &str, a: &[Vec<u8>]) -> Exp {
        let t = match s2ll(&a[2]) {
            Some(t) => t,
            None => { self.why = "arg-not-int"; return ERR },
        };
        let (mut nx, mut xx, mut gt, mut lt) = (false, false, false, false);
        for o in &a[3..] {
            match up(o).as_str() {
                "NX" => nx = true,
                "XX" => xx = true,
                "GT" => gt = true,
                "LT" => lt = true,
                _ => { self.why = "expire-bad-flag"; return ERR },
            }
        }
        if (nx && (xx || gt || lt)) || (gt && lt) {
            { self.why = "expire-flags-incompatible"; return ERR };
        }
        let secs = name == "EXPIRE" || name == "EXPIREAT";
        let ms = if secs {
            match t.checked_mul(1000) {
                Some(m) => m,
                None => { self.why = "expire-overflow"; return ERR },
            }
        } else {
            t
        };
        let abs = if name == "EXPIRE" || name == "PEXPIRE" {
            match ms.checked_add(self.now) {
                Some(d) => d,
                None => { self.why = "expire-overflow"; return ERR },
            }
        } else {
            ms
        };
        let cur = match self.ttl_of(&a[1]) {
            None => return int(0),
            Some(c) => c,
        };
        if (nx && cur.is_some()) || (xx && cur.is_none()) || (gt && (cur.is_none() || abs <= cur.unwrap())) || (lt && cur.is_some() && abs >= cur.unwrap()) {
            self.why = if abs <= self.now { "expire-cond-unmet-and-past" } else { "expire-cond-unmet" };
            return int(0);
        }
        if abs <= self.now {
            self.why = "expire-past-deletes";
            self.db.remove(&a[1]);
            return int(1);
        }
        if let Some(e) = self.db.get_mut(&a[1]) {
            e.1 = Some(abs);
        }
        int(1)
    }

    fn zadd_cmd(&mut self, a: &[Vec<u8>]) -> Exp {
        let (mut nx, mut xx, mut gt, mut lt, mut ch) = (false, false, false, false, false);
        let mut i = 2;
        while i < a.len() {
            match up(&a[i]).as_str() {
                "NX" => nx = true,
                "XX" => xx = true,
                "GT" => gt = true,
                "LT" => lt = true,
                "CH" => ch = true,
                "INCR" => { self.why = "zadd-incr"; return ERR }, // not supported by this server's parser; not generated
                _ => break,
            }
            i += 1;
        }
        let rest = &a[i..];
        if rest.is_empty() || rest.len() % 2 != 0 {
            { self.why = "zadd-syntax"; return ERR };
        }
        if (nx && xx) || (gt && lt) || (nx && (gt || lt)) {
            { self.why = "zadd-flags-incompatible"; return ERR };
        }
        let mut pairs = vec![];
        for p in rest.chunks(2) {
            match s2d(&p[0]) {
                Some(s) => pairs.push((s, p[1].clone())),
                None => { self.why = "score-not-float"; return ERR },
            }
        }
        let existed = self.get(&a[1]).cloned();
        let mut z = match existed {
            None => BTreeMap::new(),
            Some(V::ZSet(z)) => z,
            Some(_) => return WRONGTYPE,
        };
        let (mut added, mut changed) = (0, 0);
        for (s, m) in pairs {
            match z.get(&m).copied() {
                None => {
                    if !xx {
                        z.insert(m, s);
                        added += 1;
                    }
                }
                Some(old) => {
                    if nx {
                        continue;
                    }
                    if (gt && !(s > old)) || (lt && !(s < old)) {
                        continue;
                    }
                    if s != old {
                        z.insert(m, s);
                        changed += 1;
                    }
                }
            }
        }
        if !z.is_empty() {
            self.put_keep(&a[1], V::ZSet(z));
        }
        int(if ch { added + changed } else { added })
    }

    fn zbyscore_cmd(&mut self, name: &str, a: &[Vec<u8>]) -> Exp {
        fn bound(b: &[u8]) -> Option<(f64, bool)> {
            if b.first() == Some(&b'(') {
                s2d(&b[1..]).map(|v| (v, true))
            } else {
                s2d(b).map(|v| (v, false))
            }
        }
        let (mn, mx) = (bound(&a[2]), bound(&a[3]));
        let mut ws = false;
        let mut limit: Option<(i64, i64)> = None;
        if name == "ZCOUNT" {
            if a.len() != 4 {
                { self.why = "arity"; return ERR };
            }
        } else {
            let mut i = 4;
            while i < a.len() {
                match up(&a[i]).as_str() {
                    "WITHSCORES" => ws = true,
                    "LIMIT" if i + 2 < a.len() => {
                        match (s2ll(&a[i + 1]), s2ll(&a[i + 2])) {
                            (Some(o), Some(c)) => limit = Some((o, c)),
                            _ => { self.why = "limit-not-int"; return ERR },
                        }
                        i += 2;
                    }
                    _ => { self.why = "syntax"; return ERR },
                }
                i += 1;
            }
        }
        let (mn, mx) = match (mn, mx) {
            (Some(x), Some(y)) => (x, y),
            _ => { self.why = "bound-not-float"; return ERR },
        };
        let z = match self.get(&a[1]) {
            None => return if name == "ZCOUNT" { int(0) } else { arr(vec![]) },
            Some(V::ZSet(z)) => z.clone(),
            Some(_) => return WRONGTYPE,
        };
        let sel: Vec<(Vec<u8>, f64)> = zsorted(&z)
            .into_iter()
            .filter(|(_, s)| {
                let lo = if mn.1 { *s > mn.0 } else { *s >= mn.0 };
                let hi = if mx.1 { *s < mx.0 } else { *s <= mx.0 };
                lo && hi
            })
            .collect();
        if name == "ZCOUNT" {
            return int(sel.len() as i64);
        }
        let sel: Vec<(Vec<u8>, f64)> = match limit {
            None => sel,
            Some((o, c)) => {
                if o < 0 {
                    vec![]
                } else {
                    let it = sel.into_iter().skip(o as usize);
                    if c < 0 {
                        it.collect()
                    } else {
                        it.take(c as usize).collect()
                    }
                }
            }
        };
        if ws {
            Exp::Scored(sel)
        } else {
            arr(sel.iter().map(|(m, _)| tb(m)).collect())
        }
    }
}

pub fn zsorted(z: &BTreeMap<Vec<u8>, f64>) -> Vec<(Vec<u8>, f64)> {
    let mut v: Vec<(Vec<u8>, f64)> = z.iter().map(|(m, s)| (m.clone(), *s)).collect();
    v.sort_by(|a, b| a.1.partial_cmp(&b.1).unwrap_or(std::cmp::Ordering::Equal).then(a.0.cmp(&b.0)));
    v
}
