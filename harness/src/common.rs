//! Shared plumbing: argument parsing, seeded RNG, report format, panic capture.
#![allow(dead_code)]

use rand::SeedableRng;
use rand_chacha::ChaCha8Rng;
use serde::Serialize;
use serde_json::{json, Value};
use std::collections::{BTreeMap, BTreeSet};
use std::hash::{Hash, Hasher};
use std::panic::{catch_unwind, AssertUnwindSafe};
use std::time::Instant;

pub type Rng = ChaCha8Rng;

pub fn rng_from(seed: u64, stream: u64) -> Rng {
    let mut s = [0u8; 32];
    s[..8].copy_from_slice(&seed.to_le_bytes());
    s[8..16].copy_from_slice(&stream.to_le_bytes());
    s[16..24].copy_from_slice(&0x5eed_u64.to_le_bytes());
    ChaCha8Rng::from_seed(s)
}

/// Deterministic 64-bit hash (SipHash with fixed zero keys), independent of process.
pub fn h64<T: Hash + ?Sized>(t: &T) -> u64 {
    #[allow(deprecated)]
    let mut h = std::hash::SipHasher::new();
    t.hash(&mut h);
    h.finish()
}

#[derive(Clone, Debug)]
pub struct Args {
    pub tier: String,
    pub seed: u64,
    pub out: Option<String>,
    pub shard: usize,
    pub shards: usize,
    pub replay: Option<String>,
    pub extra: BTreeMap<String, String>,
}

impl Args {
    pub fn parse(argv: &[String]) -> Args {
        let mut a = Args {
            tier: "quick".into(),
            seed: 1,
            out: None,
            shard: 0,
            shards: 1,
            replay: None,
            extra: BTreeMap::new(),
        };
        let mut i = 0;
        while i < argv.len() {
            let k = argv[i].as_str();
            let v = argv.get(i + 1).cloned().unwrap_or_default();
            match k {
                "--tier" => a.tier = v,
                "--seed" => a.seed = v.parse().unwrap_or(1),
                "--out" => a.out = Some(v),
                "--shard" => {
                    let mut it = v.split('/');
                    a.shard = it.next().and_then(|x| x.parse().ok()).unwrap_or(0);
                    a.shards = it.next().and_then(|x| x.parse().ok()).unwrap_or(1);
                }
                "--replay" => a.replay = Some(v),
                _ if k.starts_with("--") => {
                    a.extra.insert(k[2..].to_string(), v);
                }
                _ => {
                    i += 1;
                    continue;
                }
            }
            i += 2;
        }
        a
    }
    pub fn thorough(&self) -> bool {
        self.tier == "thorough"
    }
    pub fn get_u64(&self, k: &str, d: u64) -> u64 {
        self.extra.get(k).and_then(|v| v.parse().ok()).unwrap_or(d)
    }
    pub fn get_str(&self, k: &str) -> Option<&str> {
        self.extra.get(k).map(|s| s.as_str())
    }
    /// Per-shard seed stream.
    pub fn rng(&self, stream: u64) -> Rng {
        rng_from(self.seed, stream.wrapping_mul(1_000_003).wrapping_add(self.shard as u64))
    }
}

#[derive(Serialize, Clone, Debug)]
pub struct Violation {
    pub signature: String,
    pub detail: String,
    pub witness: Value,
}

/// Per-process report; the python driver merges shards.
#[derive(Serialize, Debug)]
pub struct Report {
    pub property: String,
    pub leg: String,
    pub evaluations: u64,
    /// hashes of distinct non-trivial cases (set semantics, merged by the driver)
    pub distinct: BTreeSet<u64>,
    pub counters: BTreeMap<String, u64>,
    pub samples: Vec<Value>,
    pub violations: Vec<Violation>,
    pub inconclusive: Vec<String>,
    pub exhaustive: bool,
    pub notes: Vec<String>,
    pub wall_s: f64,
    #[serde(skip)]
    start: Option<Instant>,
    #[serde(skip)]
    seen_sigs: BTreeSet<String>,
}

impl Report {
    pub fn new(property: &str, leg: &str) -> Report {
        Report {
            property: property.into(),
            leg: leg.into(),
            evaluations: 0,
            distinct: BTreeSet::new(),
            counters: BTreeMap::new(),
            samples: vec![],
            violations: vec![],
            inconclusive: vec![],
            exhaustive: false,
            notes: vec![],
            wall_s: 0.0,
            start: Some(Instant::now()),
            seen_sigs: BTreeSet::new(),
        }
    }
    pub fn count(&mut self, k: &str) {
        *self.counters.entry(k.to_string()).or_insert(0) += 1;
    }
    pub fn add(&mut self, k: &str, n: u64) {
        *self.counters.entry(k.to_string()).or_insert(0) += n;
    }
    pub fn max(&mut self, k: &str, n: u64) {
        let e = self.counters.entry(format!("max:{}", k)).or_insert(0);
        if n > *e {
            *e = n;
        }
    }
    pub fn distinct<T: Hash + ?Sized>(&mut self, t: &T) {
        if self.distinct.len() < 400_000 {
            self.distinct.insert(h64(t));
        }
    }
    pub fn sample(&mut self, v: Value) {
        if self.samples.len() < 6 {
            self.samples.push(v);
        }
    }
    /// Record a violation; only the first witness per signature is kept.
    pub fn violation(&mut self, signature: impl Into<String>, detail: impl Into<String>, witness: Value) {
        let signature = signature.into();
        *self.counters.entry("violations_raw".into()).or_insert(0) += 1;
        if self.seen_sigs.insert(signature.clone()) {
            self.violations.push(Violation { signature, detail: detail.into(), witness });
        }
    }
    pub fn has_sig(&self, s: &str) -> bool {
        self.seen_sigs.contains(s)
    }
    pub fn inconclusive(&mut self, why: impl Into<String>) {
        self.inconclusive.push(why.into());
    }
    pub fn note(&mut self, s: impl Into<String>) {
        let s = s.into();
        if !self.notes.contains(&s) {
            self.notes.push(s);
        }
    }
    pub fn elapsed(&self) -> f64 {
        self.start.map(|s| s.elapsed().as_secs_f64()).unwrap_or(0.0)
    }
    pub fn finish(mut self, args: &Args) {
        self.wall_s = self.elapsed();
        let v = json!(&self);
        let text = serde_json::to_string(&v).expect("report json");
        match &args.out {
            Some(p) => std::fs::write(p, text).expect("write report"),
            None => println!("{}", text),
        }
    }
}

/// Install a panic hook that stays quiet (panics are captured by `guard`).
thread_local! {
    static GUARD_DEPTH: std::cell::Cell<u32> = const { std::cell::Cell::new(0) };
}

/// Panics inside `guard` stay quiet; a panic of the harness itself is printed.
pub fn quiet_panics() {
    let default = std::panic::take_hook();
    std::panic::set_hook(Box::new(move |info| {
        let quiet = GUARD_DEPTH.try_with(|d| d.get() > 0).unwrap_or(false) || std::env::var_os("VH_QUIET_ALL").is_some();
        if !quiet {
            default(info);
        }
    }));
}

/// Run `f`, turning a panic into Err(message).
pub fn guard<T>(f: impl FnOnce() -> T) -> Result<T, String> {
    GUARD_DEPTH.with(|d| d.set(d.get() + 1));
    let r = catch_unwind(AssertUnwindSafe(f));
    GUARD_DEPTH.with(|d| d.set(d.get().saturating_sub(1)));
    match r {
        Ok(v) => Ok(v),
        Err(e) => {
            let msg = if let Some(s) = e.downcast_ref::<&str>() {
                s.to_string()
            } else if let Some(s) = e.downcast_ref::<String>() {
                s.clone()
            } else {
                "panic (non-string payload)".to_string()
            };
            Err(msg)
        }
    }
}

/// Shorten a panic message to a stable class (strip numbers) for signatures.
pub fn panic_class(msg: &str) -> String {
    let mut out = String::new();
    let mut last_hash = false;
    for c in msg.chars().take(160) {
        if c.is_ascii_digit() {
            if !last_hash {
                out.push('#');
                last_hash = true;
            }
        } else {
            out.push(c);
            last_hash = false;
        }
    }
    out
}

pub fn lossy(b: &[u8]) -> String {
    let mut s = String::new();
    for &c in b {
        match c {
            b'\r' => s.push_str("\\r"),
            b'\n' => s.push_str("\\n"),
            b'\\' => s.push_str("\\\\"),
            0x20..=0x7e => s.push(c as char),
            _ => s.push_str(&format!("\\x{:02x}", c)),
        }
    }
    s
}

pub fn unlossy(s: &str) -> Vec<u8> {
    let b = s.as_bytes();
    let mut out = vec![];
    let mut i = 0;
    while i < b.len() {
        if b[i] == b'\\' && i + 1 < b.len() {
            match b[i + 1] {
                b'r' => {
                    out.push(b'\r');
                    i += 2;
                }
                b'n' => {
                    out.push(b'\n');
                    i += 2;
                }
                b'\\' => {
                    out.push(b'\\');
                    i += 2;
                }
                b'x' if i + 3 < b.len() => {
                    let h = std::str::from_utf8(&b[i + 2..i + 4]).unwrap_or("00");
                    out.push(u8::from_str_radix(h, 16).unwrap_or(0));
                    i += 4;
                }
                _ => {
                    out.push(b[i]);
                    i += 1;
                }
            }
        } else {
            out.push(b[i]);
            i += 1;
        }
    }
    out
}
