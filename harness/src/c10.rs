//! C10 — WAL recovery yields only intact appended entries; truncation keeps newer ones (`c10-wal`).
//! C14 — every encoding round-trips; damaged segment / checkpoint / WAL images are detected (`c14-codec`).
//! Both legs drive the real writers / readers / recovery code over the in-memory stores of the repo.
use crate::common::*;
use rand::seq::SliceRandom;
use rand::Rng as _;
use redis_sim::redis::SDS;
use redis_sim::replication::{
    CrdtValue, GCounter, GSet, GossipMessage, LamportClock, LwwRegister, ORSet, PNCounter, ReplicaId, ReplicatedValue, ReplicationDelta,
    VectorClock,
};
use redis_sim::streaming::{
    CheckpointInfo, CheckpointReader, CheckpointWriter, Compression, InMemoryObjectStore, InMemoryWalStore, Manifest, ManifestManager,
    ObjectStore, RecoveryManager, SegmentInfo, SegmentWriter, WalEntry, WalReader, WalRotator, WalStore, WalWriter,
};
use serde_json::{json, Value};
use std::collections::{BTreeMap, BTreeSet, HashMap};

fn hex(b: &[u8]) -> String {
    b.iter().map(|x| format!("{:02x}", x)).collect()
}
fn unhex(s: &str) -> Vec<u8> {
    (0..s.len() / 2).map(|i| u8::from_str_radix(&s[2 * i..2 * i + 2], 16).unwrap_or(0)).collect()
}
fn load_witness(path: &str) -> Value {
    let w: Value = serde_json::from_str(&std::fs::read_to_string(path).expect("replay file")).expect("replay json");
    w["witness"].clone()
}

// ---------------------------------------------------------------------------------------------
// image mutations (shared by both legs)
// ---------------------------------------------------------------------------------------------
#[derive(Clone, Debug)]
enum Mutn {
    Trunc(usize),
    Flip(usize, u8),
    Garbage(usize, Vec<u8>),
    Zero(usize, usize),
    ZeroExtend(usize),
    /// the file extended by n bytes of 0xFF (erased flash, a filler pattern)
    OnesExtend(usize),
    DupHeader(usize),
    Foreign(Vec<u8>),
}

impl Mutn {
    fn kind(&self) -> &'static str {
        match self {
            Mutn::Trunc(_) => "truncate",
            Mutn::Flip(..) => "bitflip",
            Mutn::Garbage(..) => "garbage",
            Mutn::Zero(..) => "zero-fill",
            Mutn::ZeroExtend(_) => "zero-extend",
            Mutn::OnesExtend(_) => "ones-extend",
            Mutn::DupHeader(_) => "dup-header",
            Mutn::Foreign(_) => "foreign-header",
        }
    }
    fn apply(&self, img: &[u8]) -> Vec<u8> {
        let mut m = img.to_vec();
        match self {
            Mutn::Trunc(l) => m.truncate(*l),
            Mutn::Flip(p, b) => m[*p] ^= 1 << b,
            Mutn::Garbage(p, g) => (0..g.len()).filter(|i| p + i < img.len()).for_each(|i| m[p + i] = g[i]),
            Mutn::Zero(p, n) => (*p..(*p + *n).min(img.len())).for_each(|i| m[i] = 0),
            Mutn::ZeroExtend(n) => m.resize(img.len() + n, 0),
            Mutn::OnesExtend(n) => m.resize(img.len() + n, 0xff),
            Mutn::DupHeader(h) => {
                let hd = img[..(*h).min(img.len())].to_vec();
                m.splice(hd.len()..hd.len(), hd.clone());
            }
            Mutn::Foreign(h) => (0..h.len().min(img.len())).for_each(|i| m[i] = h[i]),
        }
        m
    }
    fn to_json(&self) -> Value {
        match self {
            Mutn::Trunc(l) => json!({"k": "truncate", "len": l}),
            Mutn::Flip(p, b) => json!({"k": "bitflip", "pos": p, "bit": b}),
            Mutn::Garbage(p, g) => json!({"k": "garbage", "pos": p, "bytes": hex(g)}),
            Mutn::Zero(p, n) => json!({"k": "zero-fill", "pos": p, "n": n}),
            Mutn::ZeroExtend(n) => json!({"k": "zero-extend", "n": n}),
            Mutn::OnesExtend(n) => json!({"k": "ones-extend", "n": n}),
            Mutn::DupHeader(h) => json!({"k": "dup-header", "n": h}),
            Mutn::Foreign(h) => json!({"k": "foreign-header", "bytes": hex(h)}),
        }
    }
    fn from_json(v: &Value) -> Mutn {
        let u = |k: &str| v[k].as_u64().unwrap_or(0) as usize;
        match v["k"].as_str().unwrap_or("") {
            "truncate" => Mutn::Trunc(u("len")),
            "bitflip" => Mutn::Flip(u("pos"), u("bit") as u8),
            "garbage" => Mutn::Garbage(u("pos"), unhex(v["bytes"].as_str().unwrap_or(""))),
            "zero-fill" => Mutn::Zero(u("pos"), u("n")),
            "zero-extend" => Mutn::ZeroExtend(u("n")),
            "ones-extend" => Mutn::OnesExtend(u("n")),
            "dup-header" => Mutn::DupHeader(u("n")),
            _ => Mutn::Foreign(unhex(v["bytes"].as_str().unwrap_or(""))),
        }
    }
}

/// first byte offset at which the mutant differs from the original (== where the damage starts)
fn first_diff(a: &[u8], b: &[u8]) -> usize {
    (0..a.len().min(b.len())).find(|&i| a[i] != b[i]).unwrap_or(a.len().min(b.len()))
}

/// Named byte ranges of an image, derived from the *original* image by an independent walk.
struct Regions(Vec<(usize, usize, String)>);
impl Regions {
    fn of(&self, pos: usize) -> &str {
        self.0.iter().find(|r| r.0 <= pos && pos < r.1).map(|r| r.2.as_str()).unwrap_or("eof")
    }
    fn fixed(base: usize, f: &[(&str, usize)], out: &mut Vec<(usize, usize, String)>) -> usize {
        let mut o = base;
        for (n, l) in f {
            out.push((o, o + l, n.to_string()));
            o += l;
        }
        o
    }
    fn le32(img: &[u8], o: usize) -> usize {
        if o + 4 <= img.len() {
            u32::from_le_bytes([img[o], img[o + 1], img[o + 2], img[o + 3]]) as usize
        } else {
            0
        }
    }
    /// WAL file: header(16) then entries len|stamp|crc|data; also returns the entry (start,end) list
    fn wal(img: &[u8]) -> (Regions, Vec<(usize, usize)>) {
        let mut v = vec![];
        let mut o = Self::fixed(0, &[("file.magic", 4), ("file.version", 1), ("file.flags", 1), ("file.reserved", 2), ("file.sequence", 8)], &mut v);
        let mut ents = vec![];
        while o + 16 <= img.len() && o + 16 + Self::le32(img, o) <= img.len() {
            let l = Self::le32(img, o);
            let e = Self::fixed(o, &[("entry.len", 4), ("entry.stamp", 8), ("entry.crc", 4), ("entry.payload", l)], &mut v);
            ents.push((o, e));
            o = e;
        }
        (Regions(v), ents)
    }
    fn segment(img: &[u8]) -> Regions {
        let mut v = vec![];
        let h = [("hdr.magic", 4), ("hdr.version", 1), ("hdr.flags", 1), ("hdr.record_count", 4), ("hdr.min_ts", 8), ("hdr.max_ts", 8), ("hdr.crc", 4), ("hdr.padding", 10)];
        let mut o = Self::fixed(0, &h, &mut v);
        let end = img.len().saturating_sub(24);
        while o + 4 <= end && o + 4 + Self::le32(img, o) <= end {
            o = Self::fixed(o, &[("rec.len", 4), ("rec.payload", Self::le32(img, o))], &mut v);
        }
        Self::fixed(end, &[("ftr.data_crc", 4), ("ftr.uncompressed_size", 8), ("ftr.compressed_size", 8), ("ftr.magic", 4)], &mut v);
        Regions(v)
    }
    fn checkpoint(img: &[u8]) -> Regions {
        let mut v = vec![];
        let h = [
            ("hdr.magic", 4), ("hdr.version", 1), ("hdr.flags", 1), ("hdr.padding", 2), ("hdr.key_count", 8), ("hdr.timestamp_ms", 8),
            ("hdr.last_segment_id", 8), ("hdr.reserved", 12), ("hdr.crc", 4), ("data.len", 4),
        ];
        let o = Self::fixed(0, &h, &mut v);
        let o = Self::fixed(o, &[("data.payload", Self::le32(img, 48)), ("ftr.data_crc", 4), ("ftr.data_size", 8), ("ftr.crc", 4)], &mut v);
        v.push((o, usize::MAX, "trailing".into()));
        Regions(v)
    }
}

/// The mutants applied to one image. `exhaustive`: every truncation length and every single-bit flip;
/// otherwise every bit / length inside structural (non-payload) regions plus sampled payload positions.
fn mutants(img: &[u8], reg: &Regions, exhaustive: bool, rng: &mut Rng, extra: bool) -> Vec<Mutn> {
    let mut out = vec![];
    let structural = |p: usize| !reg.of(p).ends_with("payload");
    for p in 0..img.len() {
        let edge = p + 2 > img.len() || structural(p) || (p > 0 && structural(p - 1)) || structural(p + 1);
        if exhaustive || edge || rng.gen_ratio(1, 24) {
            out.push(Mutn::Trunc(p));
        }
        if exhaustive || structural(p) {
            (0..8).for_each(|b| out.push(Mutn::Flip(p, b)));
        } else if edge || rng.gen_ratio(1, 12) {
            out.push(Mutn::Flip(p, rng.gen_range(0..8)));
        }
    }
    if img.is_empty() {
        return out;
    }
    for _ in 0..if exhaustive { 8 } else { 24 } {
        let p = rng.gen_range(0..img.len());
        let mut g: Vec<u8> = (0..rng.gen_range(1..24)).map(|_| rng.gen()).collect();
        g[0] = img[p] ^ (1 + rng.gen_range(0..255u8));
        out.push(Mutn::Garbage(p, g));
        out.push(Mutn::Zero(rng.gen_range(0..img.len()), [1, 4, 16, 64, 1 << 20][rng.gen_range(0..5)]));
    }
    // CRC-32 has a fixed point: the 4-byte payload ff ff ff ff checks against the checksum ff ff ff ff. An all-ones
    // fill over an entry whose (intact) length field says 4 therefore "validates" by construction. No entry the server
    // writes is 4 bytes long (an entry is a serialized delta), so the all-ones mutants are left out of images that
    // hold a 4-byte payload instead of reporting that coincidence.
    let ones = !reg.0.iter().any(|r| r.2.ends_with("payload") && r.1 - r.0 == 4);
    // every field overwritten by garbage / zeros exactly, and zero-fill from every field boundary to the end
    for r in reg.0.iter().filter(|r| r.1 <= img.len() && r.1 > r.0) {
        if r.1 - r.0 <= 64 {
            let mut g: Vec<u8> = (r.0..r.1).map(|_| rng.gen()).collect();
            g[0] = img[r.0] ^ (1 + rng.gen_range(0..255u8));
            out.push(Mutn::Garbage(r.0, g));
            out.push(Mutn::Zero(r.0, r.1 - r.0));
            // the field set to all ones (the largest value a length / count / offset can take)
            if ones {
                out.push(Mutn::Garbage(r.0, vec![0xff; r.1 - r.0]));
            }
        }
        out.push(Mutn::Zero(r.0, 1 << 20));
        // 0xFF-fill from the field boundary to the end of the image
        if ones {
            out.push(Mutn::Garbage(r.0, vec![0xff; (img.len() - r.0).min(4096)]));
        }
    }
    if extra {
        // zero-filled extension of the file (allocated but never written blocks), duplicated header
        [1usize, 15, 16, 17, 48, 333].iter().for_each(|&n| out.push(Mutn::ZeroExtend(n)));
        [4usize, 16, 17, 64, 333].iter().for_each(|&n| out.push(Mutn::OnesExtend(n)));
        out.push(Mutn::DupHeader(16));
    }
    out
}

// ---------------------------------------------------------------------------------------------
// C10: worlds of WAL files written by the real WalRotator / WalWriter
// ---------------------------------------------------------------------------------------------
type Ent = (u64, Vec<u8>);

/// One writer session: a fresh `WalRotator` over the shared store appends `entries` (rotating when a
/// file reaches `max`); `header_only` writes a file that holds just its header (rotated, never appended to).
#[derive(Clone, Debug)]
struct Session {
    max: usize,
    header_only: bool,
    entries: Vec<Ent>,
}

struct World {
    store: InMemoryWalStore,
    rot: Option<WalRotator<InMemoryWalStore>>, // the rotator that still has its file open (if any)
    truth: BTreeMap<u64, Vec<Ent>>,            // file sequence -> entries in append order
}

fn wal_name(seq: u64) -> String {
    format!("wal-{:08x}.wal", seq)
}

/// An entry with arbitrary payload bytes. There is no public constructor for that (only `from_delta`), so the
/// checksum is chosen among the plausible coverages as the one the code under test itself accepts (`validate()`).
fn mk_entry(ts: u64, data: &[u8]) -> WalEntry {
    let cat = |parts: &[&[u8]]| crc32fast::hash(&parts.concat());
    let (l, t) = ((data.len() as u32).to_le_bytes(), ts.to_le_bytes());
    let cands = [cat(&[data]), cat(&[&l, &t, data]), cat(&[&t, data]), cat(&[&t, &l, data])];
    let mk = |c: u32| WalEntry { data: data.to_vec(), timestamp: ts, checksum: c };
    cands.iter().map(|&c| mk(c)).find(|e| e.validate()).unwrap_or(mk(cands[0]))
}

/// The life of ONE rotator: appends (small files, so it rotates), syncs and truncate_before(T) calls interleaved, as under the
/// WAL actor, which truncates again and again while it keeps writing. After every truncation: the file being written is still
/// there, every entry stamped later than T that was recoverable before the call still is, and recovery returns nothing that
/// was not appended. Stamps are monotone, shuffled or drawn from interleaved clocks.
fn rotator_life(rep: &mut Report, rng: &mut Rng) {
    let store = InMemoryWalStore::new();
    let max = [40usize, 90, 200, 4096][rng.gen_range(0..4)];
    let Ok(mut rot) = WalRotator::new(store.clone(), max) else { return };
    let mode = rng.gen_range(0..3);
    let mut clock = 1u64;
    let mut appended: Vec<(u64, Vec<u8>)> = vec![];
    let mut script: Vec<Value> = vec![];
    let steps = rng.gen_range(8..50);
    rep.evaluations += 1;
    rep.count("rotator-life:cases");
    for step in 0..steps {
        match rng.gen_range(0..10) {
            0..=5 => {
                let ts = match mode {
                    0 => { clock += rng.gen_range(1..4); clock }
                    1 => { clock += 1; if rng.gen_bool(0.3) { clock.saturating_sub(rng.gen_range(0..6)).max(1) } else { clock } }
                    _ => { clock += 1; (clock / 3) * [1u64, 5, 11][(clock % 3) as usize] + 1 }
                };
                let data: Vec<u8> = (0..rng.gen_range(1..30)).map(|_| rng.gen()).chain([step as u8]).collect();
                let e = mk_entry(ts, &data);
                if guard(|| rot.append(&e).map_err(|x| x.to_string())).map(|r| r.is_ok()).unwrap_or(false) {
                    appended.push((ts, data.clone()));
                    script.push(json!({"append": ts}));
                }
            }
            6 => {
                let _ = guard(|| rot.sync().map_err(|x| x.to_string()));
                script.push(json!("sync"));
            }
            _ => {
                let stamps: Vec<u64> = appended.iter().map(|e| e.0).collect();
                let t = if stamps.is_empty() { 0 } else { let base = stamps[rng.gen_range(0..stamps.len())]; [base.saturating_sub(1), base, base + 1][rng.gen_range(0..3)] };
                let before: Vec<Ent> = match guard(|| rot.recover_all_entries().map_err(|x| x.to_string())) { Ok(Ok(v)) => v.into_iter().map(|e| (e.timestamp, e.data)).collect(), _ => continue };
                let active = wal_name(rot.current_sequence());
                let had_active = store.get_file_data(&active).is_some();
                script.push(json!({"truncate_before": t}));
                rep.count("rotator-life:truncations");
                let wit = json!({"case": "rotator-life", "max_file_size": max, "stamp_mode": mode, "script": script});
                match guard(|| rot.truncate_before(t).map_err(|x| x.to_string())) {
                    Err(p) => return rep.violation(format!("C10|truncate_before|panic:{}|same-rotator-again", panic_class(&p)), p, wit),
                    Ok(Err(_)) => continue,
                    Ok(Ok(n)) => {
                        if n > 0 {
                            rep.count("rotator-life:truncations-that-deleted");
                        }
                    }
                }
                if had_active && store.get_file_data(&active).is_none() {
                    return rep.violation("C10|truncate_before|active-file-removed|same-rotator-again".to_string(), format!("{} gone after truncate_before({})", active, t), wit);
                }
                let after: Vec<Ent> = match guard(|| rot.recover_all_entries().map_err(|x| x.to_string())) { Ok(Ok(v)) => v.into_iter().map(|e| (e.timestamp, e.data)).collect(), _ => vec![] };
                if let Some(lost) = before.iter().find(|e| e.0 > t && !after.contains(e)) {
                    return rep.violation("C10|truncate_before|newer-entry-lost|same-rotator-truncated-again-after-more-appends".to_string(), format!("entry stamped {} > T = {} was recoverable before truncate_before and is not afterwards", lost.0, t), wit);
                }
                if let Some(alien) = after.iter().find(|e| !appended.contains(e)) {
                    return rep.violation("C10|recover_all_entries|entry-never-appended|same-rotator-again".to_string(), format!("entry stamped {} was never appended", alien.0), wit);
                }
            }
        }
    }
}

fn build(spec: &[Session]) -> Result<World, String> {
    let store = InMemoryWalStore::new();
    let mut truth: BTreeMap<u64, Vec<Ent>> = BTreeMap::new();
    let mut rot = None;
    for s in spec {
        let mut r = WalRotator::new(store.clone(), s.max.max(17)).map_err(|e| e.to_string())?;
        rot = None;
        if s.header_only {
            let seq = r.current_sequence() + 1;
            WalWriter::new(store.create(&wal_name(seq)).map_err(|e| e.to_string())?, seq).map_err(|e| e.to_string())?;
            truth.insert(seq, vec![]);
            continue;
        }
        for (ts, data) in &s.entries {
            let e = mk_entry(*ts, data);
            let seq = r.append(&e).map_err(|e| e.to_string())?;
            truth.entry(seq).or_default().push((*ts, data.clone()));
        }
        if !s.entries.is_empty() {
            rot = Some(r);
        }
    }
    for seq in truth.keys() {
        if store.get_file_data(&wal_name(*seq)).is_none() {
            return Err(format!("harness: expected file {} not in store", wal_name(*seq)));
        }
    }
    Ok(World { store, rot, truth })
}

fn spec_json(spec: &[Session]) -> Value {
    json!(spec
        .iter()
        .map(|s| json!({"max": s.max, "header_only": s.header_only, "entries": s.entries.iter().map(|e| json!([e.0, hex(&e.1)])).collect::<Vec<_>>()}))
        .collect::<Vec<_>>())
}
fn spec_from(v: &Value) -> Vec<Session> {
    let arr = |v: &Value| v.as_array().cloned().unwrap_or_default();
    arr(v)
        .iter()
        .map(|s| Session {
            max: s["max"].as_u64().unwrap_or(1 << 20) as usize,
            header_only: s["header_only"].as_bool().unwrap_or(false),
            entries: arr(&s["entries"]).iter().map(|e| (e[0].as_u64().unwrap_or(0), unhex(e[1].as_str().unwrap_or("")))).collect(),
        })
        .collect()
}

const PATTERNS: [&str; 5] = ["monotone", "shuffled", "16-clocks", "ties", "extremes"];

fn gen_stamps(rng: &mut Rng, n: usize, pattern: usize) -> Vec<u64> {
    let mut t = rng.gen_range(0..1000u64);
    let mut mono: Vec<u64> = (0..n)
        .map(|_| {
            t += rng.gen_range(0..5);
            t
        })
        .collect();
    match pattern {
        0 => mono,
        1 => {
            mono.shuffle(rng);
            mono
        }
        2 => {
            let mut clocks: Vec<u64> = (0..16).map(|_| rng.gen_range(0..40)).collect();
            (0..n)
                .map(|_| {
                    let c = rng.gen_range(0..16);
                    clocks[c] += rng.gen_range(1..4);
                    clocks[c]
                })
                .collect()
        }
        3 => (0..n).map(|_| 500 + rng.gen_range(0..2u64)).collect(),
        _ => (0..n).map(|_| [0, 1, 2, u64::MAX, u64::MAX - 1, 1 << 63, 77][rng.gen_range(0..7)]).collect(),
    }
}

fn gen_raw(rng: &mut Rng, small: bool) -> Vec<u8> {
    // payloads are never empty: the server only appends serialized deltas (>= 1 byte), and the
    // reader treats an empty entry as a zero-filled region
    let len = match rng.gen_range(0..10) {
        0 => 1,
        1..=4 => rng.gen_range(1..8),
        5..=7 => rng.gen_range(8..if small { 24 } else { 64 }),
        _ => {
            if small {
                rng.gen_range(1..24)
            } else {
                rng.gen_range(64..=300)
            }
        }
    };
    match rng.gen_range(0..6) {
        0 => vec![0u8; len],
        1 => vec![0xffu8; len],
        // a payload that itself contains a complete, valid encoded entry / a file header (tempts re-synchronising readers)
        2 => {
            let inner: Vec<u8> = (0..rng.gen_range(0..6)).map(|_| rng.gen()).collect();
            let mut v = mk_entry(rng.gen_range(0..9999), &inner).encode();
            v.extend((0..len / 4).map(|_| rng.gen::<u8>()));
            v
        }
        3 => b"RWAL\x01\0\0\0\x01\0\0\0\0\0\0\0".iter().cloned().chain((0..len).map(|_| 0u8)).collect(),
        _ => (0..len).map(|_| rng.gen()).collect(),
    }
}

/// Delta payloads for C10 use values whose bincode image is unique (no multi-entry hash maps), so that
/// `recover_entries_after` (which returns deltas) can be compared byte-wise after re-serialising.
fn gen_spec(rng: &mut Rng, small: bool, deltas: bool) -> (Vec<Session>, usize) {
    let pattern = rng.gen_range(0..PATTERNS.len());
    let (fmax, emax) = if small { (3, 4) } else { (5, 12) };
    let mut spec = vec![];
    if rng.gen_ratio(1, 3) {
        // natural rotation: one session, small max_file_size
        let n = rng.gen_range(1..=if small { 6 } else { 30 });
        spec.push(Session { max: rng.gen_range(17..if small { 120 } else { 900 }), header_only: false, entries: vec![(0, vec![]); n] });
    } else {
        for _ in 0..rng.gen_range(1..=fmax) {
            let n = if rng.gen_ratio(1, 6) { 0 } else { rng.gen_range(1..=emax) };
            spec.push(Session { max: 1 << 24, header_only: n == 0, entries: vec![(0, vec![]); n] });
        }
    }
    let total: usize = spec.iter().map(|s| s.entries.len()).sum();
    let mut stamps = gen_stamps(rng, total, pattern).into_iter();
    for s in spec.iter_mut() {
        for e in s.entries.iter_mut() {
            let ts = stamps.next().unwrap_or(0);
            let data = if deltas {
                let kind = [0usize, 0, 1, 2, 3][rng.gen_range(0..5)];
                let d = ReplicationDelta::new(g_key(rng), g_value(rng, kind, false, true), g_rid(rng));
                WalEntry::from_delta(&d, ts).map(|e| e.data).unwrap_or_default()
            } else {
                gen_raw(rng, small)
            };
            *e = (ts, data);
        }
    }
    (spec, pattern)
}

/// Hand-made corners, run in every (shard 0) run: empty payloads, stamp 0 / 1 / MAX, all-zero payloads, a payload
/// that drives CRC-32 to its zero state (ff ff ff ff) followed by zero bytes, header look-alikes, a header-only file.
fn corner_spec() -> Vec<Session> {
    let e = |ts: u64, d: &[u8]| (ts, d.to_vec());
    let embedded = mk_entry(3, b"xy").encode();
    vec![
        Session { max: 1 << 24, header_only: false, entries: vec![e(1, b"\0"), e(500, &[0xff; 4]), e(500, b"\0"), e(2, &[0; 16]), e(0, b"\0"), e(u64::MAX, b"RWAL\x01\0\0\0")] },
        Session { max: 1 << 24, header_only: true, entries: vec![] },
        Session { max: 40, header_only: false, entries: vec![e(7, &[0xff; 4]), e(7, &[0, 0]), e(8, &embedded), e(8, b"\0")] },
    ]
}

fn item(e: &Ent, with_ts: bool) -> Vec<u8> {
    let mut v = if with_ts { e.0.to_le_bytes().to_vec() } else { vec![] };
    v.extend_from_slice(&e.1);
    v
}

/// Prefix / subset / order oracle. `got` must be `pre ++ (prefix of mid, at least kmin long) ++ post`.
fn judge(pre: &[Vec<u8>], mid: &[Vec<u8>], post: &[Vec<u8>], kmin: usize, got: &[Vec<u8>], with_ts: bool, zeroing: bool) -> Result<usize, (&'static str, String)> {
    let np = pre.len() + post.len();
    if got.len() < np || got[..pre.len()] != pre[..] || got[got.len() - post.len()..] != post[..] {
        return Err(("entries-of-undamaged-files-missing-or-altered", format!("{} entries returned, undamaged files hold {}", got.len(), np)));
    }
    let m = &got[pre.len()..got.len() - post.len()];
    for (i, g) in m.iter().enumerate() {
        if mid.get(i) == Some(g) {
            continue;
        }
        let same = |a: &[u8], b: &[u8], r: fn(&[u8]) -> &[u8]| with_ts && a.len() >= 8 && b.len() >= 8 && r(a) == r(b);
        let zitem = with_ts && g.len() == 8 && g.iter().all(|b| *b == 0); // (stamp 0, no data) == 16 zero bytes on disk
        let t = match mid.get(i) {
            Some(t) if same(g, t, |x| &x[8..]) && !(zeroing && zitem) => return Err(("altered-stamp", format!("entry #{} of the damaged file: stamp {} expected {}", i, hex(&g[..8]), hex(&t[..8])))),
            _ if zitem => {
                return Err(("zero-region-read-as-entry", format!("entry #{} of the damaged file is (stamp 0, empty data): 16 zero bytes pass the checksum (crc32(\"\") == 0)", i)))
            }
            None => return Err(("phantom-entry-after-last-appended", format!("entry #{} of the damaged file was never appended ({} bytes: {})", i, g.len(), hex(&g[..g.len().min(24)])))),
            Some(t) => t,
        };
        let d = match mid.iter().position(|x| x == g) {
            Some(j) if j > i => "entry-skipped-recovery-continued",
            Some(_) => "entry-repeated-or-reordered",
            None if same(g, t, |x| &x[..8]) => "altered-data",
            None => "unexpected-entry",
        };
        return Err((d, format!("entry #{} of the damaged file: got {} expected {}", i, hex(&g[..g.len().min(40)]), hex(&t[..t.len().min(40)]))));
    }
    if m.len() < kmin {
        return Err(("intact-entry-before-damage-missing", format!("{} entries lie wholly before the damage, {} returned", kmin, m.len())));
    }
    Ok(m.len())
}

struct LayoutCtx<'a> {
    spec: &'a [Session],
    world: &'a World,
    deltas: bool,
    class: (usize, usize, usize, bool), // files, entries, stamp pattern, small
}

/// One mutant of one file: mutate, recover with a *fresh* rotator (a restart), judge, restore.
fn check_mutant(rep: &mut Report, cx: &LayoutCtx, fseq: u64, mu: &Mutn) {
    let name = wal_name(fseq);
    let img = cx.world.store.get_file_data(&name).expect("file present");
    let (reg, ents) = Regions::wal(&img);
    let m = mu.apply(&img);
    if m == img {
        rep.count("mutant:no-op");
        return;
    }
    rep.evaluations += 1;
    let dmg = first_diff(&img, &m);
    let region = reg.of(dmg).to_string();
    let truth = &cx.world.truth;
    let n_f = truth[&fseq].len();
    let kmin = if dmg < 16 { 0 } else { ents.iter().filter(|e| e.1 <= dmg).count() };
    let idx = ents.iter().position(|e| e.0 <= dmg && dmg < e.1);
    let posclass = match idx {
        _ if dmg < 16 => "file-header",
        None => "at-eof",
        Some(0) if n_f == 1 => "only-entry",
        Some(0) => "first-entry",
        Some(i) if i + 1 == n_f => "last-entry",
        _ => "middle-entry",
    };
    rep.count(&format!("mut:{}", mu.kind()));
    rep.count(&format!("region:{}", region));
    rep.distinct(&(region.as_str(), mu.kind(), posclass, cx.class));
    cx.world.store.set_file_data(&name, m);
    let wit = |extra: Value| json!({"case": "mutant", "spec": spec_json(cx.spec), "file": fseq, "mut": mu.to_json(), "extra": extra});
    let thresholds: Vec<Option<u64>> = if cx.deltas {
        let mut all: Vec<u64> = truth.values().flatten().map(|e| e.0).collect();
        all.sort();
        vec![None, Some(0), Some(all.get(all.len() / 2).cloned().unwrap_or(1)), Some(all.last().cloned().unwrap_or(1))]
    } else {
        vec![None]
    };
    for th in thresholds {
        let site = if th.is_some() { "recover_entries_after" } else { "recover_all_entries" };
        let keep = |e: &&Ent| th.map_or(true, |t| e.0 >= t);
        let side = |r: &mut dyn Iterator<Item = (&u64, &Vec<Ent>)>| r.flat_map(|(_, v)| v.iter()).filter(keep).map(|e| item(e, th.is_none())).collect::<Vec<_>>();
        let pre = side(&mut truth.range(..fseq));
        let post = side(&mut truth.range(fseq + 1..));
        let mid: Vec<Vec<u8>> = truth[&fseq].iter().filter(keep).map(|e| item(e, th.is_none())).collect();
        let kmin_t = truth[&fseq][..kmin.min(n_f)].iter().filter(keep).count();
        let got = guard(|| {
            let r = WalRotator::new(cx.world.store.clone(), 1 << 20).map_err(|e| e.to_string())?;
            match th {
                None => r.recover_all_entries().map(|v| v.iter().map(|e| (e.validate(), item(&(e.timestamp, e.data.clone()), true))).collect::<Vec<_>>()),
                Some(t) => r.recover_entries_after(t).map(|v| v.iter().map(|d| (true, bincode::serialize(d).unwrap_or_default())).collect()),
            }
            .map_err(|e| e.to_string())
        });
        // the signature names site, divergence, damaged field and damage kind; divergences that stem from a
        // whole zeroed region (wherever it starts) or from the stamp filter are not split any further
        let sig = |d: &str| match d {
            "zero-region-read-as-entry" | "error-hides-intact-entries" => format!("C10|{}|{}|{}", site, d, mu.kind()),
            "altered-stamp" => format!("C10|{}|{}|entry.stamp|{}", site, d, mu.kind()), // damage may start before the stamp
            _ if th.is_some() && region == "entry.stamp" => format!("C10|{}|filtered-by-altered-stamp|{}|{}", site, region, mu.kind()),
            _ => format!("C10|{}|{}|{}|{}", site, d, region, mu.kind()),
        };
        match got {
            Err(p) => rep.violation(sig(&format!("panic:{}", panic_class(&p))), p, wit(json!({"after": th}))),
            Ok(Err(e)) => {
                rep.count(&format!("{}:error", site));
                if !(pre.is_empty() && post.is_empty() && kmin_t == 0) {
                    rep.violation(sig("error-hides-intact-entries"), format!("{} intact entries hidden by: {}", pre.len() + post.len() + kmin_t, e), wit(json!({"after": th})));
                }
            }
            Ok(Ok(v)) => {
                if v.iter().any(|x| !x.0) {
                    rep.violation(sig("entry-with-bad-checksum-returned"), "WalEntry::validate() is false on a recovered entry", wit(json!({"after": th})));
                }
                let got: Vec<Vec<u8>> = v.into_iter().map(|x| x.1).collect();
                match judge(&pre, &mid, &post, kmin_t, &got, th.is_none(), mu.kind().starts_with("zero")) {
                    Err((d, detail)) => rep.violation(sig(d), detail, wit(json!({"after": th}))),
                    Ok(k) if th.is_none() => rep.count(if k == n_f { "outcome:all-entries-recovered" } else if k == 0 { "outcome:none-of-file" } else { "outcome:proper-prefix" }),
                    // with a threshold the filter hides a stepped-over entry from the prefix test above: damage that the entry
                    // checksum covers (payload, checksum field) ends recovery of the file at that entry, whatever its stamp, so
                    // no more than the kept entries in front of it may come back
                    Ok(k) if matches!(region.as_str(), "entry.payload" | "entry.crc") && idx.map_or(false, |i| k > truth[&fseq][..i].iter().filter(keep).count()) => {
                        let i = idx.unwrap_or(0);
                        rep.violation(
                            sig("entry-skipped-recovery-continued"),
                            format!("entry #{} of the file is damaged ({}), {} of the file's entries at or above the threshold lie in front of it, {} were returned", i, region, truth[&fseq][..i].iter().filter(keep).count(), k),
                            wit(json!({"after": th})),
                        )
                    }
                    Ok(_) => rep.count("recover_entries_after:ok"),
                }
            }
        }
    }
    cx.world.store.set_file_data(&name, img);
}

/// truncate_before(T) on a freshly built world. `torn`: cut a file at a length first.
fn trunc_case(rep: &mut Report, spec: &[Session], t: u64, open: bool, torn: Option<(u64, usize)>, class: (usize, usize, usize, bool)) {
    trunc_case_f(rep, spec, t, open, torn, class, None)
}

/// `foreign`: a file that is not a WAL file lies in the directory (lock file, editor / backup copy, temp file): it must not
/// change which file counts as the active one nor what is deleted.
fn trunc_case_f(rep: &mut Report, spec: &[Session], t: u64, open: bool, torn: Option<(u64, usize)>, class: (usize, usize, usize, bool), foreign: Option<&str>) {
    let Ok(mut w) = build(spec) else { return };
    if let Some(fname) = foreign {
        let newest = w.store.list().unwrap_or_default().into_iter().filter(|n| n.starts_with("wal-")).max();
        let content = if fname.ends_with(".bak") { newest.as_ref().and_then(|n| w.store.get_file_data(n)).unwrap_or_default() } else { b"pid 4711\n".to_vec() };
        let fname = if fname.ends_with(".bak") { format!("{}.bak", newest.clone().unwrap_or_else(|| "wal-00000001.wal".into())) } else { fname.to_string() };
        if let Ok(mut wr) = w.store.create(&fname) {
            use redis_sim::streaming::wal_store::WalFileWriter as _;
            let _ = wr.append(&content);
            let _ = wr.sync();
        }
        rep.count("trunc:with-foreign-file");
    }
    if let Some((seq, len)) = torn {
        w.store.truncate_file(&wal_name(seq), len);
    }
    let active = if open { w.rot.as_ref().map(|r| wal_name(r.current_sequence())) } else { None };
    let mut rot = match (open, w.rot.take()) {
        (true, Some(r)) => r,
        _ => WalRotator::new(w.store.clone(), 1 << 20).expect("rotator"),
    };
    rep.evaluations += 1;
    let wit = json!({"case": "truncate", "spec": spec_json(spec), "T": t, "open": open, "torn": torn.map(|x| json!([x.0, x.1])), "foreign": foreign});
    let read = |name: &str| -> Option<Vec<Ent>> {
        let r = WalReader::open(w.store.open_read(name).ok()?).ok()?;
        Some(r.entries().into_iter().map(|e| (e.timestamp, e.data)).collect())
    };
    // WAL files are exactly the names wal-<hex>.wal; anything else in the directory is none of the WAL's business
    let is_wal = |n: &str| n.strip_prefix("wal-").and_then(|x| x.strip_suffix(".wal")).map_or(false, |h| u64::from_str_radix(h, 16).is_ok());
    let n_foreign_before = w.store.list().unwrap_or_default().iter().filter(|n| !is_wal(n)).count();
    let names: Vec<String> = w.store.list().unwrap_or_default().into_iter().filter(|n| is_wal(n)).collect();
    let before: BTreeMap<String, Option<Vec<Ent>>> = names.iter().map(|n| (n.clone(), read(n))).collect();
    let active_img = active.as_ref().and_then(|a| w.store.get_file_data(a));
    let res = guard(|| rot.truncate_before(t).map_err(|e| e.to_string()));
    let oc = match (active.is_some(), foreign.is_some()) {
        (true, false) => "open-writer",
        (false, false) => "no-writer",
        (true, true) => "open-writer,foreign-file-in-dir",
        (false, true) => "no-writer,foreign-file-in-dir",
    };
    let n_del = match res {
        Err(p) => return rep.violation(format!("C10|truncate_before|panic:{}|{}", panic_class(&p), oc), p, wit),
        Ok(Err(e)) => return rep.violation(format!("C10|truncate_before|error|{}", oc), e, wit),
        Ok(Ok(n)) => n,
    };
    let after_all: BTreeSet<String> = w.store.list().unwrap_or_default().into_iter().collect();
    // a readable copy with a foreign name may be swept along (it is not part of the WAL; not judged, but counted)
    let foreign_deleted = n_foreign_before - after_all.iter().filter(|n| !is_wal(n)).count().min(n_foreign_before);
    if foreign_deleted > 0 {
        rep.count("trunc:foreign-file-deleted");
    }
    let after: BTreeSet<String> = after_all.into_iter().filter(|n| is_wal(n)).collect();
    let stamps: Vec<u64> = before.values().flatten().flatten().map(|e| e.0).collect();
    let rel = if stamps.iter().all(|&s| s > t) { "T<all" } else if stamps.iter().all(|&s| s <= t) { "T>=all" } else { "T-inside" };
    rep.distinct(&("truncate", class, oc, rel, torn.is_some(), stamps.contains(&t)));
    rep.count(&format!("trunc:{}:{}", oc, rel));
    if let Some(a) = &active {
        let newer = before[a].as_ref().map_or(false, |v| v.iter().any(|e| e.0 > t));
        if !after.contains(a) || w.store.get_file_data(a) != active_img {
            rep.violation(format!("C10|truncate_before|active-file-removed|{}", if newer { "active-has-newer" } else { "active-all<=T" }), format!("{} gone or changed after truncate_before({})", a, t), wit.clone());
        }
        rep.count(if newer { "trunc:active-has-newer" } else { "trunc:active-all<=T(kept?)" });
    }
    let mut deleted = 0;
    for (name, ents) in &before {
        let gone = !after.contains(name);
        deleted += gone as usize;
        let Some(ents) = ents else {
            rep.count("trunc:unreadable-file");
            continue;
        };
        let (newer, older) = (ents.iter().any(|e| e.0 > t), ents.iter().any(|e| e.0 <= t));
        if gone && newer && Some(name) != active.as_ref() {
            let cls = if older { "file-with-older-and-newer" } else { "file-with-only-newer" };
            let e = ents.iter().find(|e| e.0 > t).unwrap();
            rep.violation(format!("C10|truncate_before|newer-entry-lost|{}|{}", cls, oc), format!("{} deleted by truncate_before({}) although it held stamp {}", name, t, e.0), wit.clone());
        }
        if Some(name) != active.as_ref() {
            rep.count(match (newer, gone) {
                (true, false) => "trunc:newer-kept",
                (true, true) => "trunc:newer-deleted(!)",
                (false, true) => "trunc:eligible-deleted",
                (false, false) => "trunc:eligible-kept(space-only)",
            });
        }
    }
    if n_del != deleted + foreign_deleted || after.iter().any(|n| !before.contains_key(n)) {
        rep.violation(format!("C10|truncate_before|deleted-count-mismatch|{}", oc), format!("returned {} but {} files disappeared", n_del, deleted), wit.clone());
    }
    // whatever survives must still be recoverable, unchanged and in order
    let exp: Vec<Ent> = before.iter().filter(|(n, _)| after.contains(*n)).flat_map(|(_, v)| v.clone().unwrap_or_default()).collect();
    match guard(|| rot.recover_all_entries().map_err(|e| e.to_string())) {
        Ok(Ok(v)) if v.iter().map(|e| (e.timestamp, e.data.clone())).collect::<Vec<_>>() == exp => {}
        other => rep.violation(format!("C10|truncate_before|survivors-not-recoverable|{}", oc), format!("{:?}", other.map(|r| r.map(|v| v.len()))), wit),
    }
}

fn run_layout(rep: &mut Report, spec: &[Session], pattern: usize, small: bool, deltas: bool, rng: &mut Rng, sampled: bool) {
    let world = match build(spec) {
        Ok(w) => w,
        Err(e) => return rep.violation("C10|append|error|valid-layout", e, json!({"case": "build", "spec": spec_json(spec)})),
    };
    let total: usize = world.truth.values().map(|v| v.len()).sum();
    let class = (world.truth.len(), total.min(3) + (total > 12) as usize, pattern, small);
    rep.count(&format!("layout:{}:{}", if small { "small" } else { "large" }, if deltas { "delta-payload" } else { "raw-payload" }));
    rep.count(&format!("stamps:{}", PATTERNS[pattern]));
    rep.max("files", world.truth.len() as u64);
    rep.max("entries", total as u64);
    let cx = LayoutCtx { spec, world: &world, deltas, class };
    // undamaged baseline: everything comes back
    let all: Vec<Vec<u8>> = world.truth.values().flatten().map(|e| item(e, true)).collect();
    match guard(|| WalRotator::new(world.store.clone(), 1 << 20).and_then(|r| r.recover_all_entries()).map_err(|e| e.to_string())) {
        Ok(Ok(v)) if v.iter().map(|e| item(&(e.timestamp, e.data.clone()), true)).collect::<Vec<_>>() == all => {}
        other => rep.violation("C10|recover_all_entries|undamaged-layout-not-recovered", format!("{:?}", other.map(|r| r.map(|v| v.len()))), json!({"case": "build", "spec": spec_json(spec)})),
    }
    let seqs: Vec<u64> = world.truth.keys().cloned().collect();
    for &f in &seqs {
        let img = world.store.get_file_data(&wal_name(f)).unwrap_or_default();
        let (reg, _) = Regions::wal(&img);
        let mut ms = mutants(&img, &reg, small && !sampled, rng, true);
        if let Some(&g) = seqs.iter().find(|&&g| g != f) {
            ms.push(Mutn::Foreign(world.store.get_file_data(&wal_name(g)).unwrap_or_default()[..16].to_vec()));
        }
        for mu in &ms {
            // a panic anywhere in recovery / truncation of a damaged image is itself a violation ("never panics")
            if let Err(pn) = guard(|| check_mutant(rep, &cx, f, mu)) {
                // leave the file intact again for the next mutant
                cx.world.store.set_file_data(&wal_name(f), img.clone());
                rep.violation(
                    format!("C10|panic|while-reading-a-damaged-file|{}|{}", mu.kind(), panic_class(&pn)),
                    pn,
                    json!({"case": "mutant", "spec": spec_json(cx.spec), "file": f, "mut": mu.to_json(), "extra": "panic"}),
                );
            }
        }
    }
    // truncation thresholds: every distinct stamp +-1, 0 and MAX; open / no writer; intact / torn file
    let stamps: BTreeSet<u64> = world.truth.values().flatten().map(|e| e.0).collect();
    let mut ts: BTreeSet<u64> = [0, u64::MAX].into_iter().collect();
    stamps.iter().for_each(|&s| ts.extend([s.saturating_sub(1), s, s.saturating_add(1)]));
    let torn = seqs.choose(rng).map(|&f| (f, rng.gen_range(0..=world.store.get_file_data(&wal_name(f)).map_or(0, |d| d.len()))));
    for &t in &ts {
        for open in [true, false] {
            let torn_too = small || rng.gen_ratio(1, 4);
            for tn in [None, torn].into_iter().take(if torn_too { 2 } else { 1 }) {
                if tn.is_none() && (small || rng.gen_ratio(1, 3)) {
                    let fname = ["wal.lock", "copy.bak", "zz-editor.tmp", "wal-ffffffff.wal~"][rng.gen_range(0..4)];
                    if let Err(pn) = guard(|| trunc_case_f(rep, spec, t, open, None, class, Some(fname))) {
                        rep.violation(format!("C10|panic|truncate_before|foreign-file|{}", panic_class(&pn)), pn, json!({"case": "truncate", "spec": spec_json(spec), "T": t, "open": open, "foreign": fname}));
                    }
                }
                if let Err(pn) = guard(|| trunc_case(rep, spec, t, open, tn, class)) {
                    rep.violation(
                        format!("C10|panic|truncate_before|{}|{}", if tn.is_some() { "torn-file" } else { "intact-files" }, panic_class(&pn)),
                        pn,
                        json!({"case": "truncate", "spec": spec_json(spec), "T": t, "open": open, "torn": tn.map(|(a, b)| vec![a, b as u64])}),
                    );
                }
            }
        }
    }
    if rep.samples.len() < 4 {
        rep.sample(json!({"layout": spec_json(spec), "stamp_pattern": PATTERNS[pattern], "files": seqs.len(), "thresholds": ts.len(), "payload": if deltas {"bincode deltas"} else {"raw bytes"}}));
    }
}

/// One very large entry between small ones (the server accepts values up to 512 MB): recovery must return every
/// appended entry, and truncation must keep the closed file that holds a large entry stamped later than T.
fn giant_case(rep: &mut Report, size: usize) {
    let blob: Vec<u8> = (0..size).map(|i| (i as u32).wrapping_mul(2246822519).to_le_bytes()[2]).collect();
    let e = |ts: u64, d: &[u8]| (ts, d.to_vec());
    // file 1: small, GIANT (stamp 10), small; file 2 (after a fresh rotator): small entries with lower and higher stamps
    let spec = vec![
        Session { max: size + 4096, header_only: false, entries: vec![e(1, b"before"), (10, blob), e(3, b"after-1"), e(4, b"after-2")] },
        Session { max: 1 << 20, header_only: false, entries: vec![e(5, b"next-file"), e(12, b"newest")] },
    ];
    let wit = json!({"case": "giant", "size": size});
    rep.evaluations += 1;
    rep.count("giant_entries");
    rep.max("giant_entry_bytes", size as u64);
    rep.distinct(&("giant", size));
    let world = match build(&spec) {
        Ok(w) => w,
        Err(err) => return rep.violation("C10|append|error|giant-entry", err, wit),
    };
    let all: Vec<Vec<u8>> = world.truth.values().flatten().map(|x| item(x, true)).collect();
    match guard(|| WalRotator::new(world.store.clone(), 1 << 20).and_then(|r| r.recover_all_entries()).map_err(|e| e.to_string())) {
        Ok(Ok(v)) if v.iter().map(|x| item(&(x.timestamp, x.data.clone()), true)).collect::<Vec<_>>() == all => {}
        other => return rep.violation("C10|recover_all_entries|undamaged-layout-not-recovered|giant-entry", format!("{:?} of {} entries", other.map(|r| r.map(|v| v.len())), all.len()), wit),
    }
    // truncate_before(5): file 1 holds the giant stamped 10 > 5 and must survive with all its entries
    let out = guard(|| {
        let mut r = WalRotator::new(world.store.clone(), 1 << 20).map_err(|e| e.to_string())?;
        r.truncate_before(5).map_err(|e| e.to_string())?;
        r.recover_all_entries().map_err(|e| e.to_string())
    });
    match out {
        Ok(Ok(v)) if v.iter().any(|x| x.timestamp == 10 && x.data.len() >= size) && v.iter().any(|x| x.timestamp == 12) => {}
        other => rep.violation("C10|truncate_before|newer-entry-lost|giant-entry", format!("after truncate_before(5): {:?}", other.map(|r| r.map(|v| v.iter().map(|x| x.timestamp).collect::<Vec<_>>()))), wit),
    }
}

pub fn wal_leg(args: &Args) {
    let mut rep = Report::new("C10", "wal");
    if let Some(p) = &args.replay {
        let w = load_witness(p);
        let spec = spec_from(&w["spec"]);
        match w["case"].as_str().unwrap_or("") {
            "giant" => giant_case(&mut rep, w["size"].as_u64().unwrap_or(1 << 20) as usize),
            "truncate" => {
                let torn = w["torn"].as_array().map(|a| (a[0].as_u64().unwrap_or(0), a[1].as_u64().unwrap_or(0) as usize));
                let foreign = w["foreign"].as_str().map(|s| s.to_string());
                trunc_case_f(&mut rep, &spec, w["T"].as_u64().unwrap_or(0), w["open"].as_bool().unwrap_or(false), torn, (0, 0, 0, true), foreign.as_deref());
            }
            "mutant" => {
                let world = build(&spec).expect("replay layout builds");
                let deltas = world.truth.values().flatten().all(|e| bincode::deserialize::<ReplicationDelta>(&e.1).is_ok());
                let cx = LayoutCtx { spec: &spec, world: &world, deltas, class: (0, 0, 0, true) };
                check_mutant(&mut rep, &cx, w["file"].as_u64().unwrap_or(1), &Mutn::from_json(&w["mut"]));
            }
            _ => run_layout(&mut rep, &spec, 0, true, false, &mut rng_from(args.seed, 1), true),
        }
        return rep.finish(args);
    }
    let n = args.get_u64("layouts", if args.thorough() { 1600 } else { 192 });
    for li in (0..n).filter(|li| li % args.shards as u64 == args.shard as u64) {
        let mut rng = rng_from(args.seed, 10_000 + li);
        if li == 0 {
            run_layout(&mut rep, &corner_spec(), 4, true, false, &mut rng, false);
        }
        // size / payload class drawn per layout (not from li's residue: every shard must see every class)
        let (small, deltas) = (rng.gen(), rng.gen());
        let (spec, pattern) = gen_spec(&mut rng, small, deltas);
        run_layout(&mut rep, &spec, pattern, small, deltas, &mut rng, false);
        for _ in 0..40 {
            rotator_life(&mut rep, &mut rng);
        }
    }
    // giants: 1 MiB + 1 and 17 MiB in the quick tier, 70 MiB and 130 MiB in addition in the thorough tier
    let giants: &[usize] = if args.thorough() { &[(1 << 20) + 1, 17 << 20, 70 << 20, 130 << 20] } else { &[(1 << 20) + 1, 17 << 20] };
    for (i, g) in giants.iter().enumerate().filter(|_| args.get_u64("giants", 1) == 1) {
        if i % args.shards == args.shard % giants.len().max(1) || args.shards == 1 {
            giant_case(&mut rep, *g);
        }
    }
    for need in ["mut:truncate", "mut:bitflip", "mut:zero-extend", "region:entry.stamp", "region:entry.payload", "region:file.magic", "outcome:proper-prefix", "trunc:eligible-deleted", "trunc:newer-kept", "trunc:active-all<=T(kept?)", "recover_entries_after:ok"] {
        if !rep.counters.contains_key(need) {
            rep.inconclusive(format!("class never observed: {}", need));
        }
    }
    if let Some(n) = rep.counters.get("trunc:eligible-kept(space-only)").cloned() {
        rep.note(format!("truncate_before kept {} closed files whose readable entries were all <= T (allowed by C10; costs space only)", n));
    }
    rep.note("small layouts: every truncation length and every single-bit flip of every file; large layouts: every bit/length in headers, sampled in payloads");
    rep.finish(args);
}

// ---------------------------------------------------------------------------------------------
// C14: value generators, projection, round trips, mutants through the recovery pipeline
// ---------------------------------------------------------------------------------------------
const RIDS: [u64; 8] = [0, 1, 2, 3, 7, 65537, 1 << 40, u64::MAX];
const KINDS: [&str; 8] = ["lww", "lww-tombstone", "lww-unset", "gcounter", "pncounter", "gset", "orset", "hash"];

fn g_rid(rng: &mut Rng) -> ReplicaId {
    ReplicaId(RIDS[rng.gen_range(0..RIDS.len())])
}
fn g_u64(rng: &mut Rng) -> u64 {
    match rng.gen_range(0..6) {
        0 => 0,
        1 => 1,
        2 => u64::MAX,
        3 => (1 << 53) + 1,
        4 => rng.gen::<u32>() as u64,
        _ => rng.gen(),
    }
}
fn g_clock(rng: &mut Rng) -> LamportClock {
    LamportClock { time: g_u64(rng), replica_id: g_rid(rng) }
}
fn g_blob(rng: &mut Rng, big: bool) -> Vec<u8> {
    match rng.gen_range(0..9) {
        0 => vec![],
        1 => (0..=255u8).collect(),
        2 => vec![0xff, 0xfe, 0xc0, 0x80, 0x00],
        3 => b"\x00\x00\x00\x00GESRRSEGRCHKRWAL".to_vec(),
        4 => vec![b'x'; [22, 23, 24, 25][rng.gen_range(0..4)]], // around the SDS inline limit
        5 if big => (0..65536).map(|_| rng.gen()).collect(),
        _ => (0..rng.gen_range(1..40)).map(|_| rng.gen()).collect(),
    }
}
fn g_key(rng: &mut Rng) -> String {
    match rng.gen_range(0..6) {
        0 => String::new(),
        1 => "\u{0}\"\\\n\r\u{7f}\u{80}\u{ffff}\u{10ffff} k\u{e9}y".to_string(),
        2 => "x".repeat(rng.gen_range(1..300)),
        _ => (0..rng.gen_range(1..12)).map(|_| b"abc:{}019"[rng.gen_range(0..9)] as char).collect(),
    }
}
fn g_lww(rng: &mut Rng, big: bool) -> LwwRegister<SDS> {
    match rng.gen_range(0..5) {
        0 => LwwRegister { value: None, timestamp: g_clock(rng), tombstone: true },
        _ => LwwRegister::with_value(SDS::new(g_blob(rng, big)), g_clock(rng)),
    }
}
fn g_gcounter(rng: &mut Rng, single: bool) -> GCounter {
    let mut g = GCounter::new();
    for _ in 0..if single { 1 } else { rng.gen_range(0..6) } {
        g.increment_by(g_rid(rng), g_u64(rng) >> 8);
    }
    g
}
/// `big`: allow 64 KiB blobs / 200-field hashes; `unique_image`: only values whose bincode image is unique.
fn g_value(rng: &mut Rng, kind: usize, big: bool, unique_image: bool) -> ReplicatedValue {
    let crdt = match kind {
        0 => CrdtValue::Lww(LwwRegister::with_value(SDS::new(g_blob(rng, big)), g_clock(rng))),
        1 => CrdtValue::Lww(LwwRegister { value: None, timestamp: g_clock(rng), tombstone: true }),
        2 => CrdtValue::new_lww(g_rid(rng)),
        3 => CrdtValue::GCounter(g_gcounter(rng, unique_image)),
        4 => {
            let mut p = PNCounter::new();
            for _ in 0..rng.gen_range(0..6) {
                if rng.gen() {
                    p.increment_by(g_rid(rng), g_u64(rng) >> 8)
                } else {
                    p.decrement_by(g_rid(rng), g_u64(rng) >> 8)
                }
            }
            CrdtValue::PNCounter(p)
        }
        5 => {
            let mut s = GSet::new();
            for _ in 0..rng.gen_range(0..8) {
                s.add(g_key(rng));
            }
            CrdtValue::GSet(s)
        }
        6 => {
            let mut s = ORSet::new();
            for _ in 0..rng.gen_range(0..10) {
                let e = ["a", "b", "", "\u{ffff}", "long-element-name"][rng.gen_range(0..5)].to_string();
                if rng.gen_ratio(1, 4) {
                    s.remove(&e);
                } else {
                    s.add(e, g_rid(rng));
                }
            }
            CrdtValue::ORSet(s)
        }
        _ => {
            let n = if big { [0, 1, 2, 17, 200][rng.gen_range(0..5)] } else { rng.gen_range(0..4) };
            let mut h = HashMap::new();
            for i in 0..n {
                h.insert(if i == 1 { g_key(rng) } else { format!("f{}", i) }, g_lww(rng, false));
            }
            CrdtValue::Hash(h)
        }
    };
    let vector_clock = match rng.gen_range(0..if unique_image { 2 } else { 4 }) {
        0 | 1 => None,
        2 => {
            let mut vc = VectorClock::new();
            (0..rng.gen_range(0..9)).for_each(|_| vc.increment(g_rid(rng)));
            Some(vc)
        }
        _ => {
            // arbitrary counters: a VectorClock is its map on the wire
            let m: HashMap<ReplicaId, u64> = (0..rng.gen_range(1..5)).map(|_| (g_rid(rng), g_u64(rng))).collect();
            bincode::deserialize::<VectorClock>(&bincode::serialize(&m).expect("ser")).ok()
        }
    };
    let expiry_ms = if rng.gen() { None } else { Some(g_u64(rng)) };
    let replication_factor = [None, Some(0), Some(3), Some(255)][rng.gen_range(0..4)];
    ReplicatedValue { crdt, vector_clock, expiry_ms, timestamp: g_clock(rng), replication_factor }
}
fn g_delta(rng: &mut Rng, kind: usize, big: bool) -> ReplicationDelta {
    ReplicationDelta::new(g_key(rng), g_value(rng, kind, big, false), g_rid(rng))
}

/// Sort arrays that serialise *sets* (strings, tags); byte strings (arrays of numbers) and delta lists keep their order.
fn canon(v: Value) -> Value {
    match v {
        Value::Array(a) => {
            let mut a: Vec<Value> = a.into_iter().map(canon).collect();
            if !a.is_empty() && a.iter().all(|x| x.is_string() || x.get("sequence").is_some()) {
                a.sort_by_key(|x| x.to_string());
            }
            Value::Array(a)
        }
        Value::Object(o) => Value::Object(o.into_iter().map(|(k, v)| (k, canon(v))).collect()),
        o => o,
    }
}

/// pi(v): what clients / peers can observe through the public accessors, plus every serialised field (canonical).
fn pi(v: &ReplicatedValue) -> Value {
    let lww = |l: &LwwRegister<SDS>| json!({"raw": l.value.as_ref().map(|s| hex(s.as_bytes())), "get": l.get().map(|s| hex(s.as_bytes())), "ts": [l.timestamp.time, l.timestamp.replica_id.0], "tomb": l.tombstone});
    let body = match &v.crdt {
        CrdtValue::Lww(l) => lww(l),
        CrdtValue::GCounter(g) => json!({"total": g.value(), "per": RIDS.iter().map(|r| g.get_replica_count(&ReplicaId(*r))).collect::<Vec<_>>()}),
        CrdtValue::PNCounter(p) => json!({"total": p.value(), "empty": p.is_empty()}),
        CrdtValue::GSet(s) => json!(s.elements().cloned().collect::<BTreeSet<String>>()),
        CrdtValue::ORSet(s) => json!({
            "members": s.elements().map(|e| (e.clone(), s.get_tags(e).map(|t| t.iter().map(|t| (t.replica_id.0, t.sequence)).collect::<BTreeSet<_>>()))).collect::<BTreeMap<_, _>>(),
            // behaviour, not representation: the tag each replica's next add would be given (a decoded set that has
            // forgotten its per-replica counters re-issues tags that were already used and removed)
            "next_tag": RIDS.iter().map(|r| { let mut c = s.clone(); c.add("\u{1}probe".to_string(), ReplicaId(*r)).sequence }).collect::<Vec<_>>(),
        }),
        CrdtValue::Hash(h) => json!(h.iter().map(|(k, l)| (k.clone(), lww(l))).collect::<BTreeMap<_, _>>()),
    };
    json!({"kind": v.crdt_type(), "body": body, "tombstone": v.is_tombstone(), "expiry": v.expiry_ms, "rf": v.replication_factor,
        "ts": [v.timestamp.time, v.timestamp.replica_id.0],
        "vc": v.vector_clock.as_ref().map(|vc| RIDS.iter().map(|r| vc.get(&ReplicaId(*r))).collect::<Vec<_>>()),
        "fields": serde_json::to_value(v).map(canon).unwrap_or(json!("<not serialisable as JSON>"))})
}
fn pi_delta(d: &ReplicationDelta) -> Value {
    json!({"key": d.key, "src": d.source_replica.0, "value": pi(&d.value)})
}

/// The object-store recovery pipeline (manifest -> checkpoint / segment -> open -> validate -> read).
struct ObjPipe {
    rt: tokio::runtime::Runtime,
    store: InMemoryObjectStore,
    rm: RecoveryManager<InMemoryObjectStore>,
    key: String,
}
impl ObjPipe {
    fn new(checkpoint: bool) -> ObjPipe {
        let rt = tokio::runtime::Builder::new_current_thread().build().expect("rt");
        let store = InMemoryObjectStore::new();
        let mut m = Manifest::new(1);
        let key = if checkpoint { "p/checkpoints/chk-1.chk" } else { "p/segments/segment-00000001.seg" }.to_string();
        if checkpoint {
            m.checkpoint = Some(CheckpointInfo { key: key.clone(), timestamp_ms: 1, key_count: 0, last_segment_id: 0 });
        } else {
            m.add_segment(SegmentInfo { id: 1, key: key.clone(), record_count: 0, size_bytes: 0, min_timestamp: 0, max_timestamp: 0 });
        }
        rt.block_on(ManifestManager::new(store.clone(), "p").save(&m)).expect("manifest");
        ObjPipe { rt, rm: RecoveryManager::new(store.clone(), "p", 1), store, key }
    }
    /// Ok(content) | Err(error text); a panic is the outer Err
    fn run(&self, img: &[u8]) -> Result<Result<Value, String>, String> {
        guard(|| {
            self.rt.block_on(async {
                self.store.put(&self.key, img).await.map_err(|e| e.to_string())?;
                let r = self.rm.recover().await.map_err(|e| e.to_string())?;
                let deltas: Vec<Value> = r.deltas.iter().map(pi_delta).collect();
                let state = r.checkpoint_state.map(|s| s.iter().map(|(k, v)| (k.clone(), pi(v))).collect::<BTreeMap<_, _>>());
                let hdr = if state.is_some() {
                    CheckpointReader::open(img).map(|c| json!([c.key_count(), c.timestamp_ms(), c.last_segment_id(), c.is_compressed()])).ok()
                } else {
                    None
                };
                Ok(json!({"deltas": deltas, "state": state, "checkpoint_header": hdr}))
            })
        })
    }
}

/// WAL pipeline on one file image: list of (stamp, delta) as recovered, and what recover_entries_after(0) says.
type Memo = std::cell::RefCell<HashMap<u64, Value>>; // decoded entry by hash of (stamp, payload bytes): decoding is a pure function of them
fn wal_pipe(img: &[u8], memo: &Memo) -> Result<Result<Value, String>, String> {
    guard(|| {
        let store = InMemoryWalStore::new();
        store.create(&wal_name(1)).map_err(|e| e.to_string())?;
        store.set_file_data(&wal_name(1), img.to_vec());
        let r = WalRotator::new(store, 1 << 20).map_err(|e| e.to_string())?;
        let ents = r.recover_all_entries().map_err(|e| e.to_string())?;
        let dec = |e: &WalEntry| json!([e.timestamp, e.to_delta().map(|d| pi_delta(&d)).map_err(|e| e.to_string())]);
        let list: Vec<Value> = ents.iter().map(|e| memo.borrow_mut().entry(h64(&(e.timestamp, &e.data))).or_insert_with(|| dec(e)).clone()).collect();
        if let Ok(ds) = r.recover_entries_after(0) {
            if ds.len() != list.len() {
                return Err(format!("recover_entries_after(0) gave {} deltas, recover_all_entries {}", ds.len(), list.len()));
            }
        }
        Ok(json!(list))
    })
}

fn seg_image(ds: &[ReplicationDelta]) -> Result<Vec<u8>, String> {
    let mut w = SegmentWriter::new(Compression::None);
    for d in ds {
        w.write_delta(d).map_err(|e| e.to_string())?;
    }
    w.finish().map_err(|e| e.to_string())
}
fn wal_image(ds: &[ReplicationDelta]) -> Result<Vec<u8>, String> {
    let store = InMemoryWalStore::new();
    // one file, whatever the batch holds (a 17 MiB update must not make the rotator start a second file that this
    // single-image round trip would not read)
    let mut r = WalRotator::new(store.clone(), 1 << 40).map_err(|e| e.to_string())?;
    for d in ds {
        r.append(&WalEntry::from_delta(d, d.value.timestamp.time).map_err(|e| e.to_string())?).map_err(|e| e.to_string())?;
    }
    r.sync().map_err(|e| e.to_string())?;
    store.get_file_data(&wal_name(1)).ok_or("no wal file".to_string())
}
fn chk_state(ds: &[ReplicationDelta]) -> HashMap<String, ReplicatedValue> {
    ds.iter().enumerate().map(|(i, d)| (format!("{}#{}", d.key, i), d.value.clone())).collect()
}

struct Pipes {
    seg: ObjPipe,
    chk: ObjPipe,
    memo: Memo,
}

/// Round trips of one batch through every encoding. `kind` names the value class for signatures.
fn roundtrip(rep: &mut Report, px: &Pipes, ds: &[ReplicationDelta], kind: &str, wit: &Value) {
    let want: Vec<Value> = ds.iter().map(pi_delta).collect();
    let check = |rep: &mut Report, enc: &str, got: Result<Result<Value, String>, String>, want: Value| {
        rep.count(&format!("roundtrip:{}", enc));
        let sig = |d: &str| format!("C14|roundtrip|{}|{}|{}", enc, d, kind);
        match got {
            Err(p) => rep.violation(sig(&format!("panic:{}", panic_class(&p))), p, wit.clone()),
            Ok(Err(e)) => rep.violation(sig("error"), e, wit.clone()),
            Ok(Ok(g)) if g != want => {
                let (a, b) = (g.to_string(), want.to_string());
                let at = first_diff(a.as_bytes(), b.as_bytes()).saturating_sub(60);
                let cut = |s: &str| s.chars().skip(at).take(200).collect::<String>();
                rep.violation(sig("decoded-differs"), format!("got ...{} want ...{}", cut(&a), cut(&b)), wit.clone())
            }
            _ => {}
        }
    };
    // WAL entry: from_delta -> encode -> decode -> to_delta (one by one), then the whole file through the rotator
    for (d, w) in ds.iter().zip(&want).take(8) {
        let got = guard(|| {
            let e = WalEntry::from_delta(d, d.value.timestamp.time).map_err(|e| e.to_string())?;
            let enc = e.encode();
            let (e2, n) = WalEntry::decode(&enc).ok_or("decode() == None on an intact entry")?;
            if n != enc.len() || e2.timestamp != e.timestamp || !e2.validate() {
                return Err("decode() consumed / stamp / checksum differ".to_string());
            }
            e2.to_delta().map(|d| pi_delta(&d)).map_err(|e| e.to_string())
        });
        check(rep, "wal-entry", got, w.clone());
    }
    let stamped: Vec<Value> = ds.iter().zip(&want).map(|(d, w)| json!([d.value.timestamp.time, Ok::<_, String>(w.clone())])).collect();
    let via = |img: Result<Result<Vec<u8>, String>, String>, f: &dyn Fn(&[u8]) -> Result<Result<Value, String>, String>| match img {
        Ok(Ok(i)) => f(&i),
        Ok(Err(e)) => Ok(Err(format!("write: {}", e))),
        Err(p) => Err(p),
    };
    check(rep, "wal-file", via(guard(|| wal_image(ds)), &|i| wal_pipe(i, &Memo::default())), json!(stamped));
    // segment and checkpoint through RecoveryManager::recover
    check(rep, "segment", via(guard(|| seg_image(ds)), &|i| px.seg.run(i)), json!({"deltas": want, "state": null, "checkpoint_header": null}));
    let state = chk_state(ds);
    let want_state: BTreeMap<String, Value> = state.iter().map(|(k, v)| (k.clone(), pi(v))).collect();
    let (n, tms, last) = (state.len() as u64, ds.len() as u64 * 1000 + 7, ds.len() as u64);
    let img = guard(|| CheckpointWriter::new(Compression::None).write(state, tms, last).map_err(|e| e.to_string()));
    check(rep, "checkpoint", via(img, &|i| px.chk.run(i)), json!({"deltas": [], "state": want_state, "checkpoint_header": [n, tms, last, false]}));
    // gossip JSON: every message shape
    let src = ds.first().map_or(ReplicaId(0), |d| d.source_replica);
    let kv: HashMap<String, u64> = ds.iter().map(|d| (d.key.clone(), d.value.timestamp.time)).collect();
    let msgs = vec![
        GossipMessage::new_delta_batch(src, ds.to_vec(), u64::MAX),
        GossipMessage::new_targeted_delta(src, ReplicaId(u64::MAX), ds.to_vec(), 0),
        GossipMessage::SyncResponse { source_replica: src, deltas: ds.to_vec() },
        GossipMessage::SyncRequest { source_replica: src, known_versions: kv },
        GossipMessage::new_heartbeat(src, ds.len() as u64),
    ];
    for m in msgs {
        let shape = |m: &GossipMessage| -> Value {
            let head = match m {
                GossipMessage::DeltaBatch { source_replica, epoch, .. } => json!(["DeltaBatch", source_replica.0, epoch]),
                GossipMessage::TargetedDelta { source_replica, target_replica, epoch, .. } => json!(["TargetedDelta", source_replica.0, target_replica.0, epoch]),
                GossipMessage::SyncRequest { source_replica, known_versions } => json!(["SyncRequest", source_replica.0, known_versions.iter().collect::<BTreeMap<_, _>>()]),
                GossipMessage::SyncResponse { source_replica, .. } => json!(["SyncResponse", source_replica.0]),
                GossipMessage::Heartbeat { source_replica, epoch } => json!(["Heartbeat", source_replica.0, epoch]),
            };
            json!([head, m.clone().into_deltas().map(|v| v.iter().map(pi_delta).collect::<Vec<_>>())])
        };
        let got = guard(|| GossipMessage::deserialize(&m.serialize().map_err(|e| format!("serialize: {}", e))?).map(|m| shape(&m)).map_err(|e| format!("deserialize: {}", e)));
        check(rep, "gossip-json", got, shape(&m));
    }
}

/// All mutants of one image through its pipeline: Err or identical content, never different content.
fn mutate_image(rep: &mut Report, px: &Pipes, target: &str, img: &[u8], rng: &mut Rng, only: Option<&Mutn>) {
    let run = |i: &[u8]| match target {
        "segment" => px.seg.run(i),
        "checkpoint" => px.chk.run(i),
        _ => wal_pipe(i, &px.memo),
    };
    px.memo.borrow_mut().clear();
    let base = match run(img) {
        Ok(Ok(v)) => v,
        other => return rep.violation(format!("C14|{}|intact-image-rejected", target), format!("{:?}", other), json!({"leg": "mutant", "target": target, "image": hex(img)})),
    };
    let reg = match target {
        "segment" => Regions::segment(img),
        "checkpoint" => Regions::checkpoint(img),
        _ => Regions::wal(img).0,
    };
    let exhaustive = img.len() <= 2048;
    rep.count(&format!("images:{}:{}", target, if exhaustive { "exhaustive" } else { "sampled" }));
    let ms = match only {
        Some(m) => vec![m.clone()],
        None => mutants(img, &reg, exhaustive, rng, false),
    };
    for mu in ms {
        let m = mu.apply(img);
        if m == img {
            continue;
        }
        rep.evaluations += 1;
        let region = reg.of(first_diff(img, &m)).to_string();
        let wit = || json!({"leg": "mutant", "target": target, "image": hex(img), "mut": mu.to_json()});
        let sig = |d: &str| format!("C14|{}|{}|{}|{}", target, d, region, mu.kind());
        let outcome = match run(&m) {
            Err(p) => {
                rep.violation(sig(&format!("panic:{}", panic_class(&p))), p, wit());
                "PANIC"
            }
            Ok(Err(_)) => "error",
            Ok(Ok(v)) if v == base => "same-content(benign)",
            // WAL: recovery may end early -> a proper prefix of the original list is "detected"
            Ok(Ok(v)) if target == "wal" && v.as_array().zip(base.as_array()).map_or(false, |(a, b)| a.len() < b.len() && a[..] == b[..a.len()]) => "recovery-ended-early",
            // a (stamp 0, empty payload) entry that the original does not have at that place: a zeroed region
            Ok(Ok(v)) if target == "wal" && v.as_array().map_or(false, |a| a.iter().enumerate().any(|(i, e)| e[0] == 0 && e[1].get("Err").is_some() && base.get(i) != Some(e))) => {
                rep.violation(format!("C14|wal|zero-region-read-as-entry|{}", mu.kind()), format!("{} entries recovered from a damaged image of {}, among them (stamp 0, empty payload)", v.as_array().map_or(0, |a| a.len()), base.as_array().map_or(0, |a| a.len())), wit());
                "DIFFERENT"
            }
            Ok(Ok(v)) => {
                let (a, b) = (v.to_string(), base.to_string());
                let at = first_diff(a.as_bytes(), b.as_bytes()).saturating_sub(40);
                let cut = |s: &str| s.chars().skip(at).take(160).collect::<String>();
                rep.violation(sig("decoded-different-content"), format!("damaged image decoded as ...{} instead of ...{}", cut(&a), cut(&b)), wit());
                "DIFFERENT"
            }
        };
        rep.count(&format!("{}:{}:{}", target, region, outcome));
        rep.count(&format!("outcome:{}", outcome));
        rep.count(&format!("mut:{}", mu.kind()));
        rep.distinct(&(target, region.as_str(), mu.kind(), outcome));
    }
}

fn batch_for(seed: u64, case: u64) -> (Vec<ReplicationDelta>, usize, bool) {
    let mut rng = rng_from(seed, 14_000_000 + case);
    // kind / size drawn per case (not from the case number's residue: every shard must see every class)
    let kind = rng.gen_range(0..KINDS.len());
    let big = rng.gen_ratio(1, 5);
    let n = if !big { [1, 1, 2, 3][rng.gen_range(0..4)] } else { [1, 7, 60, 200][rng.gen_range(0..4)] };
    // a batch is homogeneous in kind (so that a failure names the kind) except the large mixed ones
    let ds = (0..n).map(|i| g_delta(&mut rng, if n > 7 { (kind + i) % KINDS.len() } else { kind }, big && i < 2)).collect();
    (ds, kind, big)
}

/// Very large updates (a server value may be up to 512 MB; a hash may have tens of thousands of fields):
/// an encoder and its decoder must agree on what sizes exist.
const GIANTS: [(&str, usize); 7] = [("lww", 1 << 20), ("lww", (1 << 20) - 100), ("lww", (1 << 20) + 1), ("lww", 3 * (1 << 20) + 7), ("lww", 17 << 20), ("hash", 30_000), ("hash", 120_000)];

fn giant_batch(shape: &str, size: usize) -> Vec<ReplicationDelta> {
    let stamp = |t: u64| LamportClock { time: t, replica_id: ReplicaId(3) };
    let crdt = if shape == "lww" {
        let blob: Vec<u8> = (0..size).map(|i| (i as u32).wrapping_mul(2654435761).to_le_bytes()[1]).collect();
        CrdtValue::Lww(LwwRegister::with_value(SDS::new(blob), stamp(9)))
    } else {
        let mut h = HashMap::new();
        for i in 0..size {
            h.insert(format!("field:{}", i), LwwRegister::with_value(SDS::new(format!("value-{}", i).into_bytes()), stamp(1 + (i as u64 % 7))));
        }
        CrdtValue::Hash(h)
    };
    let mut v = g_value(&mut rng_from(1, 1), 0, false, true);
    v.crdt = crdt;
    v.timestamp = stamp(9);
    vec![
        ReplicationDelta::new("before".to_string(), g_value(&mut rng_from(1, 2), 0, false, true), ReplicaId(3)),
        ReplicationDelta::new("giant".to_string(), v, ReplicaId(3)),
        ReplicationDelta::new("after".to_string(), g_value(&mut rng_from(1, 3), 0, false, true), ReplicaId(3)),
    ]
}

pub fn codec_leg(args: &Args) {
    let mut rep = Report::new("C14", "codec");
    let px = Pipes { seg: ObjPipe::new(false), chk: ObjPipe::new(true), memo: Memo::default() };
    if let Some(p) = &args.replay {
        let w = load_witness(p);
        if w["leg"] == "giant" {
            roundtrip(&mut rep, &px, &giant_batch(w["shape"].as_str().unwrap_or("lww"), w["size"].as_u64().unwrap_or(1 << 20) as usize), "giant", &w);
        } else if w["leg"] == "mutant" {
            let mu = w.get("mut").map(Mutn::from_json);
            mutate_image(&mut rep, &px, w["target"].as_str().unwrap_or("wal"), &unhex(w["image"].as_str().unwrap_or("")), &mut rng_from(1, 1), mu.as_ref());
        } else {
            let (ds, kind, _) = batch_for(w["seed"].as_u64().unwrap_or(1), w["case"].as_u64().unwrap_or(0));
            roundtrip(&mut rep, &px, &ds, KINDS[kind], &w);
        }
        return rep.finish(args);
    }
    let n = args.get_u64("cases", if args.thorough() { 12_000 } else { 480 });
    let every = args.get_u64("mutate-every", 6);
    for case in (0..n).filter(|c| c % args.shards as u64 == args.shard as u64) {
        let (ds, kind, big) = batch_for(args.seed, case);
        rep.evaluations += 1;
        rep.count(&format!("values:{}", KINDS[kind]));
        rep.max("batch", ds.len() as u64);
        for d in &ds {
            let v = &d.value;
            rep.distinct(&(v.crdt_type(), v.vector_clock.is_some(), v.expiry_ms.is_some(), v.replication_factor.is_some(), v.is_tombstone(), d.key.is_empty(), ds.len().min(8)));
        }
        roundtrip(&mut rep, &px, &ds, KINDS[kind], &json!({"leg": "roundtrip", "seed": args.seed, "case": case}));
        if h64(&("mutate", case)) % every == 0 {
            let mut rng = rng_from(args.seed, 15_000_000 + case);
            let small = &ds[..ds.len().min(if big { 60 } else { 2 })];
            let imgs = [("segment", seg_image(small)), ("wal", wal_image(&small[..small.len().min(6)])), ("checkpoint", CheckpointWriter::new(Compression::None).write(chk_state(small), 7, 3).map_err(|e| e.to_string()))];
            for (target, img) in imgs {
                if let Ok(img) = img {
                    rep.max(&format!("image_bytes:{}", target), img.len() as u64);
                    mutate_image(&mut rep, &px, target, &img, &mut rng, None);
                }
            }
        }
        if rep.samples.len() < 3 {
            rep.sample(json!({"kind": KINDS[kind], "batch": ds.len(), "first": pi_delta(&ds[0]), "segment_bytes": seg_image(&ds).map(|i| i.len()).ok()}));
        }
    }
    // giants: spread over the shards; the quick tier stops at 3 MiB
    for (i, (shape, size)) in GIANTS.iter().enumerate().filter(|_| args.get_u64("giants", 1) == 1) {
        // quick tier: one string just above 1 MiB and one 30k-field hash
        if args.thorough() && i % args.shards != args.shard {
            continue;
        }
        if !args.thorough() && !((i == 2 && args.shard == 0) || (i == 5 && args.shard == args.shards - 1)) {
            continue;
        }
        rep.evaluations += 1;
        rep.count(&format!("giants:{}", shape));
        rep.max("giant_size", *size as u64);
        rep.distinct(&("giant", shape, size));
        roundtrip(&mut rep, &px, &giant_batch(shape, *size), "giant", &json!({"leg": "giant", "shape": shape, "size": size}));
    }
    for k in KINDS {
        if !rep.counters.contains_key(&format!("values:{}", k)) {
            rep.inconclusive(format!("no value of kind {}", k));
        }
    }
    for need in ["outcome:error", "outcome:same-content(benign)", "outcome:recovery-ended-early", "images:segment:exhaustive", "images:checkpoint:exhaustive", "images:wal:exhaustive", "roundtrip:gossip-json", "mut:truncate", "mut:bitflip"] {
        if !rep.counters.contains_key(need) {
            rep.inconclusive(format!("class never observed: {}", need));
        }
    }
    rep.note("images <= 2 KiB: every truncation length and every single-bit flip; larger: all structural bits/lengths, sampled payload, multi-byte damage");
    rep.finish(args);
}
